#!/bin/bash
# verify_seed.sh <ID> <k>: confirms a seeded change produced by an independent agent in its scratch worktree
# (compiles, existing tests pass, demo fails with the change and passes without), then stores it under /verif/seeded/<ID>-m<k>/
set -u
ID=$1; K=$2; WT=/tmp/seed/$ID; OUT=/tmp/seed/$ID.out/m$K
export GOFLAGS=-mod=mod GOPROXY=off GOSUMDB=off GOTOOLCHAIN=local; unset GOWORK
cd $WT || exit 2
git checkout -q -- . && git clean -fdq
[ -f $OUT/patch.diff ] || { echo "no patch"; exit 2; }
DEST=$(head -1 $OUT/demo_test.go | sed -n 's#^// copy to: *##p' | tr -d ' ')
[ -n "$DEST" ] || { echo "no copy-to line"; exit 2; }
DEMO=$DEST/zz_seed_demo_test.go
RUN=$(grep -oE '^func (Test[A-Za-z0-9_]+)' $OUT/demo_test.go | awk '{print $2}' | paste -sd'|')
[ -n "$RUN" ] || { echo "no Test functions in demo"; exit 2; }
cp $OUT/demo_test.go $DEMO
echo "== demo on unchanged tree (must pass)"
go test -vet=off -count=1 -run "^($RUN)\$" ./$DEST > /tmp/seed/$ID.m$K.base.log 2>&1; BASE=$?
tail -3 /tmp/seed/$ID.m$K.base.log
git apply $OUT/patch.diff || { echo "patch does not apply"; git checkout -q -- .; git clean -fdq; exit 2; }
echo "== build + full suite with change (must pass, demo excluded)"
mv $DEMO /tmp/seed/$ID.m$K.demo.go
go build ./... && go test -vet=off -count=1 ./... > /tmp/seed/$ID.m$K.suite.log 2>&1; SUITE=$?
grep -v "no test files" /tmp/seed/$ID.m$K.suite.log | grep -v '^ok' | tail -5
cp /tmp/seed/$ID.m$K.demo.go $DEMO
echo "== demo with change (must fail)"
go test -vet=off -count=1 -run "^($RUN)\$" ./$DEST > /tmp/seed/$ID.m$K.mut.log 2>&1; MUT=$?
tail -4 /tmp/seed/$ID.m$K.mut.log
git checkout -q -- . && git clean -fdq
echo "base=$BASE suite=$SUITE mutated=$MUT"
if [ $BASE -eq 0 ] && [ $SUITE -eq 0 ] && [ $MUT -ne 0 ]; then
  D=/verif/seeded/$ID-m$K; mkdir -p $D
  cp $OUT/patch.diff $D/patch.diff; cp $OUT/demo_test.go $D/demo_test.go
  python3 - "$OUT/meta.json" "$D/meta.json" "$ID" "$DEST" <<'PY'
import json,sys
m=json.load(open(sys.argv[1])); m["property"]=sys.argv[3]
m["verified"]={"ran":"verify_seed.sh: demo on unchanged tree passes; with patch applied `go build ./...` and `go test -vet=off -count=1 ./...` pass and the demo fails","demo_package":sys.argv[4]}
m.setdefault("caught_by",[])
json.dump(m,open(sys.argv[2],"w"),indent=1)
PY
  echo "KEPT $D"
else
  echo "REJECTED"
fi
