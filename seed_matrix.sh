#!/bin/bash
# seed_matrix.sh: applies every seeded change under /verif/seeded to /repo's working tree (one at a
# time, undone straight afterwards), runs all twenty quick checks without touching the evidence
# files, and records which properties' checks report a new failing obligation.
# Output: /verif/seeded/MATRIX.md and the caught_by field of each meta.json.
set -u
export GOFLAGS=-mod=mod GOPROXY=off GOSUMDB=off GOTOOLCHAIN=local; unset GOWORK
V=/verif
cd $V && ./check C04 quick >/dev/null 2>&1   # builds bin/sxlint
if [ -n "$(git -C /repo status --porcelain)" ]; then echo "/repo working tree not clean"; exit 2; fi
PROPS=$(bin/sxlint list)
OUT=$V/seeded/MATRIX.md
echo "| seeded change | property | caught by (rules) |" > $OUT
echo "|---|---|---|" >> $OUT
for d in $V/seeded/C*-m*; do
  name=$(basename $d)
  if ! git -C /repo apply --check $d/patch.diff 2>/dev/null; then echo "| $name | - | patch no longer applies |" >> $OUT; continue; fi
  git -C /repo apply $d/patch.diff
  caught=""; rules=""
  for p in $PROPS; do
    o=$(bin/sxlint check -prop $p -tier quick -no-evidence -fail-keys 2>/dev/null | grep '^FAIL-KEY' | sed 's/^FAIL-KEY //' | cut -d'|' -f1 | sort -u | paste -sd' ')
    if [ -n "$o" ]; then caught="$caught $p"; rules="$rules $o"; fi
  done
  git -C /repo checkout -- . ; git -C /repo clean -fdq
  prop=$(python3 -c "import json;print(json.load(open('$d/meta.json'))['property'])")
  python3 - "$d/meta.json" $caught <<'PY'
import json,sys
m=json.load(open(sys.argv[1])); m['caught_by']=sys.argv[2:]
json.dump(m,open(sys.argv[1],'w'),indent=1)
PY
  echo "| $name | $prop | ${rules:- **missed**} |" >> $OUT
  echo "$name: $caught"
done
