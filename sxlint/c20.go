package main

import (
	"fmt"
	"go/types"
	"sort"
	"strings"

	"golang.org/x/tools/go/ssa"
)

func init() {
	register(&propDef{
		ID: "C20",
		Explanation: "Static conformance of every packet.Receiver implementation's receive loop: the loop is cut into its acyclic segments " +
			"(all paths of one iteration) and each segment is checked against the per-iteration contract (cancellation test first, one read, " +
			"transient => silent retry, fatal => return, unknown => exactly one blocking guarded report then continue, success => exactly one " +
			"ProcessPacketData with that read's values, processing error => one report and never a return); the loop carries no state, so the " +
			"per-iteration contract extends to every finite fault sequence by induction. The two classification predicates are folded over their atoms.",
		NotDecided:  []string{"wall-clock behaviour of the 5ms back-off", "what AF_PACKET returns for which kernel condition"},
		Assumptions: []string{"errors.Is / == on sentinel errors behave as documented", "the reader implementation returns a fresh (data, ci) pair per call"},
		Run:         runC20,
	})
}

const (
	fnReaderRead  = modPath + "/pkg/packet.Reader.ReadPacketData"
	fnProcProcess = modPath + "/pkg/packet.Processor.ProcessPacketData"
)

func runC20(p *Prog, r *Report) {
	r.Min("C20.R1", 1)
	r.Min("C20.R2", 8)
	r.Min("C20.R3", 6)
	impls := p.Implementers(modPath+"/pkg/packet", "Receiver", "ReceivePackets")
	if len(impls) == 0 {
		r.Undecided("C20.anchor", "packet.Receiver", "-", "at least one packet.Receiver implementation exists", "no implementation found")
		return
	}
	for _, fn := range impls {
		checkReceiver(p, r, fn)
	}
	r.Min("C20.R4", 2)
	checkReaderChain(p, r)
}

// checkReaderChain (R4): what the receive loop classifies is what the socket returned. Every
// ReadPacketData in the repository either reads the socket itself or is a pure pass-through of its
// delegate: one delegate call whose three results are returned untouched - an adapter that wraps the
// error (fmt.Errorf("...: %w", err)) defeats the identity and net.Error tests of the classification.
func checkReaderChain(p *Prog, r *Report) {
	var readers []*ssa.Function
	for _, fn := range p.Implementers(modPath+"/pkg/packet", "Reader", "ReadPacketData") {
		if fn.Blocks != nil && fn.Synthetic == "" {
			readers = append(readers, fn)
		}
	}
	wrappers := 0
	for _, fn := range readers {
		delegates := false
		for _, b := range fn.Blocks {
			for _, in := range b.Instrs {
				if c, ok := in.(*ssa.Call); ok && calleeName(&c.Call) == "ReadPacketData" {
					delegates = true
				}
			}
		}
		if !delegates {
			continue
		}
		wrappers++
		ok, why := true, ""
		fp := PathsInl(fn)
		if len(fp.Headers) > 0 || fp.Truncated {
			r.Undecided("C20.R4", FuncName(fn)+"/pass-through", p.Pos(fn.Pos()), "the reader adapter is loop-free", "loop in a reader adapter")
			continue
		}
		for _, s := range fp.Segs {
			if !s.Returns() {
				continue
			}
			var dc *ssa.Call
			n := 0
			for _, e := range s.Events {
				if e.Kind == EvCall && e.Call != nil && calleeName(e.Call) == "ReadPacketData" {
					n++
					dc, _ = e.Instr.(*ssa.Call)
				}
			}
			ret := s.Exit.(*ssa.Return)
			if n != 1 || dc == nil || len(ret.Results) != 3 {
				ok, why = false, fmt.Sprintf("a path performs %d delegate reads", n)
				continue
			}
			for i, rv := range ret.Results {
				ex, isEx := s.Resolve(rv).(*ssa.Extract)
				if !isEx || ex.Tuple != ssa.Value(dc) || ex.Index != i {
					ok, why = false, fmt.Sprintf("result #%d is %s, not the delegate's result (a wrapped error is no longer recognised by the receive loop's classification)", i, s.Term(rv))
				}
			}
		}
		r.Check(ok, "C20.R4", FuncName(fn)+"/pass-through", p.Pos(fn.Pos()), "a reader adapter returns exactly what its delegate's read returned", why)
	}
	r.Check(len(readers) >= 1, "C20.R4", "readers", "-", "the repository's packet readers are found (socket source; adapters, if any, are pure pass-throughs)", fmt.Sprintf("%d readers, %d adapters", len(readers), wrappers))
	// the rate-limit adapter declares no reader of its own (C15.R3 clause re-evaluated)
	sub := NewReport("C20", "quick")
	runC15(p, sub)
	for _, o := range sub.Obs {
		if o.Rule == "C15.R3" && strings.HasSuffix(o.Construct, "/methods") {
			o2 := *o
			o2.Rule = "C20.R4"
			r.Obs = append(r.Obs, &o2)
		}
	}
}

func checkReceiver(p *Prog, r *Report, fn *ssa.Function) {
	name := FuncName(fn)
	// the goroutine containing the read loop
	var loopFn *ssa.Function
	for _, g := range GoClosures(fn) {
		// directly, or through a small forwarding method of the package (expanded in place below)
		if staticReachesInvoke(g, "ReadPacketData", 1) {
			loopFn = g
		}
	}
	if loopFn == nil {
		r.Undecided("C20.anchor", name, p.Pos(fn.Pos()), "the receive loop runs in a goroutine spawned by ReceivePackets", "no goroutine calling Reader.ReadPacketData found")
		return
	}
	heads := loopHeadersSorted(loopFn)
	if len(heads) != 1 {
		r.Undecided("C20.anchor", name, p.Pos(loopFn.Pos()), "the receive goroutine is a single loop", fmt.Sprintf("%d loops", len(heads)))
		return
	}
	L := heads[0]
	fp := PathsInl(loopFn)
	r.Count("segments", len(fp.Segs))

	// R1: stateless loop — no phi at the header, no store into captured cells or through pointers
	stateless := true
	detail := ""
	for _, in := range L.Instrs {
		if _, ok := in.(*ssa.Phi); ok {
			stateless = false
			detail = "loop-carried value " + in.(*ssa.Phi).Name() + " (" + in.(*ssa.Phi).Comment + ")"
		}
	}
	lb := loopBlocks(L)
	for b := range lb {
		for _, in := range b.Instrs {
			switch t := in.(type) {
			case *ssa.Store:
				stateless = false
				detail = "store to " + (*Seg)(nil).term(t.Addr, 0) + " at " + p.Pos(t.Pos())
			case *ssa.MapUpdate:
				stateless = false
				detail = "map update at " + p.Pos(t.Pos())
			}
		}
	}
	r.Check(stateless, "C20.R1", name, p.Pos(loopFn.Pos()), "the receive loop carries no state between iterations (no header phi, no stores)", detail)

	// the error channel returned by ReceivePackets
	var errc ssa.Value
	for _, b := range fn.Blocks {
		for _, in := range b.Instrs {
			if ret, ok := in.(*ssa.Return); ok && len(ret.Results) == 1 {
				errc = stripConv(ret.Results[0])
			}
		}
	}
	isErrc := func(s *Seg, ch ssa.Value) bool {
		if errc == nil {
			return false
		}
		if p.SameOrigin(s.Resolve(ch), errc) {
			return true
		}
		// through goroutine parameters and captured variables
		for _, oa := range p.OriginsIP(s.Resolve(ch)) {
			for _, ob := range p.OriginsIP(errc) {
				if oa == ob {
					return true
				}
			}
		}
		return false
	}

	// classify predicates called on the read error
	type predUse struct {
		fn       *ssa.Function
		trueEnds map[string]bool
	}
	preds := map[*ssa.Function]*predUse{}

	iter := 0
	for _, s := range fp.From(L) {
		if s.IsSelectPanicTail() {
			continue
		}
		iter++
		key := fmt.Sprintf("%s/iteration-path#%d", name, iter)
		pos := p.Pos(loopFn.Pos())
		path := s.Describe(p)
		reads := s.CallsTo(fnReaderRead)
		procs := s.CallsTo(fnProcProcess)
		emits := s.Emits()
		// cancellation test first
		ctxFirst := false
		doneChosen := false
		for _, e := range s.Events {
			if e.Kind == EvSelect {
				for i, st := range e.Sel.States {
					if st.Dir == types.RecvOnly && isCtxDone(st.Chan) {
						if len(reads) == 0 || e.Ord < reads[0].Ord {
							ctxFirst = true
						}
						if e.Chosen == i {
							doneChosen = true
						}
					}
				}
			}
			if e.Kind == EvCall && calleeFull(e.Call) == "context.Context.Err" && (len(reads) == 0 || e.Ord < reads[0].Ord) {
				ctxFirst = true
			}
		}
		if len(reads) > 1 {
			r.Viol("C20.R2", key, pos, "at most one read per iteration", fmt.Sprintf("%d reads", len(reads)), path...)
			continue
		}
		if len(reads) == 0 {
			// must be the cancellation exit
			ok := doneChosen && s.Returns() && len(emits) == 0 && len(procs) == 0
			r.Check(ok, "C20.R2", key, pos, "a path without a read is the cancellation exit (Done chosen, return, no effects)", "path without read is not a clean cancellation exit", path...)
			continue
		}
		if !ctxFirst {
			r.Viol("C20.R2", key, pos, "cancellation is tested before each read", "no ctx.Done()/ctx.Err() test precedes the read", path...)
			continue
		}
		rd := reads[0].Instr.(*ssa.Call)
		var rdErr, rdData, rdCI ssa.Value
		for _, ref := range *rd.Referrers() {
			if ex, ok := ref.(*ssa.Extract); ok {
				switch ex.Index {
				case 0:
					rdData = ex
				case 1:
					rdCI = ex
				case 2:
					rdErr = ex
				}
			}
		}
		if rdErr == nil {
			r.Viol("C20.R2", key, pos, "the read error is examined", "error result of ReadPacketData is discarded", path...)
			continue
		}
		known, isNil := s.NilFact(rdErr)
		if !known {
			r.Viol("C20.R2", key, pos, "every path after a read is selected by a test of the read error", "path does not test the read error", path...)
			continue
		}
		// all emits must be blocking guarded sends to the returned error channel
		bad := ""
		for _, em := range emits {
			if em.Raw {
				bad = "unguarded send (blocks forever after cancellation)"
			}
			if em.Lossy {
				bad = "send with default case: a report can be dropped when the buffer is full"
			}
			if !isErrc(s, em.Chan) {
				bad = "send to a channel other than the returned error channel"
			}
		}
		if bad != "" {
			r.Viol("C20.R2", key, pos, "every report is a blocking send on the returned error channel guarded by ctx.Done()", bad, path...)
			continue
		}
		nSent := 0
		var sentVals []ssa.Value
		for _, em := range emits {
			nSent++
			sentVals = append(sentVals, em.Val)
		}
		if isNil {
			// success: exactly one ProcessPacketData(data, ci) of this read
			if len(procs) != 1 {
				r.Viol("C20.R2", key, pos, "a successfully read frame is processed exactly once", fmt.Sprintf("%d ProcessPacketData calls on the success path", len(procs)), path...)
				continue
			}
			pc := procs[0].Call
			if len(pc.Args) != 2 || s.Resolve(pc.Args[0]) != rdData || s.Resolve(pc.Args[1]) != rdCI {
				r.Viol("C20.R2", key, pos, "the processor receives the data and capture info of this very read", "arguments are not (data, ci) of the read on this path", path...)
				continue
			}
			perr := procs[0].Val
			pk, pnil := s.NilFact(perr)
			switch {
			case !pk:
				// result ignored entirely: then no report may happen — but errors must be reported once
				r.Viol("C20.R2", key, pos, "the processing error is examined", "path does not test the ProcessPacketData error", path...)
			case pnil:
				r.Check(nSent == 0 && s.End == L, "C20.R2", key, pos, "successful processing reports nothing and continues", "report or exit after successful processing", path...)
			default:
				ok := nSent == 1 && s.Same(sentVals[0], perr)
				if ok && !doneChosen {
					ok = s.End == L
				}
				if doneChosen {
					ok = ok || (nSent == 0 && s.Returns())
				}
				// with Done chosen there is no send event (chosen is the Done case): accept return
				if doneChosen && nSent == 0 {
					ok = s.Returns() || s.End == L
				}
				r.Check(ok, "C20.R2", key, pos, "a processing error is reported exactly once and never stops the receiver", fmt.Sprintf("sent=%d continue=%v doneChosen=%v", nSent, s.End == L, doneChosen), path...)
			}
			continue
		}
		// read error paths
		if len(procs) != 0 {
			r.Viol("C20.R2", key, pos, "a failed read is never processed", "ProcessPacketData called on the read-error path", path...)
			continue
		}
		// which predicates were consulted, with what outcome
		var tested []string
		anyTrue := false
		for _, e := range s.Events {
			if e.Kind != EvCall {
				continue
			}
			f := StaticCallee(e.Call)
			if f == nil || !isErrPredicate(f) || len(e.Call.Args) != 1 || !s.Same(e.Call.Args[0], rdErr) {
				continue
			}
			k, v := s.BoolFact(e.Val)
			if !k {
				continue
			}
			pu := preds[f]
			if pu == nil {
				pu = &predUse{fn: f, trueEnds: map[string]bool{}}
				preds[f] = pu
			}
			tested = append(tested, fmt.Sprintf("%s=%v", f.Name(), v))
			if v {
				anyTrue = true
				if s.End == L {
					pu.trueEnds["continue"] = true
				} else if s.Returns() {
					pu.trueEnds["return"] = true
				}
				// a classified error is never reported
				r.Check(nSent == 0, "C20.R2", key, pos, "a classified (transient or fatal) read error is not reported", "report on a classified error path", path...)
			}
		}
		if anyTrue {
			continue
		}
		// unknown error: exactly one report of this error, then continue (or exit if Done was chosen instead)
		if doneChosen && nSent == 0 {
			r.Check(s.Returns(), "C20.R2", key, pos, "cancellation while reporting ends reading", "Done chosen but loop continues", path...)
			continue
		}
		ok := nSent == 1 && s.Same(sentVals[0], rdErr) && s.End == L
		r.Check(ok, "C20.R2", key, pos, "an unknown read error is reported exactly once and reading continues ("+strings.Join(tested, ",")+")",
			fmt.Sprintf("sent=%d continue=%v", nSent, s.End == L), path...)
	}

	// exits: errc closed exactly once, by defer
	nclose := len(deferredCloses(loopFn)) // `defer close(ch)` or a deferred closure literal that closes it
	otherClose := 0
	for _, s := range fp.Segs {
		for _, e := range s.Events {
			if e.Kind == EvClose {
				otherClose++
			}
		}
	}
	r.Check(nclose == 1 && otherClose == 0, "C20.R2", name+"/close", p.Pos(loopFn.Pos()), "the error channel is closed exactly once, by a deferred close in the receive goroutine",
		fmt.Sprintf("deferred closes=%d, inline closes=%d", nclose, otherClose))

	// R3: classification tables
	var temp, fatal *ssa.Function
	for f, pu := range preds {
		if pu.trueEnds["continue"] && !pu.trueEnds["return"] {
			temp = f
		}
		if pu.trueEnds["return"] && !pu.trueEnds["continue"] {
			fatal = f
		}
	}
	if temp == nil || fatal == nil {
		r.Undecided("C20.R3", name+"/classification", p.Pos(loopFn.Pos()), "the loop classifies read errors with a transient predicate (true => retry) and a fatal predicate (true => return)",
			fmt.Sprintf("transient=%v fatal=%v", temp != nil, fatal != nil))
		return
	}
	tt, ft := FoldErrPredicate(temp), FoldErrPredicate(fatal)
	for _, x := range []struct {
		pt   *PredTable
		f    *ssa.Function
		want []string
		cls  string
	}{
		{tt, temp, []string{"syscall.EAGAIN", "syscall.ECONNRESET", "net.Error.Timeout"}, "transient"},
		{ft, fatal, []string{"io.EOF", "syscall.EBADF", "use of closed file"}, "fatal"},
	} {
		if x.pt.Undecided != "" {
			r.Undecided("C20.R3", FuncName(x.f), p.Pos(x.f.Pos()), "classification predicate is foldable over its atoms", x.pt.Undecided)
			continue
		}
		for _, w := range x.want {
			r.Check(x.pt.Has(w), "C20.R3", FuncName(x.f)+"/"+w, p.Pos(x.f.Pos()), "the "+x.cls+" class contains "+w, "accepted atoms: "+strings.Join(x.pt.Names(), ", "))
		}
	}
	// the classes are closed: an error outside them is "unknown" - reported once, and reading continues.
	// Adding an errno that is in fact transient (ENETDOWN on a link flap) to the fatal class silently ends
	// reception; adding one to the transient class hides failures.
	allowed := map[string]map[string]bool{
		"transient": {"syscall.EAGAIN": true, "syscall.EWOULDBLOCK": true, "syscall.ECONNRESET": true, "syscall.EINTR": true, "net.Error.Timeout": true, "os.ErrDeadlineExceeded": true},
		"fatal": {"io.EOF": true, "io.ErrUnexpectedEOF": true, "io.ErrNoProgress": true, "io.ErrClosedPipe": true, "io.ErrShortBuffer": true, "syscall.EBADF": true,
			"use of closed file": true, "os.ErrClosed": true, "net.ErrClosed": true, "use of closed network connection": true},
	}
	for _, x := range []struct {
		pt  *PredTable
		f   *ssa.Function
		cls string
	}{{tt, temp, "transient"}, {ft, fatal, "fatal"}} {
		if x.pt.Undecided != "" {
			continue
		}
		var extra []string
		for k := range x.pt.Accept {
			for _, alt := range strings.Split(k, "|") {
				if !allowed[x.cls][alt] {
					extra = append(extra, alt)
				}
			}
		}
		sort.Strings(extra)
		r.Check(len(extra) == 0, "C20.R3", FuncName(x.f)+"/closed-class", p.Pos(x.f.Pos()), "the "+x.cls+" class holds only errors that denote "+map[string]string{"transient": "would-block, timeout, interruption or connection reset", "fatal": "a closed or broken socket"}[x.cls], "also in the class: "+strings.Join(extra, ", "))
	}
	if tt.Undecided == "" && ft.Undecided == "" {
		var both []string
		for k := range tt.Accept {
			for _, alt := range strings.Split(k, "|") {
				if ft.Has(alt) {
					both = append(both, alt)
				}
			}
		}
		r.Check(len(both) == 0, "C20.R3", name+"/disjoint", p.Pos(temp.Pos()), "transient and fatal classes are disjoint", "in both classes: "+strings.Join(both, ", "))
	}
}

func isErrPredicate(f *ssa.Function) bool {
	if f == nil || f.Blocks == nil || f.Pkg == nil || !IsRepoPkg(f.Pkg.Pkg) {
		return false
	}
	sig := f.Signature
	if sig.Params().Len() != 1 || sig.Results().Len() != 1 {
		return false
	}
	if b, ok := sig.Results().At(0).Type().Underlying().(*types.Basic); !ok || b.Kind() != types.Bool {
		return false
	}
	if !types.Identical(sig.Params().At(0).Type(), types.Universe.Lookup("error").Type()) {
		return false
	}
	// a classifier only looks at the error: a func(error) bool that sends, receives or selects is a
	// reporting helper (expanded in place), not a classification predicate
	for _, b := range f.Blocks {
		for _, in := range b.Instrs {
			switch in.(type) {
			case *ssa.Send, *ssa.Select, *ssa.Go:
				return false
			}
		}
	}
	return true
}
