package main

// CH — value origins (channel identity and, more generally, "where can this value come from").

import (
	"go/token"
	"go/types"

	"golang.org/x/tools/go/ssa"
)

type originWalker struct {
	p    *Prog
	seen map[ssa.Value]bool
	out  []ssa.Value
	outS map[ssa.Value]bool
	// interprocedural expansion switches
	throughParams bool
	// calls of these functions are roots (a factory returns a fresh value per call)
	stopAt map[*ssa.Function]bool
}

// OriginsStopAt is OriginsIP, except that a call of one of the given functions is a root itself.
func (p *Prog) OriginsStopAt(v ssa.Value, stop map[*ssa.Function]bool) []ssa.Value {
	w := &originWalker{p: p, seen: map[ssa.Value]bool{}, outS: map[ssa.Value]bool{}, throughParams: true, stopAt: stop}
	w.walk(v, 0)
	return w.out
}

// Origins returns the root values v may originate from: MakeChan/Alloc-free roots such as
// *ssa.MakeChan, *ssa.Parameter, *ssa.Const, *ssa.Call (unresolved), *ssa.MakeClosure, *ssa.Function ...
func (p *Prog) Origins(v ssa.Value) []ssa.Value {
	w := &originWalker{p: p, seen: map[ssa.Value]bool{}, outS: map[ssa.Value]bool{}}
	w.walk(v, 0)
	return w.out
}

// OriginsIP is Origins, additionally following parameters to the arguments of static callers
// and `go`/`defer` sites inside the repository.
func (p *Prog) OriginsIP(v ssa.Value) []ssa.Value {
	w := &originWalker{p: p, seen: map[ssa.Value]bool{}, outS: map[ssa.Value]bool{}, throughParams: true}
	w.walk(v, 0)
	return w.out
}

func (w *originWalker) root(v ssa.Value) {
	if !w.outS[v] {
		w.outS[v] = true
		w.out = append(w.out, v)
	}
}

func (w *originWalker) walk(v ssa.Value, d int) {
	if v == nil || w.seen[v] {
		return
	}
	w.seen[v] = true
	if d > 40 {
		w.root(v)
		return
	}
	switch t := v.(type) {
	case *ssa.ChangeType:
		w.walk(t.X, d+1)
	case *ssa.ChangeInterface:
		w.walk(t.X, d+1)
	case *ssa.MakeInterface:
		w.walk(t.X, d+1)
	case *ssa.Phi:
		for _, e := range t.Edges {
			w.walk(e, d+1)
		}
	case *ssa.FreeVar:
		if b := BindingOf(t); b != nil {
			w.walk(b, d+1)
		} else {
			w.root(v)
		}
	case *ssa.UnOp:
		if t.Op != token.MUL {
			w.root(v)
			return
		}
		cell := t.X
		for i := 0; i < 6; i++ {
			fv, ok := cell.(*ssa.FreeVar)
			if !ok {
				break
			}
			b := BindingOf(fv)
			if b == nil {
				break
			}
			cell = b
		}
		switch c := cell.(type) {
		case *ssa.Alloc:
			stores := w.p.StoresToAlloc(c)
			if len(stores) == 0 {
				w.root(v)
			}
			for _, st := range stores {
				w.walk(st, d+1)
			}
		case *ssa.FieldAddr:
			stores := w.p.StoresToField(fieldObj(c))
			if len(stores) == 0 {
				w.root(v)
			}
			for _, st := range stores {
				w.walk(st, d+1)
			}
		case *ssa.Global:
			w.root(c)
		default:
			w.root(v)
		}
	case *ssa.Field:
		w.root(v)
	case *ssa.Extract:
		if call, ok := t.Tuple.(*ssa.Call); ok {
			if f := StaticCallee(&call.Call); f != nil && w.stopAt[f] {
				w.root(call)
				return
			}
			// a thin forwarding adapter is as opaque as the interface call it wraps
			if f := StaticCallee(&call.Call); f != nil && f.Signature.Recv() != nil && f.Blocks != nil && isPlainForwarder(f, f.Name()) {
				w.root(v)
				return
			}
			if f := StaticCallee(&call.Call); f != nil && f.Blocks != nil && f.Pkg != nil && IsRepoPkg(f.Pkg.Pkg) {
				for _, b := range f.Blocks {
					for _, in := range b.Instrs {
						if ret, ok := in.(*ssa.Return); ok && t.Index < len(ret.Results) {
							w.walk(ret.Results[t.Index], d+1)
						}
					}
				}
				return
			}
		}
		w.root(v)
	case *ssa.Call:
		if f := StaticCallee(&t.Call); f != nil && w.stopAt[f] {
			w.root(t)
			return
		}
		if f := StaticCallee(&t.Call); f != nil && f.Blocks != nil && f.Pkg != nil && IsRepoPkg(f.Pkg.Pkg) && f.Signature.Results().Len() == 1 {
			for _, b := range f.Blocks {
				for _, in := range b.Instrs {
					if ret, ok := in.(*ssa.Return); ok && len(ret.Results) == 1 {
						w.walk(ret.Results[0], d+1)
					}
				}
			}
			return
		}
		w.root(v)
	case *ssa.Parameter:
		if w.throughParams {
			args := w.p.ArgsBoundTo(t)
			if len(args) > 0 {
				for _, a := range args {
					w.walk(a, d+1)
				}
				return
			}
		}
		w.root(v)
	default:
		w.root(v)
	}
}

func fieldObj(fa *ssa.FieldAddr) *types.Var {
	t := fa.X.Type()
	if p, ok := t.Underlying().(*types.Pointer); ok {
		t = p.Elem()
	}
	if st, ok := t.Underlying().(*types.Struct); ok && fa.Field < st.NumFields() {
		return st.Field(fa.Field)
	}
	return nil
}

// StoresToAlloc returns every value stored into the cell, in its function and in closures
// that capture it (transitively).
func (p *Prog) StoresToAlloc(a *ssa.Alloc) []ssa.Value {
	var out []ssa.Value
	var cells func(cell ssa.Value, d int)
	cells = func(cell ssa.Value, d int) {
		if d > 6 {
			return
		}
		refs := cell.Referrers()
		if refs == nil {
			return
		}
		for _, r := range *refs {
			switch t := r.(type) {
			case *ssa.Store:
				if t.Addr == cell {
					out = append(out, t.Val)
				}
			case *ssa.MakeClosure:
				fn := t.Fn.(*ssa.Function)
				for i, b := range t.Bindings {
					if b == cell && i < len(fn.FreeVars) {
						cells(fn.FreeVars[i], d+1)
					}
				}
			}
		}
	}
	cells(a, 0)
	return out
}

var fieldStoreCache map[*types.Var][]ssa.Value

// StoresToField returns every value stored to the struct field anywhere in the repository
// (composite literals are field stores in SSA).
func (p *Prog) StoresToField(f *types.Var) []ssa.Value {
	if f == nil {
		return nil
	}
	if fieldStoreCache == nil {
		fieldStoreCache = map[*types.Var][]ssa.Value{}
		for _, fn := range p.SrcFuncs() {
			for _, b := range fn.Blocks {
				for _, in := range b.Instrs {
					if st, ok := in.(*ssa.Store); ok {
						if fa, ok := st.Addr.(*ssa.FieldAddr); ok {
							if fo := fieldObj(fa); fo != nil {
								fieldStoreCache[fo] = append(fieldStoreCache[fo], st.Val)
							}
						}
					}
					// a helper that fills the field through a pointer: h(..., &x.f, ...) with `*param = v` inside h
					if c, ok := in.(*ssa.Call); ok {
						h := StaticCallee(&c.Call)
						if h == nil || h.Blocks == nil || h.Pkg == nil || !IsRepoPkg(h.Pkg.Pkg) {
							continue
						}
						for i, a := range c.Call.Args {
							fa, isFA := a.(*ssa.FieldAddr)
							if !isFA || i >= len(h.Params) {
								continue
							}
							fo := fieldObj(fa)
							if fo == nil {
								continue
							}
							for _, hb := range h.Blocks {
								for _, hi := range hb.Instrs {
									if st, isS := hi.(*ssa.Store); isS && st.Addr == ssa.Value(h.Params[i]) {
										fieldStoreCache[fo] = append(fieldStoreCache[fo], st.Val)
									}
								}
							}
						}
					}
				}
			}
		}
	}
	return fieldStoreCache[f]
}

var argCache map[*ssa.Function][][]ssa.Value

// ArgsBoundTo returns the arguments bound to parameter prm at every static call / go / defer
// site of its function inside the repository.
func (p *Prog) ArgsBoundTo(prm *ssa.Parameter) []ssa.Value {
	fn := prm.Parent()
	idx := paramIndex(fn, prm)
	if idx < 0 {
		return nil
	}
	if argCache == nil {
		argCache = map[*ssa.Function][][]ssa.Value{}
		for _, f := range p.SrcFuncs() {
			for _, b := range f.Blocks {
				for _, in := range b.Instrs {
					ci, ok := in.(ssa.CallInstruction)
					if !ok {
						continue
					}
					c := ci.Common()
					if c.IsInvoke() {
						// interface call: bind to every repo method with that name whose receiver implements the interface
						for _, impl := range p.methodsNamed(c.Method.Name()) {
							rt := impl.Signature.Recv().Type()
							if it, ok := c.Value.Type().Underlying().(*types.Interface); ok && types.Implements(rt, it) {
								args := append([]ssa.Value{c.Value}, c.Args...)
								argCache[impl] = append(argCache[impl], args)
							}
						}
						continue
					}
					callee := StaticCallee(c)
					if callee == nil {
						continue
					}
					args := c.Args
					argCache[callee] = append(argCache[callee], args)
				}
			}
		}
	}
	var out []ssa.Value
	for _, args := range argCache[fn] {
		if idx < len(args) {
			out = append(out, args[idx])
		}
	}
	return out
}

var methodIndex map[string][]*ssa.Function

func (p *Prog) methodsNamed(name string) []*ssa.Function {
	if methodIndex == nil {
		methodIndex = map[string][]*ssa.Function{}
		for _, f := range p.SrcFuncs() {
			if f.Signature.Recv() != nil && f.Parent() == nil {
				methodIndex[f.Name()] = append(methodIndex[f.Name()], f)
			}
		}
	}
	return methodIndex[name]
}

// SameOrigin reports whether two values have a common root origin that is a creation site
// (MakeChan, Alloc-free call result, ...), the usual notion of "the same channel".
func (p *Prog) SameOrigin(a, b ssa.Value) bool {
	oa, ob := p.Origins(a), p.Origins(b)
	for _, x := range oa {
		for _, y := range ob {
			if x == y {
				return true
			}
		}
	}
	return false
}

// MakeChans returns the make(chan) sites among the origins of v.
func (p *Prog) MakeChans(v ssa.Value) []*ssa.MakeChan {
	var out []*ssa.MakeChan
	for _, o := range p.Origins(v) {
		if mc, ok := o.(*ssa.MakeChan); ok {
			out = append(out, mc)
		}
	}
	return out
}
