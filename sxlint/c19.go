package main

import (
	"fmt"
	"go/constant"
	"go/types"
	"strings"

	"golang.org/x/tools/go/ssa"
)

func init() {
	register(&propDef{
		ID: "C19",
		Explanation: "Static conformance of live mode: (R1) every acyclic segment of the live generator's loop: a request of the current pass is forwarded exactly once; when the pass channel is closed, every path to the next delegate.GenerateRequests creates a fresh timer of rescanTimeout after the pass ended and waits for it (or leaves on ctx.Done with the output closed by defer); the new pass uses the same range; every cycle contains a blocking operation (no busy loop); " +
			"(R3) the command wires live(filter(base)) for every combination of --exclude / --live (chain decoded per path), the interval is the --live option, and the unique logger is installed exactly when live mode is on.",
		NotDecided:  []string{"the interval in wall-clock terms", "a pass that fails to start stalls live mode silently until cancel (allowed by the statement)", "completeness of each pass (C01 rules on the delegate chain)"},
		Assumptions: []string{"time.After(d) fires no earlier than d after its call"},
		Run:         runC19,
	})
}

func runC19(p *Prog, r *Report) {
	r.Min("C19.R1", 4)
	r.Min("C19.R3", 5+1)
	// the rescan interval handed to the live stage is the --live value as written
	checkFlagFieldsReadOnly(p, r, "C19.R3", func(fr FlagReg) bool { return fr.Name == "live" })
	// the live generator: RequestGenerator implementer whose goroutine re-invokes the delegate inside its loop
	var lives []*ssa.Function
	for _, fn := range p.Implementers(modPath+"/pkg/scan", "RequestGenerator", "GenerateRequests") {
		for _, g := range GoClosures(fn) {
			for _, h := range loopHeadersSorted(g) {
				for b := range loopBlocks(h) {
					for _, in := range b.Instrs {
						if c, ok := in.(*ssa.Call); ok && IsCallTo(&c.Call, fnGenReq) {
							lives = append(lives, fn)
						}
					}
				}
			}
		}
	}
	if len(lives) != 1 {
		r.Undecided("C19.R1", "live generator", "-", "exactly one request generator regenerates its delegate inside its loop", fmt.Sprint(len(lives)))
		return
	}
	live := lives[0]
	checkLiveLoop(p, r, live)
	checkLiveWiring(p, r, live)
}

func checkLiveLoop(p *Prog, r *Report, live *ssa.Function) {
	g := GoClosures(live)[0]
	heads := loopHeadersSorted(g)
	if len(heads) != 1 {
		r.Undecided("C19.R1", FuncName(g), p.Pos(g.Pos()), "live goroutine is one loop", fmt.Sprint(len(heads)))
		return
	}
	L := heads[0]
	pos := p.Pos(g.Pos())
	reqT := "*" + modPath + "/pkg/scan.Request"
	rangeParam := live.Params[2]
	i := 0
	for _, s := range PathsInl(g).From(L) {
		if s.IsSelectPanicTail() {
			continue
		}
		i++
		key := segKey(g, "iteration-path", i)
		path := s.Describe(p)
		// request received?
		var req ssa.Value
		closed := false
		blocking := false
		for _, e := range s.Events {
			if e.Kind == EvSelect && e.Sel.Blocking {
				blocking = true
			}
			if e.Kind == EvCall && calleeFull(e.Call) == "time.Sleep" {
				blocking = true
			}
			if e.Kind != EvCall {
				continue
			}
			f := StaticCallee(e.Call)
			if f == nil || f.Pkg == nil || !IsRepoPkg(f.Pkg.Pkg) {
				continue
			}
			if SummGuardedSend(f) != nil {
				blocking = true
			}
			if e.Call.Signature().Results().Len() == 2 && types.TypeString(e.Call.Signature().Results().At(0).Type(), nil) == reqT {
				var rv, okv ssa.Value
				for _, ref := range *e.Instr.(*ssa.Call).Referrers() {
					if ex, ok := ref.(*ssa.Extract); ok {
						if ex.Index == 0 {
							rv = ex
						} else {
							okv = ex
						}
					}
				}
				if okv != nil {
					if k, v := boolFactThroughCells(s, okv); k {
						if v {
							req = rv
						} else {
							closed = true
						}
					}
				}
			}
		}
		for _, rc := range s.Recvs() {
			if chanElemIs(rc.Chan.Type(), reqT) && rc.Ok != nil {
				if k, v := s.BoolFact(rc.Ok); k {
					if v {
						req = rc.Val
					} else {
						closed = true
					}
				}
			}
		}
		gens := s.CallsWhere(func(c *ssa.CallCommon) bool { return IsCallTo(c, fnGenReq) })
		emits := s.Emits()
		if req != nil {
			blocking = true // a value was received: the producer paces this cycle
		}
		if s.End == L && !blocking {
			r.Viol("C19.R1", key, pos, "every cycle of the live loop contains a blocking operation (no busy loop)", "a cycle without any blocking operation", path...)
			continue
		}
		switch {
		case req != nil:
			ok := len(emits) == 1 && sameThroughCells(s, emits[0].Val, req) && !emits[0].Raw && !emits[0].Lossy && len(gens) == 0 && s.End == L
			r.Check(ok, "C19.R1", key, pos, "a request of the current pass is forwarded exactly once and the loop continues", fmt.Sprintf("forwards=%d regenerations=%d", len(emits), len(gens)), path...)
		case closed || len(gens) > 0 || selectDoneChosen(s):
			if selectDoneChosen(s) && len(gens) == 0 {
				r.Check(s.Returns() && len(emits) == 0, "C19.R1", key, pos, "cancellation ends the stream (return; output closed by defer)", "Done chosen but the loop continues or emits", path...)
				continue
			}
			if len(gens) == 0 {
				// pass ended, nothing regenerated on this path: must lead to exit only via Done
				r.Check(s.Returns() == false || selectDoneChosen(s), "C19.R1", key, pos, "passes keep coming until cancellation", "the loop ends without cancellation", path...)
				continue
			}
			if len(gens) == 1 && s.Returns() {
				// ending live mode cleanly because the new pass failed to start is allowed by the statement
				var gerr ssa.Value
				for _, ref := range *gens[0].Instr.(*ssa.Call).Referrers() {
					if ex, ok := ref.(*ssa.Extract); ok && ex.Index == 1 {
						gerr = ex
					}
				}
				failed := false
				if gerr != nil {
					if k, isNil := s.NilFact(gerr); k && !isNil {
						failed = true
					}
				}
				r.Check(failed, "C19.R1", key, pos, "the loop ends only on cancellation (or cleanly when a pass fails to start)", "live mode ends after a successfully started pass", path...)
				continue
			}
			if len(gens) != 1 || s.End != L {
				r.Viol("C19.R1", key, pos, "after a pass exactly one new pass is generated and the loop continues", fmt.Sprintf("%d regenerations", len(gens)), path...)
				continue
			}
			gen := gens[0]
			// a fresh timer created on this path before the regeneration, with the configured interval, and awaited
			var timerCall *ssa.Call
			waited := false
			for _, rc := range s.Recvs() {
				if rc.Ev.Ord > gen.Ord {
					continue
				}
				if c, ok := s.Resolve(rc.Chan).(*ssa.Call); ok && calleeFull(&c.Call) == "time.After" && s.Has(c) {
					timerCall, waited = c, true
				}
				// timer := time.NewTimer(d) created on this path; <-timer.C
				if b, f, isF := fieldLoad(s.Resolve(rc.Chan)); isF && f == "C" {
					if c, ok := s.Resolve(b).(*ssa.Call); ok && calleeFull(&c.Call) == "time.NewTimer" && s.Has(c) {
						timerCall, waited = c, true
					}
				}
			}
			for _, e := range s.Events {
				if e.Kind == EvCall && calleeFull(e.Call) == "time.Sleep" && e.Ord < gen.Ord {
					timerCall, waited = e.Instr.(*ssa.Call), true
				}
			}
			if !waited {
				r.Viol("C19.R1", key, pos, "the next pass starts only after a timer created when the previous pass ended has fired", "regeneration without a fresh wait on this path (a shared ticker or no wait lets the next pass start early)", path...)
				continue
			}
			_, f, isF := fieldLoad(throughOnceAssigned(p, s.Resolve(timerCall.Call.Args[0])))
			if !isF || f != "rescanTimeout" {
				r.Viol("C19.R1", key, pos, "the wait is the configured rescan interval", "timer duration is "+s.Term(timerCall.Call.Args[0]), path...)
				continue
			}
			sameRange := len(gen.Call.Args) == 2 && originIs(p, gen.Call.Args[1], rangeParam)
			dl, _, isDel := fieldLoad(throughOnceAssigned(p, s.Resolve(gen.Call.Value)))
			r.Check(sameRange && isDel && dl != nil, "C19.R1", key, pos, "the new pass is generated by the same delegate over the same range", "regeneration uses another range or generator", path...)
		default:
			r.Viol("C19.R1", key, pos, "every path of the live loop is a forward, a cancellation exit, or wait+regenerate", "unclassified path", path...)
		}
	}
	// output closed by defer
	dc := deferredCloses(g)
	r.Check(len(dc) == 1, "C19.R1", FuncName(g)+"/close", pos, "the live stream is closed exactly once, by defer", fmt.Sprintf("%d deferred closes", len(dc)))
}

func containsBlockingSelect(f *ssa.Function) bool {
	for _, b := range f.Blocks {
		for _, in := range b.Instrs {
			if s, ok := in.(*ssa.Select); ok && s.Blocking {
				return true
			}
		}
	}
	return false
}

func originIs(p *Prog, v ssa.Value, want ssa.Value) bool {
	for _, o := range p.Origins(v) {
		if o == want {
			return true
		}
	}
	return false
}

func checkLiveWiring(p *Prog, r *Report, live *ssa.Function) {
	tn := recvTypeName(live)
	ctors := p.ctorsOfType(tn, live.Pkg)
	if len(ctors) != 1 {
		r.Undecided("C19.R3", "live constructor", "-", "one constructor of the live generator", fmt.Sprint(len(ctors)))
		return
	}
	ctor := ctors[0]
	sites := p.CallSites(ctor)
	if len(sites) == 0 {
		r.Viol("C19.R3", "live wiring", "-", "some command wires the live generator", "NewLiveRequestGenerator is never called")
		return
	}
	// the functions that hand a generator to NewPacketSource and, in their own body or in a small
	// builder helper expanded in place, construct the live generator
	var sinkFns []*ssa.Function
	for _, fn := range p.SrcFuncs() {
		if len(callInstrs(fn, modPath+"/pkg/scan.NewPacketSource")) == 0 {
			continue
		}
		hit := false
		for _, s := range PathsInl(fn).Segs {
			for _, e := range s.Events {
				if e.Kind == EvCall && StaticCallee(e.Call) == ctor {
					hit = true
				}
			}
		}
		if hit {
			sinkFns = append(sinkFns, fn)
		}
	}
	if len(sinkFns) == 0 {
		r.Undecided("C19.R3", "live wiring", "-", "the live generator is constructed in (or in a helper of) a function that builds the packet source", "no such function")
		return
	}
	for _, fn := range sinkFns {
		name := FuncName(fn)
		pos := p.Pos(fn.Pos())
		sink := callInstrs(fn, modPath+"/pkg/scan.NewPacketSource")[0]
		k := 0
		for _, s := range PathsInl(fn).Segs {
			if !s.Has(sink) {
				continue
			}
			k++
			key := fmt.Sprintf("%s/wiring-path#%d", name, k)
			liveOn, liveKnown := false, false
			exclOn, exclKnown := false, false
			for _, f := range s.Facts {
				if bo, ok := f.Cond.(*ssa.BinOp); ok {
					if _, fld, isF := fieldLoad(s.Resolve(bo.X)); isF {
						switch fld {
						case "liveTimeout":
							v1, ok1 := EvalCond(s, bo, func(x ssa.Value) (int64, bool) {
								if _, ff, isF := fieldLoad(s.Resolve(x)); isF && ff == "liveTimeout" {
									return 1, true
								}
								return 0, false
							})
							v0, ok0 := EvalCond(s, bo, func(x ssa.Value) (int64, bool) {
								if _, ff, isF := fieldLoad(s.Resolve(x)); isF && ff == "liveTimeout" {
									return 0, true
								}
								return 0, false
							})
							if ok1 && ok0 && v1 != v0 {
								liveKnown, liveOn = true, v1 == f.Truth
							}
						case "excludeIPs":
							if kk, isNil := s.NilFact(bo.X); kk {
								exclKnown, exclOn = true, !isNil
							}
						}
					}
				}
			}
			chain := ctorChain(s, sink.Call.Args[0])
			names := chainNames(chain)
			hasLive, hasFilter, liveOuter := false, false, false
			for i, l := range chain {
				if l.Ctor == ctor {
					hasLive = true
					liveOuter = i == 0
				}
				if strings.Contains(l.Name, "Filter") {
					hasFilter = true
				}
			}
			if !liveKnown {
				r.Viol("C19.R3", key, pos, "whether the live wrapper is installed depends on the --live option on every wiring path", "this path builds the chain "+names+" without consulting liveTimeout: --live is ignored (or forced) for this option combination", s.Describe(p)...)
				continue
			}
			ok := hasLive == liveOn && (!hasLive || liveOuter)
			detail := fmt.Sprintf("live=%v exclude=%v chain=%s", liveOn, exclOn, names)
			if exclKnown && hasFilter != exclOn {
				ok = false
			}
			if ok && hasLive {
				// interval argument is the option
				arg := chain[0].Call.Call.Args[len(chain[0].Call.Call.Args)-1]
				if _, f, isF := fieldLoad(s.Resolve(arg)); !isF || f != "liveTimeout" {
					ok = false
					detail += "; interval is not the --live option"
				}
			}
			r.Check(ok, "C19.R3", key, pos, "--live d>0 wraps the (filtered) address generator with the live generator (outermost) and interval d; otherwise no live wrapper", detail, s.Describe(p)...)
		}
		// unique logger iff live
		cmd := p.SPkg("command")
		for _, lf := range p.SrcFuncs() {
			if lf.Pkg != cmd {
				continue
			}
			for _, b := range lf.Blocks {
				for _, in := range b.Instrs {
					c, ok := in.(*ssa.Call)
					if !ok || calleeFull(&c.Call) != modPath+"/command/log.NewUniqueLogger" {
						continue
					}
					okU := true
					n := 0
					for _, s := range PathsInl(lf).Segs {
						if !s.Returns() {
							continue
						}
						var liveOn, known bool
						for _, f := range s.Facts {
							if bo, ok := f.Cond.(*ssa.BinOp); ok {
								if _, fld, isF := fieldLoad(s.Resolve(bo.X)); isF && fld == "liveTimeout" {
									v1, ok1 := EvalCond(s, bo, func(x ssa.Value) (int64, bool) {
										if _, ff, isF := fieldLoad(s.Resolve(x)); isF && ff == "liveTimeout" {
											return 1, true
										}
										return 0, false
									})
									if ok1 {
										known, liveOn = true, v1 == f.Truth
									}
								}
							}
						}
						if !known {
							continue
						}
						n++
						if s.Has(c) != liveOn {
							okU = false
						}
					}
					r.Check(okU && n >= 2, "C19.R3", FuncName(lf)+"/unique-logger", p.Pos(lf.Pos()), "the de-duplicating logger is installed exactly when live mode is on", "unique logger not tied to liveTimeout > 0")
				}
			}
		}
	}
	// the --live flag
	for _, rg := range p.FlagTable() {
		if rg.Name == "live" {
			ok := rg.Field != nil && rg.Field.Name() == "liveTimeout" && rg.Default != nil && constant.Sign(rg.Default) == 0
			r.Check(ok, "C19.R3", "flag-live", p.Pos(rg.Call.Pos()), "--live is bound to the live interval option with default 0 (off)", fmt.Sprint(rg.Default))
		}
	}
}
