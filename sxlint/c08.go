package main

import (
	"fmt"
	"go/token"
	"go/types"
	"sort"
	"strings"

	"golang.org/x/tools/go/ssa"
)

func init() {
	register(&propDef{
		ID: "C08",
		Explanation: "Static conformance of the application-scan engine: every acyclic segment of the probe worker's loop is checked against the per-request contract " +
			"(error request => one guarded error report and no probe; otherwise exactly one Scan; probe error => one report, no result; non-nil result => exactly one Put; the loop never exits on a probe outcome); " +
			"the start closure's WaitGroup protocol (Add before each go, Done deferred first in the worker, Wait before the deferred closes, worker count = configured count); " +
			"the result hand-off (Put is a blocking guarded send, the copier forwards each value once, the logger performs one writer call per received result and returns only on cancel/close).",
		NotDecided:  []string{"that everything detected before completion is printed before exit (race between the exit delay and two buffered hops: timing)", "latency of probes"},
		Assumptions: []string{"Scanner implementations return when their context is cancelled (C09/C10)", "sync.WaitGroup semantics"},
		Run:         runC08,
	})
}

const (
	fnScannerScan = modPath + "/pkg/scan.Scanner.Scan"
	fnResultPut   = modPath + "/pkg/scan.ResultChan.Put"
)

func runC08(p *Prog, r *Report) {
	r.Min("C08.R1", 6)
	r.Min("C08.R2", 6)
	r.Min("C08.R3", 8)
	// R1: the probe worker = function with a loop that calls Scanner.Scan
	var workers []*ssa.Function
	for _, fn := range p.LoopFuncsCalling(func(c *ssa.CallCommon) bool { return IsCallTo(c, fnScannerScan) }) {
		if len(LoopHeaders(fn)) > 0 {
			workers = append(workers, fn)
		}
	}
	if len(workers) == 0 {
		r.Undecided("C08.R1", "probe worker", "-", "a looping function calls Scanner.Scan", "none found")
		return
	}
	for _, w := range workers {
		checkWorker(p, r, w)
		checkEngineStart(p, r, w)
	}
	checkResultChan(p, r)
	checkLogResults(p, r, "C08.R3")
	r.Min("C08.R6", 2)
	checkErrorLogger(p, r, "C08.R6")
	r.Min("C08.R7", 2)
	checkErrorDrain(p, r, "C08.R7")
	// R8: "each probe that detects a service yields exactly one output record" - the application scans print
	// every record they are handed: nothing reachable from a socks / docker / elastic command installs the
	// de-duplicating logger (it drops the second record of a target that was given twice)
	r.Min("C08.R8", 3)
	{
		uniq := p.Func("command/log", "NewUniqueLogger")
		eng := p.Func("pkg/scan", "NewScanEngine")
		for _, fn := range p.SrcFuncs() {
			if fn.Pkg != p.SPkg("command") || !isRunE(fn) || eng == nil {
				continue
			}
			reach := p.staticReach(fn)
			if !reach[eng] {
				continue
			}
			via := ""
			if uniq != nil && reach[uniq] {
				for g := range reach {
					if g != fn && p.staticReach(g)[uniq] && g != uniq && g.Pkg == fn.Pkg {
						if via == "" || len(FuncName(g)) < len(via) {
							via = FuncName(g)
						}
					}
				}
			}
			r.Check(uniq != nil && !reach[uniq], "C08.R8", FuncName(fn)+"/prints-every-record", p.Pos(fn.Pos()), "no de-duplicating logger is reachable from an application-scan command (every detecting probe prints its record)", "NewUniqueLogger is reachable through "+via)
		}
	}
	// R5: results detected before completion are still drained: cancel only after done + exit delay
	r.Min("C08.R5", 2)
	for _, f := range engineCallers(p) {
		if f.Pkg == p.SPkg("command") {
			checkCancelOrder(p, r, f, "C08.R5", "C08.R5")
		}
	}
}

func checkWorker(p *Prog, r *Report, fn *ssa.Function) {
	pos := p.Pos(fn.Pos())
	heads := loopHeadersSorted(fn)
	if len(heads) != 1 {
		r.Undecided("C08.R1", FuncName(fn), pos, "worker is a single loop", fmt.Sprint(len(heads)))
		return
	}
	L := heads[0]
	fp := PathsInl(fn)
	// worker parameters by type
	var errc ssa.Value
	for _, prm := range fn.Params {
		if chanElemIs(prm.Type(), "error") {
			errc = prm
		}
	}
	i := 0
	for _, s := range fp.From(L) {
		if s.IsSelectPanicTail() {
			continue
		}
		i++
		key := segKey(fn, "iteration-path", i)
		path := s.Describe(p)
		scans := s.CallsTo(fnScannerScan)
		puts := s.CallsTo(fnResultPut)
		emits := s.Emits()
		var req ssa.Value
		for _, rc := range s.Recvs() {
			if chanElemIs(rc.Chan.Type(), "*"+modPath+"/pkg/scan.Request") {
				if rc.Ok != nil {
					if k, v := s.BoolFact(rc.Ok); k && v {
						req = rc.Val
					}
				} else {
					req = rc.Val
				}
			}
		}
		for _, em := range emits {
			if em.Raw || em.Lossy {
				r.Viol("C08.R1", key, pos, "error reports are blocking sends guarded by ctx.Done()", "raw or lossy send", path...)
			}
		}
		if req == nil {
			// no request on this path: must be cancel or closed input, no effects, return
			ok := (selectDoneChosen(s) || recvClosed(s)) && s.Returns() && len(scans) == 0 && len(puts) == 0 && len(emits) == 0
			r.Check(ok, "C08.R1", key, pos, "a path without a request is the cancel/closed exit with no effects", "unexpected effects or continuation without a request", path...)
			continue
		}
		known, isNil := fieldNilFact(s, req, "Err")
		if !known {
			r.Viol("C08.R1", key, pos, "the request's error is examined before probing", "path does not test request.Err", path...)
			continue
		}
		if s.End != L {
			r.Viol("C08.R1", key, pos, "the worker keeps serving after any request outcome", "loop left after handling a request (remaining targets are never probed)", path...)
			continue
		}
		if !isNil {
			ok := len(scans) == 0 && len(puts) == 0 && len(emits) == 1 && isFieldOf(s, emits[0].Val, req, "Err") && (errc == nil || p.SameOrigin(emits[0].Chan, errc) || s.Same(emits[0].Chan, errc))
			r.Check(ok, "C08.R1", key, pos, "an error request yields exactly one report of its own error and no probe", fmt.Sprintf("scans=%d puts=%d reports=%d", len(scans), len(puts), len(emits)), path...)
			continue
		}
		if len(scans) != 1 {
			r.Viol("C08.R1", key, pos, "each target is probed exactly once", fmt.Sprintf("%d Scan calls on the path", len(scans)), path...)
			continue
		}
		sc := scans[0]
		if len(sc.Call.Args) != 2 || !s.Same(sc.Call.Args[1], req) {
			r.Viol("C08.R1", key, pos, "the probe receives the request just taken from the channel", "Scan argument is not the received request", path...)
			continue
		}
		var res, serr ssa.Value
		for _, ref := range *sc.Instr.(*ssa.Call).Referrers() {
			if ex, ok := ref.(*ssa.Extract); ok {
				if ex.Index == 0 {
					res = ex
				} else {
					serr = ex
				}
			}
		}
		if serr == nil {
			r.Viol("C08.R1", key, pos, "the probe error is examined", "Scan error discarded", path...)
			continue
		}
		ek, enil := s.NilFact(serr)
		if !ek {
			r.Viol("C08.R1", key, pos, "the probe error is examined", "path does not test the Scan error", path...)
			continue
		}
		if !enil {
			ok := len(puts) == 0 && len(emits) == 1 && s.Same(emits[0].Val, serr)
			r.Check(ok, "C08.R1", key, pos, "a failed probe yields exactly one error report and no result", fmt.Sprintf("puts=%d reports=%d", len(puts), len(emits)), path...)
			continue
		}
		rk, rnil := false, false
		if res != nil {
			rk, rnil = s.NilFact(res)
		}
		switch {
		case !rk:
			r.Check(len(puts) == 0 && len(emits) == 0, "C08.R1", key, pos, "a result is handed over only after a non-nil test (negative probes return a nil result)", fmt.Sprintf("puts=%d without a nil test of the result: a negative probe would be reported / crash the logger", len(puts)), path...)
		case rnil:
			r.Check(len(puts) == 0 && len(emits) == 0, "C08.R1", key, pos, "a negative probe reports nothing", fmt.Sprintf("puts=%d reports=%d", len(puts), len(emits)), path...)
		default:
			r.Check(len(puts) == 1 && len(emits) == 0 && s.Same(puts[0].Call.Args[0], res) && puts[0].Ord > sc.Ord, "C08.R1", key, pos, "a detected service yields exactly one Put of that probe's result", fmt.Sprintf("puts=%d reports=%d", len(puts), len(emits)), path...)
		}
	}
	// Done deferred first
	ds := Deferred(fn)
	okDone := false
	if len(ds) > 0 {
		if m, _ := waitGroupCall(&ds[0].Call); m == "Done" && ds[0].Block() == fn.Blocks[0] {
			okDone = true
		}
	}
	r.Check(okDone, "C08.R2", FuncName(fn)+"/done-deferred", pos, "the worker defers wg.Done() before anything else", "first deferred call is not WaitGroup.Done in the entry block")
}

// checkEngineStart: the function that spawns the worker.
func checkEngineStart(p *Prog, r *Report, worker *ssa.Function) {
	var spawner *ssa.Function
	var goInstr *ssa.Go
	for _, fn := range p.SrcFuncs() {
		for _, b := range fn.Blocks {
			for _, in := range b.Instrs {
				if g, ok := in.(*ssa.Go); ok && StaticCallee(&g.Call) == worker {
					spawner, goInstr = fn, g
				}
			}
		}
	}
	if spawner == nil {
		r.Undecided("C08.R2", FuncName(worker)+"/spawn", "-", "the worker is started with `go`", "no go statement found")
		return
	}
	pos := p.Pos(spawner.Pos())
	name := FuncName(spawner)
	fp := PathsInl(spawner)
	// which WaitGroup is passed to the worker
	var wgArg ssa.Value
	for _, a := range goInstr.Call.Args {
		if pt, ok := a.Type().(*types.Pointer); ok {
			if n, ok := pt.Elem().(*types.Named); ok && n.Obj().Name() == "WaitGroup" {
				wgArg = a
			}
		}
	}
	if wgArg == nil {
		r.Viol("C08.R2", name+"/waitgroup", pos, "workers are joined through a WaitGroup", "no *sync.WaitGroup passed to the worker")
		return
	}
	// every path containing the go has Add on the same WaitGroup before it (same segment)
	addOK, waitOK := true, true
	nGoSegs, nRet := 0, 0
	for _, s := range fp.Segs {
		for _, e := range s.Events {
			if e.Kind == EvGo && e.Instr == goInstr {
				nGoSegs++
				found := false
				for _, e2 := range s.Events {
					if e2.Kind == EvCall && e2.Ord < e.Ord {
						if m, recv := waitGroupCall(e2.Call); m == "Add" && recv == wgArg {
							if k, ok := constInt(e2.Call.Args[1]); ok && k == 1 {
								found = true
							}
						}
					}
				}
				if !found {
					addOK = false
				}
			}
		}
		if s.Returns() {
			nRet++
			w := false
			for _, e := range s.Events {
				if e.Kind == EvCall {
					if m, recv := waitGroupCall(e.Call); m == "Wait" && recv == wgArg {
						w = true
					}
				}
				// a close before Wait on a return path
				if e.Kind == EvClose && !w {
					waitOK = false
				}
			}
			if !w {
				waitOK = false
			}
		}
	}
	r.Check(addOK && nGoSegs > 0, "C08.R2", name+"/add-before-go", pos, "wg.Add(1) precedes each `go worker` on the same path", "a worker is started without a preceding Add(1)")
	r.Check(waitOK && nRet > 0, "C08.R2", name+"/wait-before-close", pos, "every exit of the closer passes through wg.Wait() (completion only after all workers finished)", "an exit path lacks wg.Wait(), or closes before it")
	// completion channels closed by defer in the closer, exactly the two channels Start returns
	parent := spawner
	if spawner.Parent() != nil {
		parent = spawner.Parent()
	} else {
		// the closer may be a named function started with `go` by the engine's Start
		var starters []*ssa.Function
		for _, fn := range p.SrcFuncs() {
			for _, b := range fn.Blocks {
				for _, in := range b.Instrs {
					if g, ok := in.(*ssa.Go); ok && StaticCallee(&g.Call) == spawner {
						starters = append(starters, fn)
					}
				}
			}
		}
		if len(starters) == 1 {
			parent = starters[0]
			if parent.Parent() != nil {
				parent = parent.Parent()
			}
		}
	}
	var rets []ssa.Value
	for _, b := range parent.Blocks {
		for _, in := range b.Instrs {
			if ret, ok := in.(*ssa.Return); ok {
				rets = append(rets, ret.Results...)
			}
		}
	}
	dc := deferredCloses(spawner)
	closedAll := len(rets) > 0
	for _, rv := range rets {
		hit := false
		for _, c := range dc {
			if p.SameOrigin(c, rv) {
				hit = true
			}
			for _, oa := range p.OriginsIP(c) {
				for _, ob := range p.OriginsIP(rv) {
					if oa == ob {
						hit = true
					}
				}
			}
		}
		// the early-error return path closes inline; those are the same channels
		if !hit {
			closedAll = false
		}
	}
	r.Check(closedAll && len(dc) == 2, "C08.R2", name+"/deferred-closes", pos, "done and errc are closed by defer in the closer (after Wait)", fmt.Sprintf("deferred closes=%d", len(dc)))
	// trip count of the spawn loop equals the configured worker count
	tripOK, tripDetail := spawnLoopCount(p, spawner, goInstr)
	r.Check(tripOK, "C08.R2", name+"/worker-count", pos, "the spawn loop starts exactly workerCount workers", tripDetail)
	// worker count provenance: field set by an option from the CLI
	// early-error path of the parent (Start)
	if parent != spawner {
		pp := PathsInl(parent)
		okEarly, seen := true, false
		for _, s := range pp.Segs {
			hasGo := false
			for _, e := range s.Events {
				if e.Kind == EvGo {
					hasGo = true
				}
			}
			if hasGo || !s.Returns() {
				continue
			}
			seen = true
			sends, closes := 0, 0
			for _, e := range s.Events {
				if e.Kind == EvSend {
					sends++
					if mc := p.MakeChans(s.Resolve(e.Chan)); len(mc) != 1 {
						okEarly = false
					} else if k, ok := constInt(mc[0].Size); !ok || k < 1 {
						okEarly = false
					}
				}
				if e.Kind == EvClose {
					closes++
				}
			}
			if sends != 1 || closes != 2 {
				okEarly = false
			}
		}
		r.Check(okEarly && seen, "C08.R2", FuncName(parent)+"/generator-error", p.Pos(parent.Pos()), "a request-generator failure yields one buffered error and closes both channels", "early-error path does not send one error on a buffered channel and close both channels")
	}
}

// spawnLoopCount checks `for i := a; i <=/< n; i++` runs n times.
func spawnLoopCount(p *Prog, fn *ssa.Function, g *ssa.Go) (bool, string) {
	hs := LoopHeaders(fn)
	for h := range hs {
		if !loopBlocks(h)[g.Block()] {
			continue
		}
		// find the loop condition
		var cond *ssa.BinOp
		for b := range loopBlocks(h) {
			if iff, ok := b.Instrs[len(b.Instrs)-1].(*ssa.If); ok {
				if bo, ok := iff.Cond.(*ssa.BinOp); ok {
					if _, isPhi := bo.X.(*ssa.Phi); isPhi {
						cond = bo
					}
				}
			}
		}
		if cond == nil {
			return false, "loop condition not recognised"
		}
		phi := cond.X.(*ssa.Phi)
		var init int64 = -99
		stepOK := false
		for _, e := range phi.Edges {
			if k, ok := constInt(e); ok {
				init = k
			} else if bo, ok := e.(*ssa.BinOp); ok && bo.Op == token.ADD && bo.X == ssa.Value(phi) {
				if k, ok := constInt(bo.Y); ok && k == 1 {
					stepOK = true
				}
			}
		}
		_, f, isField := fieldLoad(cond.Y)
		if !isField {
			return false, "loop bound is not the engine's worker-count field"
		}
		switch {
		case !stepOK:
			return false, "loop step is not +1"
		case cond.Op == token.LEQ && init == 1, cond.Op == token.LSS && init == 0:
			return true, "bound field " + f
		default:
			return false, fmt.Sprintf("loop from %d with %s runs a different number of times than the worker count", init, cond.Op)
		}
	}
	return false, "go statement not inside a counting loop"
}

// checkResultChan: Put is a blocking guarded send; the copier forwards each value once.
func checkResultChan(p *Prog, r *Report) {
	for _, put := range p.Implementers(modPath+"/pkg/scan", "ResultChan", "Put") {
		name := FuncName(put)
		pos := p.Pos(put.Pos())
		gs := false
		fp := PathsInl(put)
		okAll := len(fp.Headers) == 0
		sent := 0
		for _, s := range fp.Segs {
			if s.IsSelectPanicTail() {
				continue
			}
			for _, em := range s.Emits() {
				if em.Raw || em.Lossy {
					okAll = false
				}
				if em.Val == ssa.Value(put.Params[1]) {
					sent++
				}
			}
			if !s.Returns() {
				okAll = false
			}
		}
		gs = okAll && sent == 1
		r.Check(gs, "C08.R3", name, pos, "Put is one blocking send of its argument guarded by the constructor's ctx (no drop while the scan runs)", fmt.Sprintf("paths sending=%d", sent))
	}
	// the copier: goroutine in the constructor of the ResultChan implementation
	for _, ctor := range p.SrcFuncs() {
		if ctor.Parent() != nil || ctor.Pkg != p.SPkg("pkg/scan") || ctor.Signature.Results().Len() != 1 {
			continue
		}
		if types.TypeString(ctor.Signature.Results().At(0).Type(), nil) != modPath+"/pkg/scan.ResultChan" {
			continue
		}
		for _, g := range GoClosures(ctor) {
			heads := loopHeadersSorted(g)
			if len(heads) != 1 {
				r.Undecided("C08.R3", FuncName(g), p.Pos(g.Pos()), "copier is one loop", fmt.Sprint(len(heads)))
				continue
			}
			fp := PathsInl(g)
			i := 0
			for _, s := range fp.From(heads[0]) {
				if s.IsSelectPanicTail() {
					continue
				}
				i++
				key := segKey(g, "iteration-path", i)
				rcv := s.Recvs()
				var vals []ssa.Value
				for _, rc := range rcv {
					if !isCtxDone(rc.Chan) {
						vals = append(vals, rc.Val)
					}
				}
				em := s.Emits()
				ok := true
				detail := ""
				for _, e := range em {
					if e.Raw || e.Lossy {
						ok, detail = false, "raw or lossy forward"
					}
				}
				switch {
				case len(vals) == 0:
					if !(s.Returns() && len(em) == 0) {
						ok, detail = false, "path without a received value has effects or continues"
					}
				case len(vals) == 1 && len(em) == 1:
					if !s.Same(em[0].Val, vals[0]) || s.End != heads[0] {
						ok, detail = false, "forwarded value is not the received one, or loop left after forwarding"
					}
				case len(vals) == 1 && len(em) == 0:
					if !(selectDoneChosen(s) && s.Returns()) {
						ok, detail = false, "received value dropped"
					}
				default:
					ok, detail = false, fmt.Sprintf("%d receives, %d sends", len(vals), len(em))
				}
				r.Check(ok, "C08.R3", key, p.Pos(g.Pos()), "the copier forwards each received result exactly once, in order", detail, s.Describe(p)...)
			}
		}
	}
}

// checkLogResults: every Logger.LogResults implementation with a loop performs exactly one
// writer call per received result and returns only on cancel or closed input.
func checkLogResults(p *Prog, r *Report, rule string) {
	const fnWrite = modPath + "/command/log.ResultWriter.Write"
	for _, fn := range p.Implementers(modPath+"/command/log", "Logger", "LogResults") {
		heads := loopHeadersSorted(fn)
		if len(heads) == 0 {
			continue // decorators (unique logger) delegate; their stage is checked in C14
		}
		if len(heads) != 1 {
			r.Undecided(rule, FuncName(fn), p.Pos(fn.Pos()), "logger is one loop", fmt.Sprint(len(heads)))
			continue
		}
		L := heads[0]
		fp := PathsInl(fn)
		i := 0
		for _, s := range fp.From(L) {
			if s.IsSelectPanicTail() {
				continue
			}
			i++
			key := segKey(fn, "iteration-path", i)
			writes := s.CallsTo(fnWrite)
			var got ssa.Value
			closed := false
			for _, rc := range s.Recvs() {
				if chanElemIs(rc.Chan.Type(), modPath+"/pkg/scan.Result") {
					if rc.Ok != nil {
						if k, v := s.BoolFact(rc.Ok); k && !v {
							closed = true
							continue
						}
					}
					got = rc.Val
				}
			}
			ok, detail := true, ""
			switch {
			case got != nil:
				if len(writes) != 1 || !s.Same(writes[0].Call.Args[len(writes[0].Call.Args)-1], got) {
					ok, detail = false, fmt.Sprintf("%d writer calls for one received result (or not that result)", len(writes))
				} else if s.End != L {
					ok, detail = false, "logger stops after a result"
				} else if _, _, isF := fieldLoad(throughOnceAssigned(p, s.Resolve(writes[0].Call.Args[0]))); !isF {
					ok, detail = false, "the record is written to "+s.Term(writes[0].Call.Args[0])+" instead of the logger's own output: an intermediate buffered writer keeps its first write error and silently drops every later record"
				}
			case closed || selectDoneChosen(s):
				if len(writes) != 0 || !s.Returns() {
					ok, detail = false, "exit path writes or does not return"
				}
			default:
				// timer / flush path
				if len(writes) != 0 || s.End != L {
					ok, detail = false, "a path without a result writes a record or leaves the loop"
				}
			}
			r.Check(ok, rule, key, p.Pos(fn.Pos()), "one writer call per received result, to the logger's own output; the logger returns only on cancel or closed input", detail, s.Describe(p)...)
		}
	}
	// result writers carry no state from one record to the next (an encoder or buffer kept in the writer
	// remembers a transient write error and suppresses every following record)
	for _, fn := range p.Implementers(modPath+"/command/log", "ResultWriter", "Write") {
		if fn.Blocks == nil || fn.Synthetic != "" {
			continue
		}
		var ws []string
		if len(fn.Params) > 0 {
			for g := range p.staticReach(fn) {
				for _, b := range g.Blocks {
					for _, in := range b.Instrs {
						if st, ok := in.(*ssa.Store); ok && g == fn && derivesFromParam(st.Addr, fn.Params[0], 0) {
							ws = append(ws, "store to "+(*Seg)(nil).term(st.Addr, 0)+" at "+p.Pos(st.Pos()))
						}
					}
				}
			}
		}
		r.Check(len(ws) == 0, rule, FuncName(fn)+"/stateless", p.Pos(fn.Pos()), "a result writer keeps no state between records (no store through its receiver)", strings.Join(ws, "; "))
	}
}

// checkErrorLogger: every error handed to Logger.Error becomes a record. The zap logger behind it must not
// sample: zap's production preset keeps the first 100 entries per second with the same level and message
// and then every 100th - all error records of a scan share their message (the scan label), so a scan with
// many failing targets would lose 99 of 100 error records.
func checkErrorLogger(p *Prog, r *Report, rule string) {
	sampling := map[string]bool{
		"go.uber.org/zap.NewProduction": true, "go.uber.org/zap.NewExample": false,
		"go.uber.org/zap/zapcore.NewSampler": true, "go.uber.org/zap/zapcore.NewSamplerWithOptions": true,
		"go.uber.org/zap.WrapCore": false,
	}
	var uses []string
	nBuild := 0
	for _, fn := range p.SrcFuncs() {
		for _, b := range fn.Blocks {
			for _, in := range b.Instrs {
				c, ok := in.(*ssa.Call)
				if !ok {
					continue
				}
				cf := calleeFull(&c.Call)
				if sampling[cf] {
					uses = append(uses, cf+" in "+FuncName(fn)+" at "+p.Pos(c.Pos()))
				}
				if cf != "(go.uber.org/zap.Config).Build" {
					continue
				}
				nBuild++
				// the configuration built here has Sampling == nil on every path
				ok2, why := true, ""
				for _, s := range Paths(fn).Segs {
					if !s.Has(c) {
						continue
					}
					cfg := c.Call.Args[0]
					var cell ssa.Value
					if u, isU := cfg.(*ssa.UnOp); isU {
						cell = u.X
					}
					if cell == nil {
						ok2, why = false, "the configuration is not a local variable"
						continue
					}
					cleared, preset := false, false
					for _, e := range s.Events {
						if e.Ord > s.ord[c] {
							break
						}
						if e.Kind == EvStore {
							if e.Addr == cell {
								// whole-struct store: where does it come from?
								if pc, isC := s.Resolve(e.Val).(*ssa.Call); isC && (calleeFull(&pc.Call) == "go.uber.org/zap.NewProductionConfig") {
									preset, cleared = true, false
								} else if pc, isC := s.Resolve(e.Val).(*ssa.Call); isC && calleeFull(&pc.Call) == "go.uber.org/zap.NewDevelopmentConfig" {
									preset, cleared = false, true
								} else {
									preset, cleared = true, false
								}
							}
							if fa, isFA := e.Addr.(*ssa.FieldAddr); isFA && fa.X == cell && fieldName(fa.X.Type(), fa.Field) == "Sampling" {
								cleared = isNilConst(e.Val)
							}
						}
					}
					if preset && !cleared {
						ok2, why = false, "the logger is built from a configuration whose Sampling is not cleared (production preset: 100 per second, then every 100th entry with the same message)"
					}
				}
				r.Check(ok2, rule, FuncName(fn)+"/config-without-sampling", p.Pos(c.Pos()), "the error logger is built from a zap configuration with Sampling == nil", why)
			}
		}
	}
	sort.Strings(uses)
	r.Check(len(uses) == 0, rule, "no-sampling-logger", "-", "no sampling zap logger is constructed (every error handed to Logger.Error becomes a record)", strings.Join(uses, "; "))
	if nBuild == 0 && len(uses) == 0 {
		r.Undecided(rule, "error logger construction", "-", "the zap logger is built through (zap.Config).Build", "no construction site found")
	}
}

// checkErrorDrain (R7): every error the engine reports is logged. In the engine caller, the goroutine that
// reads the engine's error channel logs each received error exactly once and leaves its loop only when the
// channel is closed - not on cancellation, which happens while errors may still sit in the channel's buffer.
func checkErrorDrain(p *Prog, r *Report, rule string) {
	const fnLogErr = modPath + "/command/log.Logger.Error"
	n := 0
	for _, fn := range engineCallers(p) {
		if fn.Pkg != p.SPkg("command") {
			continue
		}
		var errc ssa.Value
		for _, b := range fn.Blocks {
			for _, in := range b.Instrs {
				if c, ok := in.(*ssa.Call); ok && IsCallTo(&c.Call, fnEngineStart) {
					errc = extractOf(c, 1)
				}
			}
		}
		if errc == nil {
			r.Undecided(rule, FuncName(fn), p.Pos(fn.Pos()), "the engine's error channel is bound in the caller", "not found")
			continue
		}
		isErrc := func(v ssa.Value) bool {
			for _, o := range p.OriginsIP(v) {
				if o == errc {
					return true
				}
			}
			return false
		}
		found := false
		cands := append([]*ssa.Function{}, fn.AnonFuncs...)
		// the loop may live in a helper the goroutine calls with the channel
		for _, g := range fn.AnonFuncs {
			for _, b := range g.Blocks {
				for _, in := range b.Instrs {
					if c, isC := in.(*ssa.Call); isC {
						if h := StaticCallee(&c.Call); h != nil && h.Pkg == fn.Pkg && h.Parent() == nil && len(LoopHeaders(h)) > 0 {
							cands = append(cands, h)
						}
					}
				}
			}
		}
		for _, g := range cands {
			heads := loopHeadersSorted(g)
			reads := false
			gp := PathsInl(g)
			for _, s := range gp.Segs {
				for _, rc := range s.Recvs() {
					if isErrc(rc.Chan) || isErrc(s.Resolve(rc.Chan)) {
						reads = true
					}
				}
			}
			if !reads {
				continue
			}
			found = true
			n++
			name := FuncName(g)
			pos := p.Pos(g.Pos())
			if len(heads) != 1 {
				r.Undecided(rule, name, pos, "the error drain is one loop", fmt.Sprint(len(heads)))
				continue
			}
			ok, why := true, ""
			logged := false
			for _, s := range gp.From(heads[0]) {
				if s.IsSelectPanicTail() {
					continue
				}
				var got ssa.Value
				closed := false
				for _, rc := range s.Recvs() {
					if !isErrc(rc.Chan) && !isErrc(s.Resolve(rc.Chan)) {
						continue
					}
					if rc.Ok != nil {
						if k, v := s.BoolFact(rc.Ok); k && !v {
							closed = true
							continue
						}
					}
					got = rc.Val
				}
				logs := s.CallsTo(fnLogErr)
				switch {
				case got != nil:
					if len(logs) != 1 || !s.Same(logs[0].Call.Args[0], got) {
						ok, why = false, fmt.Sprintf("a received error is logged %d times (or another value is logged)", len(logs))
					} else if s.End != heads[0] {
						ok, why = false, "the drain stops after an error"
					} else {
						logged = true
					}
				case closed:
					if !s.Returns() {
						ok, why = false, "the drain does not end when the channel is closed"
					}
				default:
					if s.Returns() || s.End == nil {
						ok, why = false, "the drain leaves its loop although the error channel is not closed (errors still buffered are never logged): "+strings.Join(s.Describe(p), " / ")
					}
				}
			}
			r.Check(ok && logged, rule, name, pos, "the error drain logs every received error once and ends only when the engine closes its error channel", why)
		}
		r.Check(found, rule, FuncName(fn)+"/has-drain", p.Pos(fn.Pos()), "a goroutine of the engine caller drains the engine's error channel", "no reader of the error channel")
	}
	if n == 0 {
		r.Viol(rule, "error drain", "-", "the engine caller has an error drain", "not found")
	}
}
