package main

import (
	"fmt"
	"go/constant"
	"go/token"
	"go/types"
	"sort"
	"strings"

	"golang.org/x/tools/go/ssa"
)

func init() {
	register(&propDef{
		ID: "C18",
		Explanation: "Static conformance of the option parsers (every package-level function reachable from a parseRawOptions method, plus scan.validatePorts and ip.ParseIPNet): (R1) crash-freedom obligations — every index, slice, string-index and pointer dereference of a fallible call's result is discharged on every path by a folded len()-guard, the strings.Split / strings.Index / range idioms, or the callee's `nil error => non-nil result` contract; " +
			"(R2) every strconv.ParseUint/ParseInt uses base 10 and a bitSize not wider than the type the value is converted to, signed results are refused when negative on every success path, and start>end port ranges are refused before any generator goroutine starts; (R3) a strings.Split result that is indexed by constants has its length bounded from above on every success path (no trailing garbage); " +
			"(R4) the IP-flag switch lower-cases its input, ORs exactly the gopacket constant of each RFC name (df, mf, evil) and fails on anything else; the TCP-flag parser lower-cases, accepts exactly the keys of the option table and returns the lowered key; the option table maps each of the nine RFC 793/3168/3540 names to the option that sets the same-named filler field to true, and Fill copies each filler flag field to the same-named layers.TCP field; " +
			"(R5) list-file parsers consult scanner.Err() on every success path and never continue past a failing line; (R6) the payload is strconv.Unquote of the quoted input, converted byte for byte, errors propagated; (R7) the rate-window default prefix '1' is added only when the window cannot begin a number (folded over all 256 first bytes).",
		NotDecided:  []string{"exactness over all strings beyond these structural conditions (the grammars of strconv and time.ParseDuration are trusted)", "round-trip of every canonical rendering"},
		Assumptions: []string{"strings.Split(s, sep) with non-empty sep returns at least one element", "strings.Index returns -1 or a valid offset", "strconv.ParseUint/ParseInt(s, base, bitSize) return values within bitSize bits", "strconv.Unquote implements Go string literal unescaping", "package-level sentinel error variables are non-nil"},
		Run:         runC18,
	})
}

// parserSet: package-level functions reachable from the parseRawOptions methods, plus validators
// of []*scan.PortRange and every pkg/ip function returning (*net.IPNet, error).
func parserSet(p *Prog) []*ssa.Function {
	roots := p.methodsByName("command", "parseRawOptions")
	reach := p.staticReach(roots...)
	set := map[*ssa.Function]bool{}
	for f := range reach {
		isRoot := false
		for _, r := range roots {
			if f == r {
				isRoot = true
			}
		}
		if isRoot || f.Signature.Recv() != nil {
			continue
		}
		if f.Parent() != nil {
			continue // closures are analysed with their parents' call sites (open-file lambdas)
		}
		set[f] = true
	}
	for _, fn := range p.SrcFuncs() {
		if fn.Parent() != nil || fn.Signature.Recv() != nil {
			continue
		}
		sig := fn.Signature
		if sig.Params().Len() == 1 && sig.Results().Len() == 1 && isErrorType(sig.Results().At(0).Type()) &&
			strings.Contains(types.TypeString(sig.Params().At(0).Type(), nil), "pkg/scan.PortRange") {
			set[fn] = true
		}
		if fn.Pkg == p.SPkg("pkg/ip") && sig.Results().Len() == 2 && isErrorType(sig.Results().At(1).Type()) &&
			types.TypeString(sig.Results().At(0).Type(), nil) == "*net.IPNet" {
			set[fn] = true
		}
	}
	return sortedFuncs(set)
}

func runC18(p *Prog, r *Report) {
	r.Min("C18.R1", 12)
	r.Min("C18.R2", 6)
	r.Min("C18.R3", 2)
	r.Min("C18.R4", 3+3+9+9)
	r.Min("C18.R5", 4)
	r.Min("C18.R6", 1)
	r.Min("C18.R7", 1)
	set := parserSet(p)
	r.Count("parser_functions", len(set))
	var names []string
	for _, f := range set {
		names = append(names, FuncName(f))
	}
	r.Note("parser set: %s", strings.Join(names, ", "))
	if len(set) < 9 {
		r.Viol("C18.R1", "parser-set", "-", "at least the nine known parser functions are found through parseRawOptions", fmt.Sprintf("found %d: %s", len(set), strings.Join(names, ", ")))
	}
	for _, fn := range set {
		checkIndexObligations(p, r, fn, "C18.R1")
		checkDerefObligations(p, r, fn, "C18.R1")
		checkStrconv(p, r, fn)
		checkSplitUpperBound(p, r, fn)
		checkScannerDiscipline(p, r, fn, "C18.R5")
		checkPayload(p, r, fn, "C18.R6")
		checkWindowPrefix(p, r, fn)
	}
	checkPortOrderRefused(p, r, set)
	checkIPFlagSwitch(p, r, set)
	checkTCPFlagParser(p, r, set)
	checkTCPFlagTable(p, r, "C18.R4")
	// the value a parser returned is the value the scan uses: a parsed IP-flag set or payload is handed
	// to the packet filler on every path (C05.R3 always-applied clause re-evaluated; a parsed value that
	// is then dropped for some inputs is not "returned" to the user)
	checkFlagFieldsReadOnly(p, r, "C18.R4", func(fr FlagReg) bool { return true })
	checkParsingSequential(p, r, "C18.R4")
	if checkEveryOptionParsed(p, r, "C18.R4", func(string) bool { return true }) < 12 {
		r.Viol("C18.R4", "every-option-parsed/sites", "-", "the derivations of the parseRawOptions methods are found", "fewer than 12")
	}
	// R8: the exclusion file's lines go through ip.ParseIPNet: it accepts IPv4 hosts and IPv4 CIDR blocks only
	// and returns exactly the denoted network (C02.R1 typestate re-evaluated; an IPv4-mapped IPv6 block
	// accepted as a 128-bit network excludes nothing). And a port list given together with a ports file
	// denotes the union of both (C01.R9 re-evaluated): parsing that drops one of them returns another value
	r.Min("C18.R8", 2+2)
	{
		sub2 := NewReport("C18x", "quick")
		checkIPv4Typestate(p, sub2)
		checkPortSources(p, sub2)
		for _, o := range sub2.Obs {
			if o.Rule == "C02.R1" || o.Rule == "C01.R9" {
				o2 := *o
				o2.Rule = "C18.R8"
				r.Obs = append(r.Obs, &o2)
			}
		}
	}
	sub := NewReport("C18", r.Tier)
	checkCLIChain(p, sub)
	for _, o := range sub.Obs {
		if strings.HasSuffix(o.Construct, "/always-applied") && (strings.Contains(o.Construct, "/flags/") || strings.Contains(o.Construct, "/payload/")) {
			o2 := *o
			o2.Rule = "C18.R4"
			r.Obs = append(r.Obs, &o2)
		}
	}
}

// ---- R1: index / slice obligations ----

func checkIndexObligations(p *Prog, r *Report, fn *ssa.Function, rule string) {
	fp := Paths(fn)
	if fp.Truncated {
		r.Undecided(rule, FuncName(fn), p.Pos(fn.Pos()), "paths enumerable", "too many paths")
		return
	}
	k := 0
	for _, b := range fn.Blocks {
		for _, in := range b.Instrs {
			var base, index ssa.Value
			kind := ""
			switch t := in.(type) {
			case *ssa.IndexAddr:
				if _, isArr := t.X.Type().Underlying().(*types.Pointer); isArr {
					// &array[i] of a local array literal (varargs): constant index within the array type
					if pt, ok := t.X.Type().Underlying().(*types.Pointer).Elem().Underlying().(*types.Array); ok {
						if c, ok := constInt(t.Index); ok && c >= 0 && c < pt.Len() {
							continue
						}
					}
				}
				base, index, kind = t.X, t.Index, "index"
			case *ssa.Index:
				base, index, kind = t.X, t.Index, "index"
			case *ssa.Slice:
				if t.Low == nil && t.High == nil && t.Max == nil {
					continue
				}
				base, kind = t.X, "slice"
			default:
				continue
			}
			k++
			key := fmt.Sprintf("%s/%s#%d", FuncName(fn), kind, k)
			pos := p.Pos(in.Pos())
			text := "the " + kind + " expression cannot panic on any path (bounds established by a guard or a library contract)"
			ok, why := true, ""
			n := 0
			for _, s := range fp.Segs {
				if !s.Has(in) {
					continue
				}
				n++
				var good bool
				var w string
				if sl, isSl := in.(*ssa.Slice); isSl {
					good, w = sliceDischarged(s, sl)
				} else {
					good, w = indexDischarged(s, in, base, index)
				}
				if !good {
					ok, why = false, w
				}
			}
			if n == 0 {
				continue // unreachable block (recover stub)
			}
			r.Check(ok, rule, key, pos, text, why)
		}
	}
}

func indexDischarged(s *Seg, in ssa.Instruction, base, index ssa.Value) (bool, string) {
	x := s.Resolve(base)
	if c, ok := constInt(index); ok {
		if c < 0 {
			return false, "negative constant index"
		}
		min := int64(0)
		if _, isSplit := isStringsSplit(x); isSplit {
			min = 1
		}
		for n := min; n <= c; n++ {
			if lenFactsAllow(s, x, n, in) {
				return false, fmt.Sprintf("no guard excludes len == %d before index %d", n, c)
			}
		}
		return true, ""
	}
	// range idiom: index = phi + 1 with phi starting at -1, and a true fact index < len(base)
	idx := index
	if bo, ok := idx.(*ssa.BinOp); ok && bo.Op == token.ADD {
		if ph, ok := bo.X.(*ssa.Phi); ok {
			if one, ok := constInt(bo.Y); ok && one == 1 {
				startOK := false
				for _, e := range ph.Edges {
					if c, ok := constInt(e); ok {
						if c == -1 {
							startOK = true
						} else {
							return false, "range index does not start at -1"
						}
					} else if e != ssa.Value(bo) {
						return false, "range index is modified inside the loop"
					}
				}
				if startOK {
					for _, f := range s.Facts {
						if c, ok := f.Cond.(*ssa.BinOp); ok && c.Op == token.LSS && f.Truth && c.X == idx && isLenOfVal(s, c.Y, x) {
							return true, ""
						}
					}
				}
			}
		}
	}
	return false, "index is neither a guarded constant nor a range index"
}

func sliceDischarged(s *Seg, sl *ssa.Slice) (bool, string) {
	x := s.Resolve(sl.X)
	if sl.Max != nil {
		return false, "3-index slice"
	}
	check := func(b ssa.Value) (bool, string) {
		if b == nil {
			return true, ""
		}
		if c, ok := constInt(b); ok {
			if c == 0 {
				return true, ""
			}
			for n := int64(0); n < c; n++ {
				if lenFactsAllow(s, x, n, sl) {
					return false, fmt.Sprintf("no guard excludes len == %d before slicing at %d", n, c)
				}
			}
			return true, ""
		}
		// i := strings.Index*(x, ...) with the fact i != -1 / i >= 0
		if c, ok := s.Resolve(b).(*ssa.Call); ok {
			cf := calleeFull(&c.Call)
			if strings.HasPrefix(cf, "strings.Index") || strings.HasPrefix(cf, "strings.LastIndex") || strings.HasPrefix(cf, "bytes.Index") {
				if s.Resolve(c.Call.Args[0]) == x {
					if !valueFactsAllow(s, c, -1, sl) {
						return true, ""
					}
					return false, "offset from " + cf + " used without excluding -1"
				}
				return false, "offset computed on a different string"
			}
		}
		return false, "slice bound is neither a guarded constant nor a checked strings.Index result"
	}
	if ok, w := check(sl.Low); !ok {
		return false, w
	}
	return check(sl.High)
}

// checkDerefObligations: a pointer obtained as result #0 of a repo call returning (ptr, error) is
// dereferenced only on paths where that call's error is known nil, and the callee returns a
// non-nil pointer whenever it returns a nil error.
func checkDerefObligations(p *Prog, r *Report, fn *ssa.Function, rule string) {
	fp := Paths(fn)
	k := 0
	for _, b := range fn.Blocks {
		for _, in := range b.Instrs {
			var ptr ssa.Value
			switch t := in.(type) {
			case *ssa.UnOp:
				if t.Op == token.MUL {
					ptr = t.X
				}
			case *ssa.FieldAddr:
				ptr = t.X
			}
			ex, ok := ptr.(*ssa.Extract)
			if !ok || ex.Index != 0 {
				continue
			}
			call, ok := ex.Tuple.(*ssa.Call)
			if !ok {
				continue
			}
			callee := StaticCallee(&call.Call)
			if callee == nil || errResultIndex(callee) != 1 {
				continue
			}
			if _, isPtr := ex.Type().Underlying().(*types.Pointer); !isPtr {
				continue
			}
			k++
			key := fmt.Sprintf("%s/deref#%d", FuncName(fn), k)
			errEx := extractOf(call, 1)
			ok2, why := true, ""
			for _, s := range fp.Segs {
				if !s.Has(in) {
					continue
				}
				if errEx == nil {
					ok2, why = false, "the call's error result is discarded"
					continue
				}
				if known, isNil := s.NilFact(errEx); !known || !isNil {
					ok2, why = false, "dereference not dominated by err == nil"
				}
			}
			if callee.Blocks != nil && IsRepoPkg(callee.Pkg.Pkg) {
				for _, s := range Paths(callee).Segs {
					if retClass(s) == retOK || retClass(s) == retUnknown {
						rv := s.Resolve(s.Exit.(*ssa.Return).Results[0])
						if isNilConst(rv) {
							ok2, why = false, FuncName(callee)+" returns (nil, nil) on some path"
						} else if known, isNil := s.NilFact(rv); known && isNil {
							ok2, why = false, FuncName(callee)+" returns (nil, nil) on some path"
						}
					}
				}
			}
			r.Check(ok2, rule, key, p.Pos(in.Pos()), "a pointer result of a fallible call is dereferenced only after its error was tested nil, and the callee never returns (nil, nil)", why)
		}
	}
}

// ---- R2: numeric exactness ----

func typeBits(t types.Type) (bits int, signed bool, ok bool) {
	b, isB := t.Underlying().(*types.Basic)
	if !isB {
		return 0, false, false
	}
	switch b.Kind() {
	case types.Uint8:
		return 8, false, true
	case types.Uint16:
		return 16, false, true
	case types.Uint32:
		return 32, false, true
	case types.Uint64:
		return 64, false, true
	case types.Uint:
		return 32, false, true // at least 32 on every supported platform
	case types.Int8:
		return 8, true, true
	case types.Int16:
		return 16, true, true
	case types.Int32:
		return 32, true, true
	case types.Int64:
		return 64, true, true
	case types.Int:
		return 32, true, true
	}
	return 0, false, false
}

func checkStrconv(p *Prog, r *Report, fn *ssa.Function) {
	fp := Paths(fn)
	k := 0
	for _, b := range fn.Blocks {
		for _, in := range b.Instrs {
			c, ok := in.(*ssa.Call)
			if !ok {
				continue
			}
			cf := calleeFull(&c.Call)
			if cf != "strconv.ParseUint" && cf != "strconv.ParseInt" && cf != "strconv.Atoi" {
				continue
			}
			k++
			key := fmt.Sprintf("%s/%s#%d", FuncName(fn), cf[strings.LastIndex(cf, ".")+1:], k)
			pos := p.Pos(c.Pos())
			signedSrc := cf != "strconv.ParseUint"
			bits := int64(64)
			if cf != "strconv.Atoi" {
				base, okb := constInt(c.Call.Args[1])
				r.Check(okb && base == 10, "C18.R2", key+"/base", pos, "numbers are read in base 10 (the decimal number written; base 0 would accept 0x.., 0o.., 0b.. and underscores)", fmt.Sprintf("base argument %v", base))
				bs, okbs := constInt(c.Call.Args[2])
				if !okbs {
					r.Undecided("C18.R2", key+"/bitsize", pos, "bitSize is a constant", "non-constant bitSize")
					continue
				}
				bits = bs
				if bits == 0 {
					bits = 64
				}
			}
			val := extractOf(c, 0)
			if val == nil {
				continue
			}
			// every conversion of the value fits
			okc, why := true, ""
			nconv := 0
			var walk func(v ssa.Value, d int)
			walk = func(v ssa.Value, d int) {
				if d > 4 {
					return
				}
				for _, ref := range *v.Referrers() {
					switch t := ref.(type) {
					case *ssa.Convert:
						nconv++
						tb, tsigned, okT := typeBits(t.Type())
						if !okT {
							continue
						}
						eff := int(bits)
						// an explicit bound before the conversion makes a wider parse exact as well: on no path
						// through the conversion may the value be the first number the target cannot hold
						if tb < 64 {
							limit := int64(1) << uint(tb)
							if tsigned {
								limit = int64(1) << uint(tb-1)
							}
							bounded, through := true, 0
							for _, sg := range fp.Segs {
								if !sg.Has(t) {
									continue
								}
								through++
								if valueFactsAllow(sg, val, limit, t) {
									bounded = false
								}
							}
							if through > 0 && bounded {
								continue
							}
						}
						if signedSrc == tsigned {
							if tb < eff {
								okc, why = false, fmt.Sprintf("value of %d bits converted to %s (%d bits): silently truncated", eff, t.Type(), tb)
							}
						} else if signedSrc && !tsigned {
							if tb < eff-1 {
								okc, why = false, fmt.Sprintf("signed %d-bit value converted to %s", eff, t.Type())
							}
						} else { // unsigned source, signed target
							if tb <= eff {
								okc, why = false, fmt.Sprintf("unsigned %d-bit value converted to %s", eff, t.Type())
							}
						}
					case *ssa.Phi:
						walk(t, d+1)
					}
				}
			}
			walk(val, 0)
			r.Check(okc, "C18.R2", key+"/width", pos, "the parsed number fits the type it is converted to (bitSize <= target width), so every accepted value is the number written", why)
			if signedSrc {
				// negative refused on every success path that passed the call
				okn, whyn := true, ""
				for _, s := range fp.Segs {
					if !s.Has(c) {
						continue
					}
					rc := retClass(s)
					if s.End == nil && rc == retFail {
						continue
					}
					if s.End == nil && !s.Returns() {
						continue
					}
					if valueFactsAllow(s, val, -1, nil) {
						okn, whyn = false, "a path accepts a negative value (no guard excludes -1)"
					}
				}
				r.Check(okn, "C18.R2", key+"/negative", pos, "a negative count is refused on every accepting path", whyn)
			}
		}
	}
}

// checkPortOrderRefused: the []*PortRange validator refuses start > end, and every PortGenerator
// consults it before spawning.
func checkPortOrderRefused(p *Prog, r *Report, set []*ssa.Function) {
	var validators []*ssa.Function
	for _, fn := range set {
		sig := fn.Signature
		if sig.Params().Len() == 1 && strings.Contains(types.TypeString(sig.Params().At(0).Type(), nil), "pkg/scan.PortRange") {
			validators = append(validators, fn)
		}
	}
	if len(validators) == 0 {
		r.Undecided("C18.R2", "port-range validator", "-", "a validator func([]*scan.PortRange) error exists", "not found")
		return
	}
	for _, fn := range validators {
		name := FuncName(fn)
		pos := p.Pos(fn.Pos())
		fp := Paths(fn)
		// fold the loop-body segments over (start,end) in {(2,1),(1,1),(1,2)}
		verdict := func(start, end int64) (string, bool) {
			bind := func(v ssa.Value) (int64, bool) {
				if _, f, ok := fieldLoad(v); ok {
					switch f {
					case "StartPort":
						return start, true
					case "EndPort":
						return end, true
					}
				}
				return 0, false
			}
			res := ""
			for _, s := range fp.Segs {
				if len(fp.Headers) == 0 || !fp.Headers[s.Start] {
					continue
				}
				// must mention a port field to be a body segment
				mentions, feasible := false, true
				for _, f := range s.Facts {
					b, ok := EvalCond(s, f.Cond, bind)
					if !ok {
						continue
					}
					if bo, isB := s.Resolve(f.Cond).(*ssa.BinOp); isB {
						_, f1, o1 := fieldLoad(s.Resolve(stripConv(bo.X)))
						_, f2, o2 := fieldLoad(s.Resolve(stripConv(bo.Y)))
						if (o1 && strings.HasSuffix(f1, "Port")) || (o2 && strings.HasSuffix(f2, "Port")) {
							mentions = true
						}
					}
					if b != f.Truth {
						feasible = false
					}
				}
				if !mentions || !feasible {
					continue
				}
				v := "continue"
				if s.End == nil {
					v = retClass(s).String()
				}
				if res != "" && res != v {
					return "", false
				}
				res = v
			}
			return res, res != ""
		}
		bad, ok1 := verdict(2, 1)
		eq, ok2 := verdict(1, 1)
		lt, ok3 := verdict(1, 2)
		if !ok1 || !ok2 || !ok3 {
			r.Undecided("C18.R2", name+"/start-le-end", pos, "the validator's range test is foldable", "no loop segment comparing StartPort with EndPort")
			continue
		}
		r.Check(bad == "failure" && eq == "continue" && lt == "continue", "C18.R2", name+"/start-le-end", pos, "a range with start > end is refused, start <= end is accepted",
			fmt.Sprintf("start>end: %s, start==end: %s, start<end: %s", bad, eq, lt))
		// callers: before any goroutine is spawned
		for _, g := range p.SrcFuncs() {
			calls := callInstrs(g, fn.String())
			if len(calls) == 0 {
				continue
			}
			okc, why := true, ""
			for _, s := range Paths(g).Segs {
				var goEv *Event
				for _, e := range s.Events {
					if e.Kind == EvGo {
						goEv = e
					}
				}
				if goEv == nil {
					continue
				}
				found := false
				for _, c := range calls {
					if s.Has(c) && s.ord[c] < goEv.Ord {
						if known, isNil := s.NilFact(c); known && isNil {
							found = true
						}
					}
				}
				if !found {
					okc, why = false, "a goroutine is started on a path where the validator's error was not tested nil"
				}
			}
			r.Check(okc, "C18.R2", FuncName(g)+"/validates-before-spawn", p.Pos(g.Pos()), "port ranges are validated (and a failure returned) before the generator goroutine starts", why)
		}
	}
}

// ---- R3: trailing garbage ----

func checkSplitUpperBound(p *Prog, r *Report, fn *ssa.Function) {
	fp := Paths(fn)
	k := 0
	for _, b := range fn.Blocks {
		for _, in := range b.Instrs {
			c, ok := in.(*ssa.Call)
			if !ok {
				continue
			}
			if calleeFull(&c.Call) == "strings.Cut" && (usedValue(extractOf(c, 1)) || usedValue(extractOf(c, 2))) {
				// Cut form: everything behind the first separator is one piece; extra separators are refused when
				// that piece only goes to checks and to parsers that report an error (a number / duration parser
				// rejects the separator), never ignored
				k++
				key := fmt.Sprintf("%s/split#%d", FuncName(fn), k)
				after := extractOf(c, 1)
				okb, why := after != nil, "the part behind the separator is never looked at: extra parts are ignored"
				if after != nil {
					nUse := 0
					for _, ref := range *after.Referrers() {
						switch u := ref.(type) {
						case *ssa.DebugRef:
						case *ssa.Call:
							nUse++
							sig := u.Call.Signature()
							cf := calleeFull(&u.Call)
							checks := cf == "strings.Contains" || cf == "strings.Index" || cf == "strings.IndexByte" || cf == "strings.ContainsRune" || cf == "strings.Count"
							if bi, isB := u.Call.Value.(*ssa.Builtin); isB && bi.Name() == "len" {
								checks = true
							}
							reportsErr := sig.Results().Len() > 0 && isErrorType(sig.Results().At(sig.Results().Len()-1).Type())
							if !checks && !reportsErr {
								okb, why = false, "the part behind the separator goes to "+cf+", which cannot refuse extra separators"
							}
						case *ssa.BinOp, *ssa.Phi, *ssa.Index, *ssa.Lookup:
							nUse++ // comparisons, a look at single characters, concatenation that still ends in a parser
						default:
							nUse++
							okb, why = false, "the part behind the separator is used in a way that is not modelled"
						}
					}
					if nUse == 0 {
						okb, why = false, "the part behind the separator is never looked at: extra parts are ignored"
					}
				}
				r.Check(okb, "C18.R3", key, p.Pos(c.Pos()), "the number of separator-delimited parts is bounded from above on every accepting path (extra parts are refused, not ignored)", why)
				continue
			}
			if _, isSplit := isStringsSplit(c); !isSplit {
				continue
			}
			// constant indexes applied to the result
			max := int64(-1)
			ranged := false
			for _, ref := range *c.Referrers() {
				if ia, ok := ref.(*ssa.IndexAddr); ok {
					if ci, ok := constInt(ia.Index); ok {
						if ci > max {
							max = ci
						}
					} else {
						ranged = true
					}
				}
			}
			if max < 0 || ranged {
				continue
			}
			k++
			key := fmt.Sprintf("%s/split#%d", FuncName(fn), k)
			okb, why := true, ""
			for _, s := range fp.Segs {
				if !s.Has(c) || s.End != nil || !s.Returns() {
					continue
				}
				if retClass(s) == retFail {
					continue
				}
				if lenFactsAllow(s, c, max+2, nil) {
					okb, why = false, fmt.Sprintf("an accepting path allows %d parts although only parts 0..%d are read", max+2, max)
				}
			}
			r.Check(okb, "C18.R3", key, p.Pos(c.Pos()), "the number of separator-delimited parts is bounded from above on every accepting path (extra parts are refused, not ignored)", why)
		}
	}
}

// ---- R5: list files read completely or refused ----

func checkScannerDiscipline(p *Prog, r *Report, fn *ssa.Function, rule string) {
	scans := callInstrs(fn, "(*bufio.Scanner).Scan")
	if len(scans) == 0 {
		return
	}
	name := FuncName(fn)
	pos := p.Pos(fn.Pos())
	fp := Paths(fn)
	okErr, whyErr := true, ""
	okProp, whyProp := true, ""
	for _, s := range fp.Segs {
		// only segments that belong to / leave the scanner loop
		inLoop := false
		for _, sc := range scans {
			if s.Has(sc) {
				inLoop = true
			}
		}
		if !inLoop {
			continue
		}
		accepting := s.End != nil || (s.Returns() && retClass(s) != retFail)
		if !accepting {
			continue
		}
		// a failed call result must not be on an accepting path
		for _, f := range s.Facts {
			bo, ok := f.Cond.(*ssa.BinOp)
			if !ok || (bo.Op != token.NEQ && bo.Op != token.EQL) {
				continue
			}
			var other ssa.Value
			if isNilConst(bo.Y) {
				other = bo.X
			} else if isNilConst(bo.X) {
				other = bo.Y
			} else {
				continue
			}
			if !isErrorType(other.Type()) {
				continue
			}
			nonNil := (bo.Op == token.NEQ) == f.Truth
			if nonNil {
				okProp, whyProp = false, "an error of a line is swallowed: the loop continues / the function succeeds with "+s.Term(other)+" != nil"
			}
		}
		if s.End == nil && s.Returns() {
			// success exit: scanner.Err() consulted
			errCalls := s.CallsTo("(*bufio.Scanner).Err")
			if len(errCalls) == 0 {
				okErr, whyErr = false, "an accepting exit never consults scanner.Err(): an over-long line or a read error silently truncates the list"
				continue
			}
			tested := false
			for _, e := range errCalls {
				if known, isNil := s.NilFact(e.Val); known && isNil {
					tested = true
				}
				ret := s.Exit.(*ssa.Return)
				if i := errResultIndex(fn); i >= 0 && s.Resolve(ret.Results[i]) == e.Val {
					tested = true
				}
			}
			if !tested {
				okErr, whyErr = false, "scanner.Err() is called but its result is neither tested nor returned"
			}
		}
	}
	r.Check(okErr, rule, name+"/scanner-err", pos, "every accepting exit of a list-file parser consults scanner.Err()", whyErr)
	r.Check(okProp, rule, name+"/line-errors", pos, "a failing line aborts the parse with its error (never skipped)", whyProp)
}

// ---- R6: payload ----

func checkPayload(p *Prog, r *Report, fn *ssa.Function, rule string) {
	// the payload parser: func(string) ([]byte, error)
	sig := fn.Signature
	if sig.Params().Len() != 1 || sig.Results().Len() != 2 || types.TypeString(sig.Results().At(0).Type(), nil) != "[]byte" ||
		types.TypeString(sig.Params().At(0).Type(), nil) != "string" {
		return
	}
	name := FuncName(fn)
	pos := p.Pos(fn.Pos())
	fp := Paths(fn)
	if len(fp.Headers) > 0 {
		r.Undecided(rule, name, pos, "the payload parser is the strconv.Unquote idiom", "loop in the payload parser: byte-exact unescaping cannot be established structurally")
		return
	}
	ok, why := true, ""
	nOK := 0
	for _, s := range fp.Segs {
		if !s.Returns() {
			continue
		}
		switch retClass(s) {
		case retFail:
			continue
		case retUnknown:
			ok, why = false, "a return whose error is not classified"
			continue
		}
		nOK++
		res := s.Resolve(s.Exit.(*ssa.Return).Results[0])
		cv, isConv := res.(*ssa.Convert)
		if !isConv {
			ok, why = false, "result is not a direct []byte conversion of the unquoted string"
			continue
		}
		ex, isEx := s.Resolve(cv.X).(*ssa.Extract)
		if !isEx || ex.Index != 0 {
			ok, why = false, "converted value is not the result of strconv.Unquote"
			continue
		}
		c, isCall := ex.Tuple.(*ssa.Call)
		if !isCall || calleeFull(&c.Call) != "strconv.Unquote" {
			ok, why = false, "converted value is not the result of strconv.Unquote"
			continue
		}
		if known, isNil := s.NilFact(extractOf(c, 1)); !known || !isNil {
			ok, why = false, "Unquote's error is not tested on the accepting path"
		}
		// argument: "\"" + param + "\""
		outer, o1 := s.Resolve(c.Call.Args[0]).(*ssa.BinOp)
		if !o1 || outer.Op != token.ADD {
			ok, why = false, "Unquote argument is not quote+payload+quote"
			continue
		}
		q2, _ := constString(outer.Y)
		inner, o2 := outer.X.(*ssa.BinOp)
		if !o2 || inner.Op != token.ADD || q2 != `"` {
			ok, why = false, "Unquote argument is not quote+payload+quote"
			continue
		}
		q1, _ := constString(inner.X)
		if q1 != `"` || inner.Y != ssa.Value(fn.Params[0]) {
			ok, why = false, "Unquote argument is not quote+payload+quote of the parameter"
		}
	}
	r.Check(ok && nOK > 0, rule, name, pos, "the payload is []byte(strconv.Unquote(`\"`+payload+`\"`)) with the error propagated (byte-exact Go unescaping)", why)
}

// ---- R7: rate-window default prefix ----

func checkWindowPrefix(p *Prog, r *Report, fn *ssa.Function) {
	if len(callInstrs(fn, "time.ParseDuration")) == 0 {
		return
	}
	name := FuncName(fn)
	fp := Paths(fn)
	k := 0
	for _, b := range fn.Blocks {
		for _, in := range b.Instrs {
			bo, ok := in.(*ssa.BinOp)
			if !ok || bo.Op != token.ADD {
				continue
			}
			pre, isC := constString(bo.X)
			if !isC || !types.Identical(bo.Type().Underlying(), types.Typ[types.String]) {
				continue
			}
			k++
			key := fmt.Sprintf("%s/prefix#%d", name, k)
			str := bo.Y
			okp, why := true, ""
			for _, s := range fp.Segs {
				if !s.Has(bo) {
					continue
				}
				// fold the facts over the first byte of str
				for c := 0; c < 256; c++ {
					numeric := (c >= '0' && c <= '9') || c == '.'
					if !numeric {
						continue
					}
					bind := func(v ssa.Value) (int64, bool) {
						if lk, ok := v.(*ssa.Index); ok {
							if i, ok := constInt(lk.Index); ok && i == 0 && s.Resolve(lk.X) == s.Resolve(str) {
								return int64(c), true
							}
						}
						if isLenOfVal(s, v, s.Resolve(str)) {
							return 2, true
						}
						return 0, false
					}
					all := true
					for _, f := range s.Facts {
						if f.Ord >= s.ord[bo] {
							continue
						}
						b, ok := EvalCond(s, f.Cond, bind)
						if ok && b != f.Truth {
							all = false
						}
					}
					if all {
						okp, why = false, fmt.Sprintf("the prefix %q is prepended to a window starting with %q: the written window is altered (e.g. \".5s\" becomes \"1.5s\")", pre, string(rune(c)))
					}
				}
			}
			r.Check(okp, "C18.R7", key, p.Pos(bo.Pos()), "the default count prefix is prepended only when the window cannot begin a number (first byte not a digit and not '.')", why)
		}
	}
}

// ---- R4: flag tables ----

var ipFlagOracle = map[string]string{"df": "IPv4DontFragment", "mf": "IPv4MoreFragments", "evil": "IPv4EvilBit"}

func checkIPFlagSwitch(p *Prog, r *Report, set []*ssa.Function) {
	const layersPkg = "github.com/google/gopacket/layers"
	found := false
	for _, fn := range set {
		sig := fn.Signature
		if sig.Params().Len() != 1 || sig.Results().Len() != 2 || types.TypeString(sig.Params().At(0).Type(), nil) != "string" {
			continue
		}
		if bt, ok := sig.Results().At(0).Type().Underlying().(*types.Basic); !ok || bt.Kind() != types.Uint8 {
			continue
		}
		found = true
		name := FuncName(fn)
		pos := p.Pos(fn.Pos())
		fp := Paths(fn)
		table := map[string]int64{}
		lowered := true
		defaultFails := false
		multi := ""
		// table form: the name is looked up in a read-only package-level map name -> bit
		var lk *ssa.Lookup
		for _, b := range fn.Blocks {
			for _, in := range b.Instrs {
				if l, isL := in.(*ssa.Lookup); isL && l.CommaOk && globalOfLoad(l.X) != nil {
					lk = l
				}
			}
		}
		if lk != nil {
			g := globalOfLoad(lk.X)
			table = globalMapConstTable(g)
			if len(p.StoresToGlobalOutsideInit(g)) > 0 {
				multi = "the flag table is written outside the package initialiser"
			}
			for _, s := range fp.Segs {
				if !fp.Headers[s.Start] || !s.Has(lk) {
					continue
				}
				if !derivedThrough(s, lk.Index, "strings.ToLower", 0) {
					lowered = false
				}
				okV := extractOfValue(lk, 1)
				k, v := false, false
				if okV != nil {
					k, v = s.BoolFact(okV)
				}
				switch {
				case !k:
					multi = "the lookup result is not tested"
				case !v:
					if s.End == nil && retClass(s) == retFail {
						defaultFails = true
					} else {
						multi = "an unknown flag name is accepted"
					}
				default:
					if s.End == nil {
						multi = "a known name leaves the loop"
						continue
					}
					var acc *ssa.Phi
					for _, in := range s.End.Instrs {
						if ph, ok := in.(*ssa.Phi); ok {
							if bt, ok := ph.Type().Underlying().(*types.Basic); ok && bt.Kind() == types.Uint8 {
								acc = ph
							}
						}
					}
					if acc == nil {
						multi = "no accumulator"
						continue
					}
					or, ok := s.PhiIn(acc).(*ssa.BinOp)
					if !ok || or.Op != token.OR || or.X != ssa.Value(acc) || s.Resolve(or.Y) != ssa.Value(extractOfValue(lk, 0)) {
						multi = "a known name does not OR exactly its table entry into the accumulated flags"
					}
				}
			}
		}
		for _, s := range fp.Segs {
			if lk != nil {
				break
			}
			if !fp.Headers[s.Start] {
				continue
			}
			var trueName string
			nEq, nFalse := 0, 0
			for _, f := range s.Facts {
				bo, ok := f.Cond.(*ssa.BinOp)
				if !ok || bo.Op != token.EQL {
					continue
				}
				cs, isS := constString(bo.Y)
				if !isS {
					continue
				}
				nEq++
				if !derivedThrough(s, bo.X, "strings.ToLower", 0) {
					lowered = false
				}
				if f.Truth {
					trueName = cs
				} else {
					nFalse++
				}
			}
			if nEq == 0 {
				continue
			}
			if trueName == "" {
				// default branch
				if s.End == nil && retClass(s) == retFail {
					defaultFails = true
				} else {
					defaultFails = false
					multi = "an unknown flag name is accepted"
				}
				continue
			}
			if s.End == nil {
				multi = "case " + trueName + " leaves the loop"
				continue
			}
			// the accumulated result flowing back to the header
			var acc *ssa.Phi
			for _, in := range s.End.Instrs {
				if ph, ok := in.(*ssa.Phi); ok {
					if bt, ok := ph.Type().Underlying().(*types.Basic); ok && bt.Kind() == types.Uint8 {
						acc = ph
					}
				}
			}
			if acc == nil {
				multi = "no accumulator"
				continue
			}
			in := s.PhiIn(acc)
			or, ok := in.(*ssa.BinOp)
			if !ok || or.Op != token.OR || or.X != ssa.Value(acc) {
				multi = "case " + trueName + " does not OR one constant into the accumulated flags"
				continue
			}
			cv, ok := constInt(or.Y)
			if !ok {
				multi = "case " + trueName + " ORs a non-constant"
				continue
			}
			table[trueName] = cv
		}
		var names []string
		for n := range ipFlagOracle {
			names = append(names, n)
		}
		sort.Strings(names)
		for _, n := range names {
			want := p.LookupConst(layersPkg, ipFlagOracle[n])
			got, has := table[n]
			wv, _ := constant.Int64Val(constant.ToInt(want))
			r.Check(want != nil && has && got == wv, "C18.R4", name+"/"+n, pos, fmt.Sprintf("flag name %q sets exactly layers.%s", n, ipFlagOracle[n]),
				fmt.Sprintf("case present=%v value=%d want=%d", has, got, wv))
		}
		r.Check(lowered, "C18.R4", name+"/case-insensitive", pos, "flag names are compared after strings.ToLower", "a comparison operand does not derive from strings.ToLower")
		r.Check(defaultFails && multi == "", "C18.R4", name+"/unknown-refused", pos, "an unknown flag name is refused with an error; every case ORs exactly one constant", multi)
	}
	if !found {
		r.Undecided("C18.R4", "ip-flag parser", "-", "a parser func(string) (uint8, error) exists in the parser set", "not found")
	}
}

func checkTCPFlagParser(p *Prog, r *Report, set []*ssa.Function) {
	found := false
	for _, fn := range set {
		sig := fn.Signature
		if sig.Params().Len() != 1 || sig.Results().Len() != 2 || types.TypeString(sig.Results().At(0).Type(), nil) != "[]string" {
			continue
		}
		found = true
		name := FuncName(fn)
		pos := p.Pos(fn.Pos())
		fp := Paths(fn)
		ok, why := true, ""
		nBody := 0
		for _, s := range fp.Segs {
			if !fp.Headers[s.Start] {
				continue
			}
			// lookups on the option table
			var lk *ssa.Lookup
			for _, b := range s.Blocks {
				for _, in := range b.Instrs {
					if l, isL := in.(*ssa.Lookup); isL && l.CommaOk {
						if g := globalOfLoad(l.X); g != nil {
							lk = l
						}
					}
				}
			}
			if lk == nil {
				continue
			}
			nBody++
			if !derivedThrough(s, lk.Index, "strings.ToLower", 0) {
				ok, why = false, "the table is consulted with a key that is not lower-cased"
			}
			var okv ssa.Value
			for _, ref := range *lk.Referrers() {
				if ex, isEx := ref.(*ssa.Extract); isEx && ex.Index == 1 {
					okv = ex
				}
			}
			known, member := false, false
			if okv != nil {
				known, member = s.BoolFact(okv)
			}
			if !known {
				ok, why = false, "membership result not tested"
				continue
			}
			if !member {
				if !(s.End == nil && retClass(s) == retFail) {
					ok, why = false, "an unknown flag name is accepted"
				}
				continue
			}
			// member: the appended element is the looked-up key
			appended := false
			for _, b := range s.Blocks {
				for _, in := range b.Instrs {
					if c, isC := in.(*ssa.Call); isC {
						if bi, isB := c.Call.Value.(*ssa.Builtin); isB && bi.Name() == "append" {
							if elems, okE := VariadicElems(c.Call.Args[1]); okE && len(elems) == 1 && s.Resolve(elems[0]) == s.Resolve(lk.Index) {
								appended = true
							} else {
								ok, why = false, "the accepted flag appended to the result is not the key that was looked up"
							}
						}
					}
				}
			}
			if !appended {
				ok, why = false, "an accepted flag is not added to the result"
			}
		}
		r.Check(ok && nBody >= 2, "C18.R4", name+"/membership", pos, "each comma-separated name is lower-cased, must be a key of the option table (else error), and the lowered key itself is returned", why)
	}
	if !found {
		r.Undecided("C18.R4", "tcp-flag parser", "-", "a parser func(string) ([]string, error) exists in the parser set", "not found")
	}
}

var tcpFlagNames = []string{"syn", "ack", "fin", "rst", "psh", "urg", "ece", "cwr", "ns"}

// tcpFlagTable extracts the CLI flag-name -> filler option table from the package initialiser.
func tcpFlagTable(p *Prog) (g *ssa.Global, table map[string]*ssa.Call, dup []string) {
	table = map[string]*ssa.Call{}
	cmd := p.SPkg("command")
	if cmd == nil {
		return
	}
	init := cmd.Func("init")
	if init == nil {
		return
	}
	for _, b := range init.Blocks {
		for _, in := range b.Instrs {
			mu, ok := in.(*ssa.MapUpdate)
			if !ok {
				continue
			}
			key, ok := constString(mu.Key)
			if !ok {
				continue
			}
			c, ok := stripConvKeepIface(mu.Value).(*ssa.Call)
			if !ok {
				continue
			}
			if SummOption(StaticCallee(&c.Call)) == nil {
				continue
			}
			// which global receives this map
			for _, ref := range *mu.Map.Referrers() {
				if st, ok := ref.(*ssa.Store); ok {
					if gg, ok := st.Addr.(*ssa.Global); ok {
						g = gg
					}
				}
			}
			if _, had := table[key]; had {
				dup = append(dup, key)
			}
			table[key] = c
		}
	}
	return
}

// checkTCPFlagTable: name -> option -> filler field -> layers.TCP field (shared by C05.R3).
func checkTCPFlagTable(p *Prog, r *Report, rule string) {
	g, table, dup := tcpFlagTable(p)
	if g == nil || len(table) == 0 {
		r.Undecided(rule, "tcp flag option table", "-", "a map[string]PacketFillerOption literal of option constructor calls is initialised in package command", "not found")
		return
	}
	pos := p.Pos(g.Pos())
	for _, n := range tcpFlagNames {
		c, has := table[n]
		if !has {
			r.Viol(rule, "tcpPacketFlagOptions/"+n, pos, fmt.Sprintf("flag name %q is in the option table", n), "missing key")
			continue
		}
		s := SummOption(StaticCallee(&c.Call))
		want := strings.ToUpper(n)
		ok := len(s.Writes) == 1 && s.Writes[0].Field == want
		if ok {
			b, isB := constBool(s.Writes[0].Val)
			ok = isB && b
		}
		detail := ""
		if !ok {
			var fs []string
			for _, w := range s.Writes {
				fs = append(fs, w.Field)
			}
			detail = fmt.Sprintf("option %s writes %v", FuncName(s.Ctor), fs)
		}
		r.Check(ok, rule, "tcpPacketFlagOptions/"+n, p.Pos(c.Pos()), fmt.Sprintf("flag name %q maps to the option that sets exactly filler field %s = true", n, want), detail)
	}
	var extra []string
	for k := range table {
		known := false
		for _, n := range tcpFlagNames {
			if n == k {
				known = true
			}
		}
		if !known {
			extra = append(extra, k)
		}
	}
	sort.Strings(extra)
	if len(extra) > 0 || len(dup) > 0 {
		r.Note("option table has extra keys %v, duplicate keys %v", extra, dup)
	}
	// Fill copies each filler flag to the same-named header flag
	var fill *ssa.Function
	for _, f := range p.Implementers(modPath+"/pkg/scan", "PacketFiller", "Fill") {
		if f.Pkg == p.SPkg("pkg/scan/tcp") {
			fill = f
		}
	}
	if fill == nil {
		r.Undecided(rule, "tcp.Fill", "-", "the TCP filler is found", "no PacketFiller implementation in pkg/scan/tcp")
		return
	}
	fieldsOK := map[string]string{}
	for _, s := range Paths(fill).Segs {
		if !s.Returns() || retClass(s) == retFail {
			continue
		}
		for _, b := range s.Blocks {
			for _, in := range b.Instrs {
				a, ok := in.(*ssa.Alloc)
				if !ok || types.TypeString(a.Type(), nil) != "*github.com/google/gopacket/layers.TCP" {
					continue
				}
				lf := litFields(s, a)
				for _, n := range tcpFlagNames {
					F := strings.ToUpper(n)
					v, has := lf[F]
					if !has {
						fieldsOK[F] = "header field never set"
						continue
					}
					bb, ff, isF := fieldLoad(s.Resolve(v))
					if !isF || ff != F || bb != ssa.Value(fill.Params[0]) {
						fieldsOK[F] = "header field " + F + " is set from " + s.Term(v)
					} else if _, bad := fieldsOK[F]; !bad {
						fieldsOK[F] = ""
					}
				}
			}
		}
	}
	for _, n := range tcpFlagNames {
		F := strings.ToUpper(n)
		d, seen := fieldsOK[F]
		r.Check(seen && d == "", rule, "tcp.Fill/"+F, p.Pos(fill.Pos()), "the TCP header flag "+F+" is the filler's "+F+" field on every successful path", d)
	}
}

// globalMapConstTable: the constant entries a package initialiser puts into the map stored in g.
func globalMapConstTable(g *ssa.Global) map[string]int64 {
	out := map[string]int64{}
	if g == nil || g.Pkg == nil {
		return out
	}
	init := g.Pkg.Func("init")
	if init == nil {
		return out
	}
	var m ssa.Value
	for _, b := range init.Blocks {
		for _, in := range b.Instrs {
			if st, ok := in.(*ssa.Store); ok && st.Addr == ssa.Value(g) {
				m = st.Val
			}
		}
	}
	for _, b := range init.Blocks {
		for _, in := range b.Instrs {
			if mu, ok := in.(*ssa.MapUpdate); ok && mu.Map == m {
				if k, isK := constString(mu.Key); isK {
					if v, isV := constInt(mu.Value); isV {
						out[k] = v
					}
				}
			}
		}
	}
	return out
}

// StoresToGlobalOutsideInit: writes to (or map updates through) g outside package initialisers.
func (p *Prog) StoresToGlobalOutsideInit(g *ssa.Global) []ssa.Instruction {
	var out []ssa.Instruction
	for _, fn := range p.SrcFuncs() {
		if fn.Name() == "init" {
			continue
		}
		for _, b := range fn.Blocks {
			for _, in := range b.Instrs {
				switch t := in.(type) {
				case *ssa.Store:
					if t.Addr == ssa.Value(g) {
						out = append(out, in)
					}
				case *ssa.MapUpdate:
					if globalOfLoad(t.Map) == g {
						out = append(out, in)
					}
				}
			}
		}
	}
	return out
}

// extractOfValue: the Extract #i of a tuple-valued instruction (comma-ok lookup, type assertion ...).
func extractOfValue(v ssa.Value, i int) *ssa.Extract {
	if v.Referrers() == nil {
		return nil
	}
	for _, ref := range *v.Referrers() {
		if ex, ok := ref.(*ssa.Extract); ok && ex.Index == i {
			return ex
		}
	}
	return nil
}

// usedValue: the value has a use other than debug references (a Cut whose second and third results are
// dropped just takes the prefix before a marker - comment stripping - and is not a field split).
func usedValue(v *ssa.Extract) bool {
	if v == nil || v.Referrers() == nil {
		return false
	}
	for _, ref := range *v.Referrers() {
		if _, isDbg := ref.(*ssa.DebugRef); !isDbg {
			return true
		}
	}
	return false
}
