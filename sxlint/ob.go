package main

// Obligations, verdicts, evidence and the known-findings protocol.

import (
	"crypto/sha1"
	"encoding/json"
	"fmt"
	"os"
	"path/filepath"
	"sort"
	"strings"
	"time"
)

type Verdict string

const (
	VOK        Verdict = "ok"
	VViolation Verdict = "violation"
	VUndecided Verdict = "undecided"
	VKnown     Verdict = "known"
)

// Ob is one obligation: a rule instance evaluated on one construct of the repository.
// Construct never contains a line number, so findings stay keyed across unrelated edits.
type Ob struct {
	Rule       string   `json:"rule"`
	Construct  string   `json:"construct"`
	Pos        string   `json:"pos"`
	Text       string   `json:"text"`
	Verdict    Verdict  `json:"verdict"`
	Detail     string   `json:"detail,omitempty"`
	Nontrivial bool     `json:"nontrivial"`
	Path       []string `json:"path,omitempty"`
}

type Report struct {
	Prop        string
	Tier        string
	Obs         []*Ob
	Analysed    map[string]int
	Notes       []string
	Assumptions []string
	NotDecided  []string
	Explanation string
	minimum     map[string]int
	Corpus      *CorpusResult
	start       time.Time
	vacuityDone bool
}

func NewReport(prop, tier string) *Report {
	return &Report{Prop: prop, Tier: tier, Analysed: map[string]int{}, minimum: map[string]int{}, start: time.Now()}
}

func (r *Report) add(v Verdict, rule, construct, pos, text, detail string, path []string) *Ob {
	o := &Ob{Rule: rule, Construct: construct, Pos: pos, Text: text, Verdict: v, Detail: detail, Nontrivial: true, Path: path}
	r.Obs = append(r.Obs, o)
	return o
}

// OK records a discharged obligation.
func (r *Report) OK(rule, construct, pos, text string) *Ob {
	return r.add(VOK, rule, construct, pos, text, "", nil)
}

// Viol records a violated obligation.
func (r *Report) Viol(rule, construct, pos, text, detail string, path ...string) *Ob {
	return r.add(VViolation, rule, construct, pos, text, detail, path)
}

// Undecided records an obligation the analysis could not decide; it fails the check.
func (r *Report) Undecided(rule, construct, pos, text, why string) *Ob {
	return r.add(VUndecided, rule, construct, pos, text, "undecided: "+why, nil)
}

// Check records ok or violation depending on cond.
func (r *Report) Check(cond bool, rule, construct, pos, text, detail string, path ...string) bool {
	if cond {
		r.OK(rule, construct, pos, text)
	} else {
		r.Viol(rule, construct, pos, text, detail, path...)
	}
	return cond
}

// Min declares the hand-confirmed minimum number of obligations a rule must produce
// (vacuity guard: a rule matching fewer sites fails the check).
func (r *Report) Min(rule string, n int) { r.minimum[rule] = n }

func (r *Report) Count(what string, n int) { r.Analysed[what] += n }

func (r *Report) Note(format string, a ...interface{}) {
	r.Notes = append(r.Notes, fmt.Sprintf(format, a...))
}

// ---- known findings ----

type KnownFinding struct {
	Property  string `json:"property"`
	Rule      string `json:"rule"`
	Construct string `json:"construct"`
	What      string `json:"what"`
}

type FindingsFile struct {
	Known []KnownFinding `json:"known"`
	Fixed []string       `json:"fixed"`
}

func loadFindings(verifDir string) (*FindingsFile, error) {
	b, err := os.ReadFile(filepath.Join(verifDir, "known_findings.json"))
	if err != nil {
		if os.IsNotExist(err) {
			return &FindingsFile{}, nil
		}
		return nil, err
	}
	var f FindingsFile
	if err := json.Unmarshal(b, &f); err != nil {
		return nil, err
	}
	return &f, nil
}

// ---- finishing: vacuity guard, evidence, output ----

type Evidence struct {
	PropertyID  string                 `json:"property_id"`
	Tier        string                 `json:"tier"`
	Seed        int64                  `json:"seed"`
	Level       string                 `json:"level"`
	Coverage    map[string]interface{} `json:"coverage"`
	Assumptions []string               `json:"assumptions"`
	WallS       float64                `json:"wall_s"`
	Violations  int                    `json:"violations"`
}

func obKey(o *Ob) string {
	h := sha1.Sum([]byte(o.Rule + "|" + o.Construct))
	return fmt.Sprintf("%x", h[:6])
}

// Finish applies the vacuity guards and the known-findings file, writes evidence and replay
// files, prints the protocol lines and returns the process exit code.
// ApplyVacuity turns "rule matched fewer sites than confirmed by hand" into failing obligations.
func (r *Report) ApplyVacuity() {
	if r.vacuityDone {
		return
	}
	r.vacuityDone = true
	perRule := map[string]int{}
	for _, o := range r.Obs {
		perRule[o.Rule]++
	}
	var rules []string
	for k := range r.minimum {
		rules = append(rules, k)
	}
	sort.Strings(rules)
	for _, k := range rules {
		if perRule[k] < r.minimum[k] {
			r.Viol(k, "vacuity-guard", "-", "rule instance count must not fall below the hand-confirmed minimum",
				fmt.Sprintf("rule matched %d < %d sites", perRule[k], r.minimum[k]))
		}
	}
}

func (r *Report) Finish(verifDir string, seed int64, writeEvidence bool) int {
	r.ApplyVacuity()
	ff, err := loadFindings(verifDir)
	if err != nil {
		r.Viol(r.Prop+".findings", "known_findings.json", "-", "known-findings file must be readable", err.Error())
		ff = &FindingsFile{}
	}
	for _, o := range r.Obs {
		if o.Verdict != VViolation {
			continue
		}
		for _, k := range ff.Known {
			if k.Property == r.Prop && k.Rule == o.Rule && k.Construct == o.Construct {
				o.Verdict = VKnown
				fmt.Printf("KNOWN-FINDING: property=%s rule=%s construct=%s %s\n", r.Prop, o.Rule, o.Construct, k.What)
			}
		}
	}
	nviol, nund, nok, nknown, nontriv := 0, 0, 0, 0, map[string]bool{}
	exit := 0
	evDir := filepath.Join(verifDir, "evidence")
	for _, o := range r.Obs {
		if o.Nontrivial {
			nontriv[o.Rule+"|"+o.Construct] = true
		}
		switch o.Verdict {
		case VOK:
			nok++
		case VKnown:
			nknown++
		case VUndecided, VViolation:
			if o.Verdict == VUndecided {
				nund++
			} else {
				nviol++
			}
			exit = 1
			rp := filepath.Join(evDir, "replay", fmt.Sprintf("%s-%s.json", r.Prop, obKey(o)))
			if writeEvidence {
				os.MkdirAll(filepath.Dir(rp), 0o755)
				b, _ := json.MarshalIndent(map[string]interface{}{"property": r.Prop, "obligation": o, "tier": r.Tier}, "", " ")
				os.WriteFile(rp, b, 0o644)
			}
			fmt.Printf("%s %s [%s] at %s: %s — %s\n", strings.ToUpper(string(o.Verdict)), o.Rule, o.Construct, o.Pos, o.Text, o.Detail)
			for _, p := range o.Path {
				fmt.Printf("    %s\n", p)
			}
			fmt.Printf("VIOLATION property=%s replay=%s\n", r.Prop, rp)
		}
	}
	if r.Corpus != nil && r.Corpus.Killed < r.Corpus.Applied {
		exit = 1
		fmt.Printf("CHECKER-SELFTEST-FAILED property=%s: %d of %d applicable corpus variants not detected: %s\n",
			r.Prop, r.Corpus.Applied-r.Corpus.Killed, r.Corpus.Applied, strings.Join(r.Corpus.Survivors, ", "))
		rp := filepath.Join(evDir, "replay", fmt.Sprintf("%s-selftest.json", r.Prop))
		if writeEvidence {
			os.MkdirAll(filepath.Dir(rp), 0o755)
			b, _ := json.MarshalIndent(r.Corpus, "", " ")
			os.WriteFile(rp, b, 0o644)
		}
		fmt.Printf("VIOLATION property=%s replay=%s\n", r.Prop, rp)
	}
	// samples: every failing obligation plus a spread of discharged ones
	var samples []interface{}
	for _, o := range r.Obs {
		if o.Verdict != VOK {
			samples = append(samples, o)
		}
	}
	seenRule := map[string]int{}
	for _, o := range r.Obs {
		if o.Verdict == VOK && seenRule[o.Rule] < 3 {
			seenRule[o.Rule]++
			samples = append(samples, o)
		}
	}
	ruleCounts := map[string]int{}
	for _, o := range r.Obs {
		ruleCounts[o.Rule]++
	}
	cov := map[string]interface{}{
		"explanation":         r.Explanation,
		"obligations":         len(r.Obs),
		"discharged":          nok,
		"known_findings":      nknown,
		"undecided":           nund,
		"evaluations":         len(r.Obs),
		"distinct_nontrivial": len(nontriv),
		"rule":                "one evaluation per (rule, construct) obligation generated from /repo's current source; an obligation is non-trivial when the construct carries at least one tracked effect/row/argument constrained by the rule; distinct by rule+construct key",
		"samples":             samples,
		"per_rule":            ruleCounts,
		"analysed":            r.Analysed,
		"not_decided":         r.NotDecided,
		"notes":               r.Notes,
		"checker_cmd":         fmt.Sprintf("/verif/check %s %s", r.Prop, r.Tier),
		"trusted_base":        r.Assumptions,
		"exhaustive":          false,
	}
	if r.Corpus != nil {
		cov["corpus_applied"] = r.Corpus.Applied
		cov["corpus_killed"] = r.Corpus.Killed
		cov["corpus_skipped"] = r.Corpus.Skipped
		cov["corpus_invalid"] = r.Corpus.Invalid
		cov["corpus_detail"] = r.Corpus.Detail
	}
	ev := Evidence{PropertyID: r.Prop, Tier: r.Tier, Seed: seed, Level: "other", Coverage: cov,
		Assumptions: r.Assumptions, WallS: time.Since(r.start).Seconds(), Violations: nviol + nund}
	if writeEvidence {
		os.MkdirAll(evDir, 0o755)
		b, _ := json.MarshalIndent(ev, "", " ")
		if err := os.WriteFile(filepath.Join(evDir, r.Prop+".json"), b, 0o644); err != nil {
			fmt.Println("cannot write evidence:", err)
			exit = 1
		}
	}
	fmt.Printf("%s %s: %d obligations, %d ok, %d known, %d violation, %d undecided; analysed %v (%.1fs)\n",
		r.Prop, r.Tier, len(r.Obs), nok, nknown, nviol, nund, r.Analysed, time.Since(r.start).Seconds())
	return exit
}

// FailKeys lists the rule|construct keys of failing obligations (used by the corpus runner).
func (r *Report) FailKeys() []string {
	var out []string
	for _, o := range r.Obs {
		if o.Verdict == VViolation || o.Verdict == VUndecided {
			out = append(out, o.Rule+"|"+o.Construct+"|"+string(o.Verdict))
		}
	}
	sort.Strings(out)
	return out
}

type CorpusResult struct {
	Applied   int      `json:"applied"`
	Killed    int      `json:"killed"`
	Skipped   int      `json:"skipped"`
	Invalid   int      `json:"invalid"`
	Survivors []string `json:"survivors"`
	Detail    []string `json:"detail"`
}
