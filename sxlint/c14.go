package main

import (
	"encoding/json"
	"fmt"
	"go/token"
	"go/types"
	"os"
	"path/filepath"
	"sort"
	"strings"

	"golang.org/x/tools/go/ssa"
)

func init() {
	register(&propDef{
		ID: "C14",
		Explanation: "Static conformance of JSON output: (R1) the logger loop performs exactly one ResultWriter.Write per received result (C08.R3 re-evaluated) and the JSON writer, on every path, either fails before writing anything or performs a single write of the marshalled bytes plus one newline through a constant format (the data is never the format string); " +
			"(R2) for each generated codec (arp, tcp, icmp + response, target line) every encoder path is a complete JSON object skeleton whose keys are the struct tags, each carrying its own field through the escaping / typed writer, omitempty keys are both present and absent across paths, and decoder keys assign the tagged fields; " +
			"(R3) the reflective MarshalJSON methods marshal a value of a locally defined type with identical fields and no MarshalJSON of its own (no recursion), converted from the receiver; (R4) every key of every JSON sample in the README is a tag of the matching result / input type and is not omitempty unless the samples show it both ways; " +
			"(R5) de-duplication forwards a result iff its full ID() string was not in the set, inserting it on that path; the ARP result's ID is its address.",
		NotDecided:  []string{"that jwriter / encoding/json escape every byte sequence correctly", "interleaving with stderr on a terminal"},
		Assumptions: []string{"jwriter.String escapes its argument as a JSON string", "fmt.Fprintf with a constant format performs one Write"},
		Run:         runC14,
	})
}

func runC14(p *Prog, r *Report) {
	r.Min("C14.R1", 3+4)
	r.Min("C14.R2", 5+2*2)
	r.Min("C14.R3", 3)
	r.Min("C14.R4", 5)
	r.Min("C14.R5", 5)
	r.Min("C14.R6", 4)
	checkLogResults(p, r, "C14.R1")
	checkJSONWriter(p, r)
	// generated codecs
	for _, spec := range []struct {
		rel, name string
		dec       bool
	}{{"pkg/scan/arp", "ScanResult", true}, {"pkg/scan/tcp", "ScanResult", false}, {"pkg/scan/icmp", "ScanResult", false}, {"pkg/scan/icmp", "Response", false}, {"pkg/scan", "IPPort", true}} {
		pk := p.Pkg(spec.rel)
		if pk == nil {
			continue
		}
		o := pk.Types.Scope().Lookup(spec.name)
		if o == nil {
			r.Undecided("C14.R2", spec.rel+"."+spec.name, "-", "the result type exists", "not found")
			continue
		}
		checkCodec(p, r, "C14.R2", o.Type().(*types.Named), spec.dec)
	}
	checkReflectiveMarshalers(p, r)
	checkReadmeSamples(p, r)
	checkDedup(p, r)
	checkJSONWiring(p, r)
	// lines appear in the order the results were produced: the result queue between the processors and
	// the logger forwards in order, exactly once (C08.R3 copier clause re-evaluated)
	{
		sub := NewReport("C14x", "quick")
		runC08(p, sub)
		for _, o := range sub.Obs {
			if o.Rule == "C08.R3" && strings.Contains(o.Construct, "NewResultChan") {
				o2 := *o
				o2.Rule = "C14.R1"
				r.Obs = append(r.Obs, &o2)
			}
		}
	}
}

func checkJSONWriter(p *Prog, r *Report) {
	n := 0
	for _, fn := range p.Implementers(modPath+"/command/log", "ResultWriter", "Write") {
		// the JSON writer: calls MarshalJSON
		marsh := false
		for _, b := range fn.Blocks {
			for _, in := range b.Instrs {
				if c, ok := in.(*ssa.Call); ok {
					if m := IfaceMethod(&c.Call); m != nil && m.Name() == "MarshalJSON" {
						marsh = true
					}
				}
			}
		}
		if !marsh {
			continue
		}
		n++
		name := FuncName(fn)
		pos := p.Pos(fn.Pos())
		ok, why := true, ""
		for _, s := range Paths(fn).Segs {
			if !s.Returns() {
				continue
			}
			var mj *ssa.Call
			var writes []*Event
			for _, e := range s.Events {
				if e.Kind != EvCall {
					continue
				}
				if m := IfaceMethod(e.Call); m != nil && m.Name() == "MarshalJSON" {
					mj = e.Instr.(*ssa.Call)
					continue
				}
				cf := calleeFull(e.Call)
				if strings.HasPrefix(cf, "fmt.Fprint") || cf == "io.WriteString" {
					writes = append(writes, e)
				}
				if m := IfaceMethod(e.Call); m != nil && m.Name() == "Write" {
					writes = append(writes, e)
				}
			}
			if mj == nil {
				if len(writes) > 0 {
					ok, why = false, "output written without marshalling the result"
				}
				continue
			}
			errEx := extractOf(mj, 1)
			k, isNil := false, false
			if errEx != nil {
				k, isNil = s.NilFact(errEx)
			}
			if k && !isNil {
				if len(writes) != 0 {
					ok, why = false, "a partial line is written although marshalling failed"
				}
				if retClass(s) != retFail {
					ok, why = false, "a marshalling error is swallowed"
				}
				continue
			}
			if !k {
				ok, why = false, "the marshalling error is not tested before writing"
				continue
			}
			if len(writes) != 1 {
				ok, why = false, fmt.Sprintf("%d writes for one record (a line can be split by a concurrent writer or a flush)", len(writes))
				continue
			}
			w := writes[0]
			data := extractOf(mj, 0)
			cf := calleeFull(w.Call)
			switch cf {
			case "fmt.Fprintf":
				format, isConst := constString(w.Call.Args[1])
				if !isConst {
					ok, why = false, "the marshalled data is used as the format string: '%' in server-controlled values corrupts the line"
					continue
				}
				if format != "%s\n" {
					ok, why = false, fmt.Sprintf("format is %q, expected the bytes followed by exactly one newline", format)
				}
				elems, okv := VariadicElems(w.Call.Args[2])
				if !okv || len(elems) != 1 || stripConvAll(elems[0]) != ssa.Value(data) {
					ok, why = false, "the formatted argument is not the marshalled bytes"
				}
			case "fmt.Fprintln":
				elems, okv := VariadicElems(w.Call.Args[1])
				if !okv || len(elems) != 1 || stripConvAll(elems[0]) != ssa.Value(data) {
					ok, why = false, "Fprintln does not print exactly the marshalled bytes as a string"
				} else if _, isStr := elems[0].(*ssa.MakeInterface).X.Type().Underlying().(*types.Basic); !isStr {
					ok, why = false, "Fprintln of a byte slice prints a number list"
				}
			default:
				// w.Write(<bytes built from the marshalled data and one newline>)
				arg := w.Call.Args[len(w.Call.Args)-1]
				seq, okSeq := byteSeq(s, arg, data, 0)
				if !okSeq || len(seq) != 2 || seq[0] != "DATA" || seq[1] != "\n" {
					ok, why = false, fmt.Sprintf("the single write is not the marshalled bytes plus one newline (written: %v)", seq)
				}
			}
		}
		r.Check(ok, "C14.R1", name, pos, "the JSON writer fails before writing, or performs one write of the marshalled bytes plus one newline through a constant format", why)
	}
	if n == 0 {
		r.Undecided("C14.R1", "JSON result writer", "-", "a ResultWriter calling MarshalJSON exists", "not found")
	}
}

func checkReflectiveMarshalers(p *Prog, r *Report) {
	n := 0
	for _, fn := range p.SrcFuncs() {
		if fn.Parent() != nil || fn.Signature.Recv() == nil || fn.Name() != "MarshalJSON" {
			continue
		}
		calls := callInstrs(fn, "encoding/json.Marshal")
		// the Marshal call may sit in a small helper that MarshalJSON merely passes through
		bind := map[ssa.Value]ssa.Value{}
		if len(calls) == 0 {
			for _, b := range fn.Blocks {
				for _, in := range b.Instrs {
					c, isC := in.(*ssa.Call)
					if !isC {
						continue
					}
					h := StaticCallee(&c.Call)
					if h == nil || h.Pkg != fn.Pkg || h == fn || !isPassThroughOf(fn, h, nil) {
						continue
					}
					if hc := callInstrs(h, "encoding/json.Marshal"); len(hc) > 0 && isPassThroughOfCall(h, hc[0]) {
						calls = hc
						for i, prm := range h.Params {
							if i < len(c.Call.Args) {
								bind[prm] = c.Call.Args[i]
							}
						}
					}
				}
			}
		}
		if len(calls) == 0 {
			continue
		}
		n++
		name := FuncName(fn)
		pos := p.Pos(fn.Pos())
		rt := recvNamed(fn)
		ok, why := len(calls) == 1, "several Marshal calls"
		if ok {
			arg := calls[0].Call.Args[0]
			mi, isMI := arg.(*ssa.MakeInterface)
			if !isMI {
				ok, why = false, "argument is already an interface"
			} else {
				T := mi.X.Type()
				nt, isN := T.(*types.Named)
				if pt, isP := T.(*types.Pointer); isP {
					nt, isN = pt.Elem().(*types.Named)
					_ = pt
				}
				switch {
				case !isN:
					ok, why = false, "marshalled value is not of a named helper type"
				case nt == rt:
					ok, why = false, "MarshalJSON marshals its own type: infinite recursion"
				default:
					for _, TT := range []types.Type{nt, types.NewPointer(nt)} {
						if types.NewMethodSet(TT).Lookup(nil, "MarshalJSON") != nil {
							ok, why = false, "the helper type has its own MarshalJSON"
						}
					}
					if rt != nil && !types.Identical(nt.Underlying(), rt.Underlying()) {
						ok, why = false, "the helper type's fields differ from the result type's (keys or values are lost)"
					}
					// converted from the receiver
					v := mi.X
					for {
						if ct, isCT := v.(*ssa.ChangeType); isCT {
							v = ct.X
							continue
						}
						if cv, isCV := v.(*ssa.Convert); isCV {
							v = cv.X
							continue
						}
						break
					}
					if u, isU := v.(*ssa.UnOp); isU && u.Op == token.MUL {
						v = u.X
					}
					if b, bound := bind[v]; bound {
						v = b
					}
					if v != ssa.Value(fn.Params[0]) {
						ok, why = false, "the marshalled value is not the receiver"
					}
				}
			}
			// result returned as is
			for _, s := range Paths(fn).Segs {
				if s.Returns() && len(bind) == 0 { // through a helper: both pass-through links were established above
					ret := s.Exit.(*ssa.Return)
					if ex, isEx := s.Resolve(ret.Results[0]).(*ssa.Extract); !isEx || ex.Tuple != ssa.Value(calls[0]) {
						ok, why = false, "the marshalled bytes are not returned unchanged"
					}
				}
			}
		}
		r.Check(ok, "C14.R3", name, pos, "MarshalJSON marshals the receiver converted to a local type with identical fields and no MarshalJSON (no recursion), returning the bytes unchanged", why)
	}
	if n < 3 {
		r.Viol("C14.R3", "reflective marshalers", "-", "socks, elastic and docker results have reflective marshalers", fmt.Sprint(n))
	}
}

func resultTypeFor(p *Prog, obj map[string]interface{}) (*types.Named, string) {
	look := func(rel, name string) *types.Named {
		if pk := p.Pkg(rel); pk != nil {
			if o := pk.Types.Scope().Lookup(name); o != nil {
				n, _ := o.Type().(*types.Named)
				return n
			}
		}
		return nil
	}
	if sv, has := obj["scan"]; has {
		s, _ := sv.(string)
		switch {
		case strings.HasPrefix(s, "tcp"):
			return look("pkg/scan/tcp", "ScanResult"), "tcp"
		case s == "udp" || s == "icmp":
			return look("pkg/scan/icmp", "ScanResult"), s
		case s == "socks":
			return look("pkg/scan/socks5", "ScanResult"), s
		case s == "elastic":
			return look("pkg/scan/elastic", "ScanResult"), s
		case s == "docker":
			return look("pkg/scan/docker", "ScanResult"), s
		}
		return nil, s
	}
	if _, has := obj["mac"]; has {
		return look("pkg/scan/arp", "ScanResult"), "arp"
	}
	if _, has := obj["ip"]; has {
		return look("pkg/scan", "IPPort"), "target-line"
	}
	return nil, "?"
}

func checkReadmeSamples(p *Prog, r *Report) {
	b, err := os.ReadFile(filepath.Join(p.Repo, "README.md"))
	if err != nil {
		r.Undecided("C14.R4", "README.md", "-", "the README is readable", err.Error())
		return
	}
	type agg struct {
		T       *types.Named
		present map[string]int
		samples int
	}
	kinds := map[string]*agg{}
	for _, line := range strings.Split(string(b), "\n") {
		line = strings.TrimSpace(line)
		if !strings.HasPrefix(line, "{") || !strings.HasSuffix(line, "}") {
			continue
		}
		var obj map[string]interface{}
		if json.Unmarshal([]byte(line), &obj) != nil {
			continue
		}
		T, kind := resultTypeFor(p, obj)
		if T == nil {
			r.Undecided("C14.R4", "README sample "+kind, "-", "the sample's result type is known", "no result type for "+line)
			continue
		}
		a := kinds[kind]
		if a == nil {
			a = &agg{T: T, present: map[string]int{}}
			kinds[kind] = a
		}
		a.samples++
		for k := range obj {
			a.present[k]++
		}
		// nested objects
		for k, v := range obj {
			if sub, ok := v.(map[string]interface{}); ok {
				st := T.Underlying().(*types.Struct)
				for _, t := range structTags(st) {
					if t.Key != k {
						continue
					}
					ft := t.Type
					if pt, ok := ft.(*types.Pointer); ok {
						ft = pt.Elem()
					}
					if sst, ok := ft.Underlying().(*types.Struct); ok {
						var bad []string
						for sk := range sub {
							found := false
							for _, tt := range structTags(sst) {
								if tt.Key == sk {
									found = true
								}
							}
							if !found {
								bad = append(bad, sk)
							}
						}
						sort.Strings(bad)
						r.Check(len(bad) == 0, "C14.R4", "README/"+kind+"/"+k, "README.md", "every documented key of the nested object is a tag of the nested type", "undeclared keys: "+strings.Join(bad, ","))
					}
				}
			}
		}
	}
	var ks []string
	for k := range kinds {
		ks = append(ks, k)
	}
	sort.Strings(ks)
	for _, kind := range ks {
		a := kinds[kind]
		st := a.T.Underlying().(*types.Struct)
		tags := structTags(st)
		var bad []string
		for k, cnt := range a.present {
			var t *tagInfo
			for i := range tags {
				if tags[i].Key == k {
					t = &tags[i]
				}
			}
			if t == nil {
				bad = append(bad, k+" (no such tag)")
				continue
			}
			if t.OmitEmpty && cnt == a.samples {
				bad = append(bad, k+" (shown in every sample but omitempty: it disappears for empty values)")
			}
		}
		sort.Strings(bad)
		r.Check(len(bad) == 0, "C14.R4", "README/"+kind, "README.md", fmt.Sprintf("every key of the %d documented %s samples is a tag of %s.%s", a.samples, kind, a.T.Obj().Pkg().Name(), a.T.Obj().Name()), strings.Join(bad, "; "))
	}
	r.Count("readme_sample_kinds", len(kinds))
}

func checkDedup(p *Prog, r *Report) {
	var fn *ssa.Function
	for _, f := range p.SrcFuncs() {
		if f.Pkg != p.SPkg("command/log") || f.Parent() == nil {
			continue
		}
		for _, b := range f.Blocks {
			for _, in := range b.Instrs {
				if c, ok := in.(*ssa.Call); ok {
					if m := IfaceMethod(&c.Call); m != nil && m.Name() == "ID" {
						fn = f
					}
				}
			}
		}
	}
	if fn == nil {
		r.Undecided("C14.R5", "de-duplicator", "-", "a goroutine in command/log calls Result.ID()", "not found")
		return
	}
	name := FuncName(fn)
	pos := p.Pos(fn.Pos())
	heads := loopHeadersSorted(fn)
	if len(heads) != 1 {
		r.Undecided("C14.R5", name, pos, "the de-duplicator is one loop", fmt.Sprint(len(heads)))
		return
	}
	okKey, whyKey := true, ""
	okFwd, whyFwd := true, ""
	seenNew, seenOld := false, false
	for _, s := range PathsInl(fn).From(heads[0]) {
		if s.IsSelectPanicTail() {
			continue
		}
		var id *ssa.Call
		var lk *ssa.Lookup
		var mu *ssa.MapUpdate
		for _, b := range s.Blocks {
			for _, in := range b.Instrs {
				switch t := in.(type) {
				case *ssa.Call:
					if m := IfaceMethod(&t.Call); m != nil && m.Name() == "ID" {
						id = t
					}
				case *ssa.Lookup:
					if _, isMap := t.X.Type().Underlying().(*types.Map); isMap {
						lk = t
					}
				case *ssa.MapUpdate:
					mu = t
				}
			}
		}
		// the seen-set only grows: nothing inside the loop replaces, re-creates or shrinks it
		for _, e := range s.Events {
			switch e.Kind {
			case EvStore:
				if _, isMap := e.Val.Type().Underlying().(*types.Map); isMap {
					okKey, whyKey = false, "the set of seen IDs is replaced inside the loop: earlier sightings are forgotten and a host is printed again"
				}
			case EvCall:
				if bi, isB := e.Call.Value.(*ssa.Builtin); isB && bi.Name() == "delete" {
					okKey, whyKey = false, "seen IDs are deleted: a host can be printed again"
				}
			}
		}
		for _, b := range s.Blocks {
			for _, in := range b.Instrs {
				if _, isMM := in.(*ssa.MakeMap); isMM {
					okKey, whyKey = false, "a new set is created inside the loop: earlier sightings are forgotten"
				}
			}
		}
		if id == nil {
			continue
		}
		if lk == nil {
			okKey, whyKey = false, "membership is not tested"
			continue
		}
		if s.Resolve(lk.Index) != ssa.Value(id) {
			okKey, whyKey = false, "the set is consulted with "+sx(lk.Index, 0)+" instead of the full ID() string (distinct hosts can collide)"
		}
		var exists ssa.Value
		for _, ref := range *lk.Referrers() {
			if ex, ok := ref.(*ssa.Extract); ok && ex.Index == 1 {
				exists = ex
			}
		}
		k, v := false, false
		if exists != nil {
			k, v = s.BoolFact(exists)
		}
		if !k {
			okFwd, whyFwd = false, "membership result not tested"
			continue
		}
		// forwarded value
		fw := 0
		for _, em := range s.Emits() {
			if chanElemIs(em.Chan.Type(), modPath+"/pkg/scan.Result") {
				fw++
			}
		}
		if v {
			seenOld = true
			if fw != 0 || mu != nil {
				okFwd, whyFwd = false, "an already seen host is printed again"
			}
		} else {
			// the select may choose Done (exit) or the send
			done := selectDoneChosenAfter(s, id)
			if mu == nil || s.Resolve(mu.Key) != ssa.Value(id) {
				okKey, whyKey = false, "a new ID is not inserted under the full ID() string"
			}
			if !done {
				seenNew = true
				if fw != 1 {
					okFwd, whyFwd = false, fmt.Sprintf("a new host is forwarded %d times", fw)
				}
			}
		}
	}
	checkDedupWiring(p, r, fn)
	r.Check(okKey, "C14.R5", name+"/key", pos, "the seen-set is keyed by the complete ID() string, for lookup and insertion", whyKey)
	r.Check(okFwd && seenNew && seenOld, "C14.R5", name+"/forward", pos, "a result is forwarded exactly once iff its ID was not seen before (first sighting wins)", whyFwd)
	// ARP ID is the address
	if pk := p.SPkg("pkg/scan/arp"); pk != nil {
		idf := p.Func("pkg/scan/arp", "(*ScanResult).ID")
		ok := false
		if idf != nil {
			for _, s := range Paths(idf).Segs {
				if s.Returns() {
					if _, f, isF := fieldLoad(s.Resolve(s.Exit.(*ssa.Return).Results[0])); isF && f == "IP" {
						ok = true
					}
				}
			}
		}
		r.Check(ok, "C14.R5", "arp.ScanResult.ID", "-", "an ARP result is identified by its address (every distinct host once)", "ID() does not return the IP field")
	}
}

// selectDoneChosenAfter: a select executed after instruction `after` on the segment chose ctx.Done.
func selectDoneChosenAfter(s *Seg, after ssa.Instruction) bool {
	for _, e := range s.Events {
		if e.Kind == EvSelect && e.Chosen >= 0 && e.Ord > s.ord[after] {
			st := e.Sel.States[e.Chosen]
			if st.Dir == types.RecvOnly && isCtxDone(st.Chan) {
				return true
			}
		}
	}
	return false
}

// byteSeq evaluates a []byte expression built with append / make / conversions as a sequence of
// pieces: "DATA" for the marshalled bytes, single characters for constant bytes.
func byteSeq(s *Seg, v ssa.Value, data ssa.Value, d int) ([]string, bool) {
	if d > 8 || v == nil {
		return nil, false
	}
	v = s.Resolve(v)
	if v == data {
		return []string{"DATA"}, true
	}
	switch t := v.(type) {
	case *ssa.MakeSlice:
		if k, ok := constInt(t.Len); ok && k == 0 {
			return nil, true
		}
	case *ssa.Const:
		if t.Value == nil {
			return nil, true // nil slice
		}
		if str, ok := constString(t); ok {
			var out []string
			for _, c := range []byte(str) {
				out = append(out, string(rune(c)))
			}
			return out, true
		}
	case *ssa.Convert:
		return byteSeq(s, t.X, data, d+1)
	case *ssa.ChangeType:
		return byteSeq(s, t.X, data, d+1)
	case *ssa.Slice:
		if t.Low == nil && t.High == nil {
			if a, ok := t.X.(*ssa.Alloc); ok {
				// array literal of constant bytes (varargs)
				if elems, ok := VariadicElems(t); ok {
					var out []string
					for _, e := range elems {
						k, isK := constInt(e)
						if !isK {
							return nil, false
						}
						out = append(out, string(rune(k)))
					}
					_ = a
					return out, true
				}
			}
			return byteSeq(s, t.X, data, d+1)
		}
		if k, ok := constInt(t.High); ok && k == 0 && t.Low == nil {
			return nil, true // x[:0]
		}
	case *ssa.Call:
		if bi, ok := t.Call.Value.(*ssa.Builtin); ok && bi.Name() == "append" {
			a, ok1 := byteSeq(s, t.Call.Args[0], data, d+1)
			b, ok2 := byteSeq(s, t.Call.Args[1], data, d+1)
			if ok1 && ok2 {
				return append(append([]string(nil), a...), b...), true
			}
		}
	}
	return nil, false
}

// checkDedupWiring: the de-duplicating goroutine is actually in the path of live ARP output.
// (a) the logger type that owns it hands its delegate only the de-duplicated stream;
// (b) the arp command's logger is that type whenever the live timeout is set, whatever the output format.
func checkDedupWiring(p *Prog, r *Report, dedup *ssa.Function) {
	m := dedup.Parent()
	if m == nil || m.Signature.Recv() == nil {
		r.Undecided("C14.R5", "de-duplicator/owner", "-", "the de-duplicating goroutine is started by a method of the unique logger", "no receiver")
		return
	}
	T := m.Signature.Recv().Type()
	// (a)
	okA, whyA, nA := true, "", 0
	for _, f := range p.SrcFuncs() {
		if f.Signature.Recv() == nil || !types.Identical(f.Signature.Recv().Type(), T) || f.Name() != "LogResults" {
			continue
		}
		for _, s := range PathsInl(f).Segs {
			for _, e := range s.Events {
				if e.Kind != EvCall || e.Call == nil {
					continue
				}
				cc := e.Call
				if !cc.IsInvoke() || cc.Method.Name() != "LogResults" {
					continue
				}
				nA++
				fromDedup := false
				if c, isC := s.Resolve(cc.Args[1]).(*ssa.Call); isC && StaticCallee(&c.Call) == m {
					continue
				}
				for _, o := range p.Origins(s.Resolve(cc.Args[1])) {
					if c, isC := o.(*ssa.Call); isC && StaticCallee(&c.Call) == m {
						fromDedup = true
					} else {
						okA, whyA = false, "the delegate logger receives "+s.Term(cc.Args[1])+" (not the de-duplicated stream)"
					}
				}
				if !fromDedup {
					okA, whyA = false, "the delegate logger does not receive the de-duplicated stream"
				}
			}
		}
	}
	r.Check(okA && nA > 0, "C14.R5", "unique-logger/forwards-deduplicated", p.Pos(m.Pos()), "the unique logger hands its delegate exactly the stream produced by the de-duplicating goroutine", whyA)
	// constructors of T
	ctors := map[*ssa.Function]bool{}
	for _, f := range p.SrcFuncs() {
		if f.Pkg == m.Pkg && f.Parent() == nil && f.Signature.Recv() == nil && f.Signature.Results().Len() == 1 && types.Identical(f.Signature.Results().At(0).Type(), T) {
			ctors[f] = true
		}
	}
	// (b)
	nB := 0
	for _, f := range p.SrcFuncs() {
		if f.Pkg != p.SPkg("command") || f.Parent() != nil || f.Signature.Results().Len() != 2 {
			continue
		}
		if !strings.HasSuffix(types.TypeString(f.Signature.Results().At(0).Type(), nil), "command/log.Logger") {
			continue
		}
		reads := false
		for _, b := range f.Blocks {
			for _, in := range b.Instrs {
				if u, isU := in.(*ssa.UnOp); isU {
					if _, fld, isF := fieldLoad(u); isF && fld == "liveTimeout" {
						reads = true
					}
				}
			}
		}
		if !reads {
			continue
		}
		nB++
		ok, why := true, ""
		nLive := 0
		for _, s := range PathsInl(f).Segs {
			if !s.Returns() || retClass(s) == retFail {
				continue
			}
			live, known := liveFact(s)
			if !known {
				ok, why = false, "an accepting path does not test the live timeout"
				continue
			}
			ret := stripConvAll(s.Resolve(s.Exit.(*ssa.Return).Results[0]))
			c, isC := s.Resolve(ret).(*ssa.Call)
			wrapped := isC && ctors[StaticCallee(&c.Call)]
			if live {
				nLive++
				if !wrapped {
					ok, why = false, "with the live timeout set the returned logger is "+s.Term(ret)+", not the de-duplicating logger (some output format loses de-duplication)"
				}
			}
		}
		r.Check(ok && nLive > 0, "C14.R5", FuncName(f)+"/live-is-unique", p.Pos(f.Pos()), "in live mode the arp command's logger is the de-duplicating logger wrapped around whatever logger the output options produced", why)
	}
	if nB == 0 {
		r.Viol("C14.R5", "live-logger-wiring", "-", "a logger builder in command/ reads the live timeout and wraps the logger", "not found")
	}
}

// liveFact: what the path knows about `liveTimeout > 0`.
func liveFact(s *Seg) (live, known bool) {
	for _, f := range s.Facts {
		b, isB := f.Cond.(*ssa.BinOp)
		if !isB {
			continue
		}
		x, y, op := b.X, b.Y, b.Op
		if _, isC := x.(*ssa.Const); isC {
			x, y = y, x
			op = flipOp(op)
		}
		k, isK := constInt(y)
		if !isK || k != 0 {
			continue
		}
		if _, fld, isF := fieldLoad(s.Resolve(x)); !isF || fld != "liveTimeout" {
			continue
		}
		switch op {
		case token.GTR, token.NEQ:
			return f.Truth, true
		case token.LEQ, token.EQL:
			return !f.Truth, true
		}
	}
	return false, false
}

// PathElems evaluates, on one path, a slice built from literals and append calls into its elements.
func PathElems(s *Seg, v ssa.Value, d int) ([]ssa.Value, bool) {
	if d > 12 || v == nil {
		return nil, false
	}
	v = s.Resolve(v)
	if isNilConst(v) {
		return nil, true
	}
	switch t := v.(type) {
	case *ssa.MakeSlice:
		if k, ok := constInt(t.Len); ok && k == 0 {
			return nil, true
		}
	case *ssa.Slice:
		if _, ok := t.X.(*ssa.Alloc); ok && t.Low == nil && t.High == nil {
			return VariadicElems(t)
		}
		if t.High != nil {
			if k, ok := constInt(t.High); ok && k == 0 {
				return nil, true // make([]T, 0, n) with a constant capacity: an empty slice over a fresh array
			}
		}
	case *ssa.Call:
		if bi, ok := t.Call.Value.(*ssa.Builtin); ok && bi.Name() == "append" && len(t.Call.Args) == 2 {
			a, okA := PathElems(s, t.Call.Args[0], d+1)
			b, okB := PathElems(s, t.Call.Args[1], d+1)
			if okA && okB {
				return append(append([]ssa.Value{}, a...), b...), true
			}
		}
	}
	if os.Getenv("SXDBG") != "" {
		fmt.Fprintf(os.Stderr, "PathElems fails at %T %s\n", v, v.String())
	}
	return nil, false
}

// checkJSONWiring (R6): --json selects the JSON writer. (a) the JSON option installs a JSONResultWriter as
// the logger's result writer; (b) every logger builder in command/ passes that option exactly on the paths
// where the json flag is set, and no option after it in the list replaces or wraps the result writer.
func checkJSONWiring(p *Prog, r *Report) {
	lp := p.SPkg("command/log")
	if lp == nil {
		r.Undecided("C14.R6", "log package", "-", "command/log is loaded", "missing")
		return
	}
	var jsonOpt *ssa.Function
	rwWriters := map[*ssa.Function]bool{}
	for _, m := range lp.Members {
		f, ok := m.(*ssa.Function)
		if !ok {
			continue
		}
		sm := SummOption(f)
		if sm == nil {
			continue
		}
		for _, w := range sm.Writes {
			if w.Field != "rw" {
				continue
			}
			rwWriters[f] = true
			if a, isA := stripConvAll(w.Val).(*ssa.Alloc); isA && strings.HasSuffix(types.TypeString(a.Type(), nil), "command/log.JSONResultWriter") {
				jsonOpt = f
			}
		}
	}
	r.Check(jsonOpt != nil, "C14.R6", "log.JSON option", "-", "an option of command/log installs a fresh JSONResultWriter as the logger's result writer", "not found")
	if jsonOpt == nil {
		return
	}
	n := 0
	for _, fn := range p.SrcFuncs() {
		if fn.Pkg != p.SPkg("command") {
			continue
		}
		if fn.Signature.Results().Len() == 0 || !strings.HasSuffix(types.TypeString(fn.Signature.Results().At(0).Type(), nil), "command/log.Logger") {
			continue
		}
		segs := PathsInl(fn).Segs
		// the NewLogger call may sit in a helper that was expanded into this function
		found := false
		for _, s := range segs {
			for _, e := range s.Events {
				if e.Kind == EvCall && e.Call != nil && calleeFull(e.Call) == modPath+"/command/log.NewLogger" {
					found = true
				}
			}
		}
		if !found {
			continue
		}
		name := FuncName(fn)
		pos := p.Pos(fn.Pos())
		ok, why := true, ""
		sawJSON, sawPlain, viaParam, undecided := false, false, false, false
		undecidedWhy := ""
		for _, s := range segs {
			if !s.Returns() {
				continue
			}
			var mk *ssa.Call
			for _, e := range s.Events {
				if e.Kind == EvCall && e.Call != nil && calleeFull(e.Call) == modPath+"/command/log.NewLogger" {
					mk, _ = e.Instr.(*ssa.Call)
				}
			}
			if mk == nil {
				continue
			}
			elems, known := PathElems(s, mk.Call.Args[len(mk.Call.Args)-1], 0)
			if !known {
				undecidedWhy = "options come from " + s.Term(mk.Call.Args[len(mk.Call.Args)-1])
				undecided = true
				break
			}
			jsonSet, jsonKnown := false, false
			for _, f := range s.Facts {
				c := s.Resolve(f.Cond)
				if _, isP := c.(*ssa.Parameter); isP && c.Type().String() == "bool" {
					viaParam = true
				}
				if u, isU := c.(*ssa.UnOp); isU {
					if _, fld, isF := fieldLoad(u); isF && fld == "json" {
						jsonSet, jsonKnown = f.Truth, true
					}
				}
			}
			if !jsonKnown {
				ok, why = false, "a path builds the logger without testing the json flag"
				continue
			}
			last := -1
			idxJSON := -1
			for i, e := range elems {
				c, isC := stripConvKeepIface(e).(*ssa.Call)
				if !isC {
					ok, why = false, "a logger option is not a direct option constructor call"
					continue
				}
				cal := StaticCallee(&c.Call)
				if cal == jsonOpt {
					idxJSON = i
				}
				if rwWriters[cal] {
					last = i
				}
			}
			if jsonSet {
				sawJSON = true
				if idxJSON < 0 {
					ok, why = false, "with --json set the JSON option is not passed"
				} else if last != idxJSON {
					ok, why = false, "an option after JSON() replaces the result writer"
				}
			} else {
				sawPlain = true
				if idxJSON >= 0 {
					ok, why = false, "the JSON option is passed although --json is not set"
				}
			}
		}
		if undecided {
			// decided in a builder this function calls (helper expansion stops at a fixed depth)?
			covered := false
			for _, b := range fn.Blocks {
				for _, in := range b.Instrs {
					if ci, isCI := in.(ssa.CallInstruction); isCI {
						if cal := StaticCallee(ci.Common()); cal != nil && cal != fn && cal.Pkg == fn.Pkg && cal.Signature.Results().Len() > 0 &&
							strings.HasSuffix(types.TypeString(cal.Signature.Results().At(0).Type(), nil), "command/log.Logger") {
							covered = true
						}
					}
				}
			}
			if !covered {
				n++
				r.Undecided("C14.R6", name, pos, "the logger options are a literal list extended by append", undecidedWhy)
			}
			continue
		}
		if !sawJSON && !sawPlain && viaParam && len(p.CallSites(fn)) > 0 {
			// a helper deciding on a bool parameter: decided in each caller, where it is expanded
			allCommand := true
			for _, cs := range p.CallSites(fn) {
				if cs.Parent().Pkg != fn.Pkg {
					allCommand = false
				}
			}
			if allCommand {
				continue
			}
		}
		n++
		r.Check(ok && sawJSON && sawPlain, "C14.R6", name, pos, "the logger gets the JSON writer exactly when --json is set, and it is the last option that touches the result writer", why)
	}
	if n < 2 {
		r.Viol("C14.R6", "logger builders", "-", "the two logger builders of command/ are found", fmt.Sprint(n))
	}
	// the json option field is bound to the --json flag
	for _, fr := range p.FlagTable() {
		if fr.Name == "json" {
			r.Check(fr.Field != nil && fr.Field.Name() == "json", "C14.R6", "flag --json/"+fr.Field.Name()+"@"+p.Pos(fr.Call.Pos()), p.Pos(fr.Call.Pos()), "--json is bound to the json options field the logger builders test", "")
		}
	}
}

// isPassThroughOfCall: every return of h hands back the results of call c unchanged.
func isPassThroughOfCall(h *ssa.Function, c *ssa.Call) bool {
	if len(LoopHeaders(h)) > 0 {
		return false
	}
	n := 0
	for _, s := range Paths(h).Segs {
		if !s.Returns() {
			continue
		}
		n++
		for i, rv := range s.Exit.(*ssa.Return).Results {
			ex, ok := s.Resolve(rv).(*ssa.Extract)
			if !ok || ex.Index != i || ex.Tuple != ssa.Value(c) {
				return false
			}
		}
	}
	return n > 0
}
