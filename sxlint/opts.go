package main

// TB helpers: functional-option constructors, variadic call sites, cobra flag registrations.

import (
	"fmt"
	"go/constant"
	"go/token"
	"go/types"
	"strings"

	"golang.org/x/tools/go/ssa"
)

// OptionSummary describes an option constructor `func WithX(a, b) func(c *T)`:
// which fields of T its returned closure writes, and from which constructor parameter / constant.
type OptionWrite struct {
	Field string
	Param int       // index of the constructor parameter the value derives from (-1: none)
	Const ssa.Value // constant written, if any
	Val   ssa.Value // stored value inside the closure
	Conv  bool      // stored through a conversion/copy of the parameter
}

type OptionSummary struct {
	Ctor    *ssa.Function
	Closure *ssa.Function
	Writes  []OptionWrite
}

var optCache = map[*ssa.Function]*OptionSummary{}

// SummOption summarises an option constructor; nil if fn is not one.
func SummOption(fn *ssa.Function) *OptionSummary {
	if fn == nil || fn.Blocks == nil {
		return nil
	}
	if s, ok := optCache[fn]; ok {
		return s
	}
	optCache[fn] = nil
	if fn.Signature.Results().Len() != 1 || len(fn.Blocks) != 1 {
		return nil
	}
	var ret *ssa.Return
	for _, in := range fn.Blocks[0].Instrs {
		if r, ok := in.(*ssa.Return); ok {
			ret = r
		}
	}
	if ret == nil || len(ret.Results) != 1 {
		return nil
	}
	var mc *ssa.MakeClosure
	switch t := stripConvKeepIface(ret.Results[0]).(type) {
	case *ssa.MakeClosure:
		mc = t
	case *ssa.Function:
		// closure without free variables
		s := &OptionSummary{Ctor: fn, Closure: t}
		s.Writes = closureWrites(fn, t, nil)
		optCache[fn] = s
		return s
	}
	if mc == nil {
		return nil
	}
	cl := mc.Fn.(*ssa.Function)
	s := &OptionSummary{Ctor: fn, Closure: cl}
	s.Writes = closureWrites(fn, cl, mc)
	optCache[fn] = s
	return s
}

func stripConvKeepIface(v ssa.Value) ssa.Value {
	for {
		switch t := v.(type) {
		case *ssa.ChangeType:
			v = t.X
		default:
			return v
		}
	}
}

func closureWrites(ctor, cl *ssa.Function, mc *ssa.MakeClosure) []OptionWrite {
	var out []OptionWrite
	if len(cl.Params) != 1 {
		return nil
	}
	target := cl.Params[0]
	for _, b := range cl.Blocks {
		for _, in := range b.Instrs {
			st, ok := in.(*ssa.Store)
			if !ok {
				continue
			}
			fa, ok := st.Addr.(*ssa.FieldAddr)
			if !ok {
				continue
			}
			// direct field of the target, or of a field of the target (s.dialer.Timeout)
			base := fa.X
			name := fieldName(fa.X.Type(), fa.Field)
			if base != ssa.Value(target) {
				if b2, f2, ok := fieldLoad(base); ok && b2 == ssa.Value(target) {
					name = f2 + "." + name
				} else if fa2, ok := base.(*ssa.FieldAddr); ok && fa2.X == ssa.Value(target) {
					name = fieldName(fa2.X.Type(), fa2.Field) + "." + name
				} else {
					continue
				}
			}
			w := OptionWrite{Field: name, Param: -1, Val: st.Val}
			v := st.Val
			for {
				if c, ok := v.(*ssa.Convert); ok {
					v = c.X
					w.Conv = true
					continue
				}
				if c, ok := v.(*ssa.ChangeType); ok {
					v = c.X
					continue
				}
				break
			}
			if c, ok := v.(*ssa.Const); ok {
				w.Const = c
			}
			w.Param = paramOfValue(ctor, cl, mc, v, 0)
			out = append(out, w)
		}
	}
	return out
}

// paramOfValue traces a value inside the option closure back to a constructor parameter.
func paramOfValue(ctor, cl *ssa.Function, mc *ssa.MakeClosure, v ssa.Value, d int) int {
	if d > 8 {
		return -1
	}
	switch t := v.(type) {
	case *ssa.FreeVar:
		if mc == nil {
			return -1
		}
		for i, fv := range cl.FreeVars {
			if fv == t {
				return paramOfCtorValue(ctor, mc.Bindings[i], 0)
			}
		}
	case *ssa.UnOp:
		if t.Op == token.MUL {
			return paramOfValue(ctor, cl, mc, t.X, d+1)
		}
	case *ssa.Convert:
		return paramOfValue(ctor, cl, mc, t.X, d+1)
	case *ssa.ChangeType:
		return paramOfValue(ctor, cl, mc, t.X, d+1)
	case *ssa.MakeSlice:
		// data := make([]byte, len(payload)); copy(data, payload): find the copy source
		for _, ref := range *t.Referrers() {
			if c, ok := ref.(*ssa.Call); ok {
				if b, ok := c.Call.Value.(*ssa.Builtin); ok && b.Name() == "copy" && c.Call.Args[0] == ssa.Value(t) {
					return paramOfValue(ctor, cl, mc, c.Call.Args[1], d+1)
				}
			}
		}
	case *ssa.Alloc:
		for _, ref := range *t.Referrers() {
			if st, ok := ref.(*ssa.Store); ok && st.Addr == ssa.Value(t) {
				return paramOfValue(ctor, cl, mc, st.Val, d+1)
			}
		}
	}
	return -1
}

func paramOfCtorValue(ctor *ssa.Function, v ssa.Value, d int) int {
	if d > 6 {
		return -1
	}
	switch t := v.(type) {
	case *ssa.Parameter:
		return paramIndex(ctor, t)
	case *ssa.Alloc:
		// captured by reference: the cell holds the parameter
		for _, ref := range *t.Referrers() {
			if st, ok := ref.(*ssa.Store); ok && st.Addr == ssa.Value(t) {
				return paramOfCtorValue(ctor, st.Val, d+1)
			}
		}
	case *ssa.ChangeType:
		return paramOfCtorValue(ctor, t.X, d+1)
	}
	return -1
}

// VariadicElems returns the elements of the variadic argument of a call built in place
// (`f(a, b, c)` => new [3]T + stores + slice). ok=false when the slice comes from elsewhere.
func VariadicElems(arg ssa.Value) ([]ssa.Value, bool) {
	return variadicElems(arg, 0)
}

// variadicElems also accepts a local slice built from a literal and extended by append calls
// (`opts := []T{a, b}; opts = append(opts, c)`; straight-line only: a conditional append is a phi and fails).
func variadicElems(arg ssa.Value, d int) ([]ssa.Value, bool) {
	if c, ok := arg.(*ssa.Const); ok && c.Value == nil {
		return nil, true // no variadic arguments
	}
	if c, ok := arg.(*ssa.Call); ok && d < 12 {
		if bi, isB := c.Call.Value.(*ssa.Builtin); isB && bi.Name() == "append" && len(c.Call.Args) == 2 {
			a, okA := variadicElems(c.Call.Args[0], d+1)
			b, okB := variadicElems(c.Call.Args[1], d+1)
			if okA && okB {
				return append(append([]ssa.Value{}, a...), b...), true
			}
		}
		return nil, false
	}
	sl, ok := arg.(*ssa.Slice)
	if !ok {
		return nil, false
	}
	a, ok := sl.X.(*ssa.Alloc)
	if !ok {
		return nil, false
	}
	at, ok := a.Type().Underlying().(*types.Pointer).Elem().Underlying().(*types.Array)
	if !ok {
		return nil, false
	}
	elems := make([]ssa.Value, at.Len())
	for _, ref := range *a.Referrers() {
		ia, ok := ref.(*ssa.IndexAddr)
		if !ok {
			continue
		}
		k, ok := constInt(ia.Index)
		if !ok || k < 0 || k >= at.Len() {
			return nil, false
		}
		for _, r2 := range *ia.Referrers() {
			if st, ok := r2.(*ssa.Store); ok && st.Addr == ssa.Value(ia) {
				elems[k] = st.Val
			}
		}
	}
	for _, e := range elems {
		if e == nil {
			return nil, false
		}
	}
	return elems, true
}

// CallSites returns every call instruction (call/go/defer) in the repo whose static callee is fn.
func (p *Prog) CallSites(fn *ssa.Function) []ssa.CallInstruction {
	var out []ssa.CallInstruction
	for _, f := range p.SrcFuncs() {
		for _, b := range f.Blocks {
			for _, in := range b.Instrs {
				if ci, ok := in.(ssa.CallInstruction); ok && StaticCallee(ci.Common()) == fn {
					out = append(out, ci)
				}
			}
		}
	}
	return out
}

// OptionArgs resolves the options passed at a variadic-options call site into
// field -> (option constructor call) using SummOption. unknown lists elements that are not
// direct calls of an option constructor.
type OptionUse struct {
	Call  *ssa.Call
	Summ  *OptionSummary
	Field string
	Arg   ssa.Value // the constructor argument feeding the field (nil if none)
}

func OptionUses(elems []ssa.Value) (uses []OptionUse, unknown []ssa.Value) {
	for _, e := range elems {
		c, ok := stripConvKeepIface(e).(*ssa.Call)
		if !ok {
			unknown = append(unknown, e)
			continue
		}
		s := SummOption(StaticCallee(&c.Call))
		if s == nil {
			unknown = append(unknown, e)
			continue
		}
		for _, w := range s.Writes {
			u := OptionUse{Call: c, Summ: s, Field: w.Field}
			if w.Param >= 0 && w.Param < len(c.Call.Args) {
				u.Arg = c.Call.Args[w.Param]
			}
			uses = append(uses, u)
		}
		if len(s.Writes) == 0 {
			unknown = append(unknown, e)
		}
	}
	return
}

// FlagReg is one cobra/pflag registration binding a CLI flag to a struct field.
type FlagReg struct {
	Field   *types.Var
	Name    string
	Default constant.Value
	Method  string
	Call    *ssa.Call
}

var flagCache []FlagReg
var flagDone bool

// FlagTable lists every (*pflag.FlagSet).XxxVar[P](&o.field, "name", [short,] default, usage) in the repo.
func (p *Prog) FlagTable() []FlagReg {
	if flagDone {
		return flagCache
	}
	flagDone = true
	for _, fn := range p.SrcFuncs() {
		for _, b := range fn.Blocks {
			for _, in := range b.Instrs {
				c, ok := in.(*ssa.Call)
				if !ok {
					continue
				}
				f := c.Call.StaticCallee()
				if f == nil || f.Signature.Recv() == nil || f.Pkg == nil || !strings.HasSuffix(f.Pkg.Pkg.Path(), "spf13/pflag") {
					continue
				}
				m := f.Name()
				if !strings.HasSuffix(m, "Var") && !strings.HasSuffix(m, "VarP") {
					continue
				}
				args := c.Call.Args
				if len(args) < 4 {
					continue
				}
				name, ok := constString(args[2])
				if !ok {
					continue
				}
				di := 3
				if strings.HasSuffix(m, "VarP") {
					di = 4
				}
				var def constant.Value
				if k, ok := stripConv(args[di]).(*ssa.Const); ok {
					def = k.Value
				}
				switch tgt := args[1].(type) {
				case *ssa.FieldAddr:
					flagCache = append(flagCache, FlagReg{Field: fieldObj(tgt), Name: name, Default: def, Method: m, Call: c})
				case *ssa.Parameter:
					// registration helper: the target is the field address passed by each caller
					idx := paramIndex(fn, tgt)
					for _, cs := range p.CallSites(fn) {
						if idx >= 0 && idx < len(cs.Common().Args) {
							if fa, ok := cs.Common().Args[idx].(*ssa.FieldAddr); ok {
								flagCache = append(flagCache, FlagReg{Field: fieldObj(fa), Name: name, Default: def, Method: m, Call: c})
							}
						}
					}
				}
			}
		}
	}
	return flagCache
}

// FlagsOfField returns the registrations whose target is the given struct field.
func (p *Prog) FlagsOfField(f *types.Var) []FlagReg {
	var out []FlagReg
	for _, r := range p.FlagTable() {
		if r.Field == f {
			out = append(out, r)
		}
	}
	return out
}

// fieldVarOfLoad returns the struct field object loaded by v (`x.f`), following embedded promotion.
func fieldVarOfLoad(v ssa.Value) *types.Var {
	switch t := v.(type) {
	case *ssa.UnOp:
		if t.Op == token.MUL {
			if fa, ok := t.X.(*ssa.FieldAddr); ok {
				return fieldObj(fa)
			}
		}
	case *ssa.Field:
		tt := t.X.Type()
		if st, ok := tt.Underlying().(*types.Struct); ok && t.Field < st.NumFields() {
			return st.Field(t.Field)
		}
	}
	return nil
}

// checkFlagFieldsReadOnly: an options field bound to a CLI flag holds what the user wrote - the only
// writer is the flag library. A store by repository code (trimming, rounding, "normalising" the value
// between registration and use) silently changes the request.
func checkFlagFieldsReadOnly(p *Prog, r *Report, rule string, want func(fr FlagReg) bool) int {
	n := 0
	seen := map[string]bool{}
	for _, fr := range p.FlagTable() {
		if fr.Field == nil || !want(fr) {
			continue
		}
		key := "flag --" + fr.Name + "/" + fr.Field.Name() + "/written-only-by-flag-parsing@" + FuncName(fr.Call.Parent())
		if seen[key] {
			continue
		}
		seen[key] = true
		n++
		stores := p.StoresToField(fr.Field)
		why := ""
		if len(stores) > 0 {
			why = fmt.Sprintf("%d store(s) by repository code, e.g. value %s in %s", len(stores), (*Seg)(nil).term(stores[0], 0), storeParent(stores[0]))
		}
		r.Check(len(stores) == 0, rule, key, p.Pos(fr.Call.Pos()), "the options field bound to --"+fr.Name+" is written only by flag parsing (the value used is the value the user wrote)", why)
	}
	return n
}

func storeParent(v ssa.Value) string {
	if in, ok := v.(ssa.Instruction); ok && in.Parent() != nil {
		return FuncName(in.Parent())
	}
	return "?"
}

// checkEveryOptionParsed: a parseRawOptions method derives every option it is responsible for on every
// path that does not fail. For each derivation in the method - a store into a field of the receiver, or a
// call of another parseRawOptions (delegation to the embedded options) - let G be the closest enclosing
// `if` that is not an error test (the "was the option given" guard). A returning path whose error may be
// nil must either perform the derivation or have evaluated G (and so skipped it because the option was not
// given); a derivation without such a guard must be on every non-failing path. A `return` that leaves the
// method from inside another option's block (`return err` with err == nil) skips every later option: the
// flags behind them are silently ignored.
func checkEveryOptionParsed(p *Prog, r *Report, rule string, want func(field string) bool) int {
	n := 0
	for _, fn := range p.SrcFuncs() {
		if fn.Pkg != p.SPkg("command") || fn.Name() != "parseRawOptions" || fn.Signature.Recv() == nil || len(fn.Params) == 0 {
			continue
		}
		recv := fn.Params[0]
		rootedAtRecv := func(v ssa.Value) bool {
			for i := 0; i < 8; i++ {
				switch t := v.(type) {
				case *ssa.FieldAddr:
					v = t.X
				case *ssa.Parameter:
					return t == recv
				case *ssa.UnOp:
					// the receiver spilled into a cell because a closure captures it
					a, isA := t.X.(*ssa.Alloc)
					if !isA || t.Op != token.MUL {
						return false
					}
					for _, ref := range *a.Referrers() {
						if st, isS := ref.(*ssa.Store); isS && st.Addr == ssa.Value(a) {
							return st.Val == ssa.Value(recv)
						}
					}
					return false
				default:
					return false
				}
			}
			return false
		}
		type deriv struct {
			in    ssa.Instruction
			label string
		}
		var ds []deriv
		for _, b := range fn.Blocks {
			for _, in := range b.Instrs {
				switch t := in.(type) {
				case *ssa.Store:
					if fa, ok := t.Addr.(*ssa.FieldAddr); ok && rootedAtRecv(fa) {
						f := fieldName(fa.X.Type(), fa.Field)
						if want(f) {
							ds = append(ds, deriv{t, f})
						}
					}
				case *ssa.Call:
					if g := StaticCallee(&t.Call); g != nil && g != fn && g.Name() == "parseRawOptions" && g.Signature.Recv() != nil {
						ds = append(ds, deriv{t, "embedded " + recvNamed(g).Obj().Name()})
						continue
					}
					// a helper that fills options fields through pointers: parseX(raw, &o.field, ...)
					for _, a := range t.Call.Args {
						if fa, ok := a.(*ssa.FieldAddr); ok && rootedAtRecv(fa) {
							f := fieldName(fa.X.Type(), fa.Field)
							if want(f) {
								ds = append(ds, deriv{t, f})
							}
						}
					}
				}
			}
		}
		if len(ds) == 0 {
			continue
		}
		fp := Paths(fn)
		name := FuncName(fn)
		pos := p.Pos(fn.Pos())
		if fp.Truncated || len(fp.Headers) > 0 {
			r.Undecided(rule, name+"/every-option-parsed", pos, "the paths of the option parser can be enumerated", "loop / too many paths")
			continue
		}
		isErrTest := func(cond ssa.Value) bool {
			bo, ok := cond.(*ssa.BinOp)
			return ok && (isErrorType(bo.X.Type()) || isErrorType(bo.Y.Type()))
		}
		// closest non-error guard: walk the dominator chain
		guardOf := func(in ssa.Instruction) *ssa.BasicBlock {
			b := in.Block()
			for d := b.Idom(); d != nil; d = d.Idom() {
				iff, ok := d.Instrs[len(d.Instrs)-1].(*ssa.If)
				if !ok || len(d.Succs) != 2 {
					continue
				}
				d0 := d.Succs[0] == b || d.Succs[0].Dominates(b)
				d1 := d.Succs[1] == b || d.Succs[1].Dominates(b)
				if d0 == d1 {
					continue // both or neither: b is not inside this if
				}
				if len(d.Succs[0].Preds) > 1 && d0 || len(d.Succs[1].Preds) > 1 && d1 {
					continue // the successor is a join, not the body
				}
				if isErrTest(iff.Cond) {
					continue
				}
				return d
			}
			return nil
		}
		seen := map[string]bool{}
		for _, d := range ds {
			key := name + "/parses-" + d.label
			if seen[key] {
				continue
			}
			ok, why := true, ""
			var path []string
			// all derivations with this label (several stores of the same field count as alternatives)
			var same []deriv
			for _, e := range ds {
				if e.label == d.label {
					same = append(same, e)
				}
			}
			seen[key] = true
			n++
			for _, s := range fp.Segs {
				if !s.Returns() || retClass(s) == retFail {
					continue
				}
				done, evaluated, unguarded := false, false, false
				for _, e := range same {
					if s.Has(e.in) {
						done = true
					}
					g := guardOf(e.in)
					if g == nil {
						unguarded = true
						continue
					}
					for _, b := range s.Blocks {
						if b == g {
							evaluated = true
						}
					}
				}
				if done || (evaluated && !unguarded) {
					continue
				}
				ok = false
				if unguarded {
					why = "a path that may return a nil error does not perform this unconditional step"
				} else {
					why = "a path that may return a nil error leaves the method before the `was the option given` test of this option is evaluated: the flag is ignored on that option combination"
				}
				path = s.Describe(p)
			}
			r.Check(ok, rule, key, pos, "every non-failing path derives this option or has evaluated its guard", why, path...)
		}
	}
	return n
}
