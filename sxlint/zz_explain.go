package main

// Additions to the per-property explanations for the rules that were added after the seeded-change
// batches 4 and 5 (kept here so that the rule files stay readable; init order: this file sorts last).

func addExplanation(id, text string, notDecided ...string) {
	d := props[id]
	if d == nil {
		panic("zz_explain: unknown property " + id)
	}
	d.Explanation += " " + text
	d.NotDecided = append(d.NotDecided, notDecided...)
}

func init() {
	addExplanation("C01", "(R3, address-only family) the icmp builder scans the subnet argument without a target file and the file's addresses with one.")
	addExplanation("C02", "(R4) every accepting return of the exclusion stage hands out the channel made and filtered there (a bypass only where the container is known nil); (R6) direct connections: no use of net/http's ambient client, transport or proxy helpers, every http.Transport is allocated in the repository without Proxy or dial hooks and every http.Client gets one, so the TCP peer of an application probe is the target itself.",
		"what a dialled address resolves to in the kernel (routing, NAT)")
	addExplanation("C03", "(R9) every captured frame reaches the processor exactly once (C20.R1/R2 re-evaluated) and reading is never charged to the send-rate limiter (C15.R3 re-evaluated).")
	addExplanation("C05", "(R2, options-last) a filler constructor writes no option-settable field after the option loop; (R3, additions) every value option of the filler package is passed by the options builder, on every path or left out only for the flag's not-given value / the filler's own default; the option fields bound to the probe-shaping flags are written only by flag parsing; (R1, addition) the source address handed to the fillers is a 4-byte address (C17.R1 re-evaluated).")
	addExplanation("C06", "(R5) the receiver's per-frame contract (C20.R1/R2) and exactly one goroutine handing frames to a processor; (R6) the result queue's close discipline (C12.R1): Put inside ProcessPacketData cannot send on a closed channel.")
	addExplanation("C08", "(R3, additions) records go to the logger's own output and result writers keep no state between records; (R6) the error logger does not sample (zap configuration with Sampling == nil, no sampling constructor anywhere): every error handed to Logger.Error becomes a record.",
		"what zap does with an entry once sampling is off (encoder, stderr sink)")
	addExplanation("C09", "(R3, additions) the deadline wrapper is loop-free with one raw operation per call; every scanner's dialer is allocated in its constructor.")
	addExplanation("C10", "(R5) rendering is total: String, ID and MarshalJSON of the elastic and docker records contain no unchecked type assertion, indexing or slicing.")
	addExplanation("C11", "(R2, addition) no deferred literal on the way from the option parser to FillCache replaces the loader's error; (R4, addition) fillers keep no link-layer state between calls (C07.R5 re-evaluated): the MAC resolved for a request is the MAC of that request's frame.")
	addExplanation("C12", "(R3, additions) the engines close both channels on every early path (C08.R2 re-evaluated) and the SOCKS5 watchdog lives as long as the protocol I/O (C09.R4 re-evaluated).")
	addExplanation("C13", "(R1, additions) both target-file readers are bufio.Scanner loops (any other loop decoding target lines is undecided); the address x port generator builds each request afresh (C01.R6 pair clause).")
	addExplanation("C14", "(R1, additions) result writers are stateless, records go to the logger's own output, the result queue forwards in order (C08.R3 copier clause); (R5, wiring) the unique logger forwards only the de-duplicated stream and the arp command's logger is the unique logger whenever the live timeout is set; (R6) --json selects the JSON writer in every logger builder and it is the last option touching the result writer.")
	addExplanation("C15", "(R4, addition) the limiter takes no option besides Per(window) / WithoutSlack; (R7) one limiter charge opens no connection in a loop and the SOCKS5 probe dials at most once per path.")
	addExplanation("C17", "(R7) the fields parseRawOptions derives from the command line are read only after it ran (a parseRawOptions call dominates every call that transitively loads one), in all 11 commands; the interface / source flags' fields are written only by flag parsing.")
	addExplanation("C18", "(R4, additions) every flag-bound options field (39) is written only by flag parsing; parsed IP flags and payload reach the filler on every path (C05.R3 always-applied clause).")
	addExplanation("C19", "(R3, addition) the --live field is written only by flag parsing (the rescan interval is the written value).")
	addExplanation("C02", "(R7) the generators hand over addresses and requests whose storage they never write again (freshness of handed-over values: created in the same iteration or never written in the loop).")
	addExplanation("C06", "(R7) what the processors put on the result queue shares nothing with the decoder state they overwrite for the next frame (freshness rule).")
	addExplanation("C13", "(R1, additions) stages hand over freshly built requests, frames and error carriers (freshness rule); no line reader lowers bufio.Scanner's 64 KiB limit.")
	addExplanation("C01", "(R10) fillers keep nothing between calls (C07.R5) and exactly the configured number of probe workers is started (C08.R2 worker-count clause).")
	addExplanation("C04", "(R7) range sizes and group elements stay in 64-bit integers or big.Int: no narrowing conversion and no product of two int64 variables in the iterator, its constructor and their helpers.")
	addExplanation("C07", "(R4, addition) stage constructors store their integer parameters unchanged; (R5, addition) no mutable package-level state in the pipeline packages.")
	addExplanation("C08", "(R7) the error drain of the engine caller logs every received error once and ends only when the engine closes its error channel.")
	addExplanation("C09", "(R3, addition) no mutable package-level state in the probe package.")
	addExplanation("C10", "(R4, additions) no mutable package-level state in the probe packages; transports, clients and TLS configurations set only the reviewed fields.")
	addExplanation("C11", "(R2, addition) no line reader lowers bufio.Scanner's 64 KiB limit.")
	addExplanation("C12", "(R2, addition) a WaitGroup kept in a struct field joins the goroutines that signal the same field; (R3, addition) the receive loop carries no state between iterations (C20.R1).")
	addExplanation("C15", "(R6, addition) the folded window-prefix obligation must be present (a unit table is not modelled).")
	addExplanation("C17", "(R7, addition) option parsing starts no goroutine.")
	addExplanation("C18", "(R4, addition) option parsing starts no goroutine.")
	addExplanation("C20", "(R3, closed classes) the transient class holds only would-block / timeout / interruption / reset, the fatal class only closed-or-broken-socket errors (oracle table in the rule); (R4) every ReadPacketData that delegates returns exactly its delegate's three results, and the rate-limit adapter declares no reader of its own.")
	// batch 7 (library-contract misuse, sibling drift)
	addExplanation("C01", "(R10, additions) the sender writes each built frame once and before its buffer returns to the pool (C07.R1/R2 sender clauses); (R11) the exclusion stage is wired into every target mode of every scan type and drops exactly the covered addresses (C02.R3/R4 re-evaluated).")
	addExplanation("C02", "(R2, addition) a target argument that is present is always handed to the IPv4-only parser: in every function of package command that parses an element of its []string parameter, a returning path without the parser call fails or is taken only with an empty argument list; (R8) generated addresses lie inside the subnet: masked base, exact size, fixed 4-byte rendering (C01.R5 re-evaluated).")
	addExplanation("C03", "(R6, addition) every gopacket parser built in pkg/scan has IgnoreUnsupported stored true on every path from NewDecodingLayerParser to the return of the function that built it: replies carrying bytes behind the transport header still decode.")
	addExplanation("C07", "(R7) the stages between generator and builders forward every request, failed ones included, exactly once (C13.R3 decorator clauses).")
	addExplanation("C08", "(R8) no de-duplicating logger is reachable from a socks / docker / elastic command.")
	addExplanation("C11", "(R1, addition) the arp command's logger gets the JSON writer exactly when --json is set on every option combination (C14.R6 re-evaluated).")
	addExplanation("C12", "(R3, additions) the SOCKS5 connect is DialContext on the scan's context and every HTTP request of the docker / elastic probes carries a context derived from it (C09.R2 dial clause, C10.R3 request clauses); (R5) every Scanner.Scan returns, whenever its error may be nil, nil or a freshly allocated record - never an interface around a possibly nil pointer.")
	addExplanation("C17", "(R7, addition) the parse step a command calls reaches the derivation of every derived options field the command goes on to read: a parseRawOptions that shadows the embedded one without delegating to it is reported.")
	addExplanation("C18", "(R8) ip.ParseIPNet accepts IPv4 hosts and IPv4 CIDR blocks only (C02.R1 typestate) and --ports with --ports-file denotes the union of both in either option family (C01.R9).")
	// refactoring batch 6
	addExplanation("C17", "(R5, addition) the default route is chosen among all IPv4 routes: the route-list call passes family AF_INET and no link / route filter (RouteList(nil, FAMILY_V4) or its definition RouteListFiltered(FAMILY_V4, nil, mask)).")
	addExplanation("C15", "(R1, addition) a one-block function whose only call is limiter.Take() is a charge helper: its callers are the limiter wrappers and a call of it counts as the Take that must precede the delegate call exactly once.")
	addExplanation("C12", "(R1, addition) a function whose make(chan) is only returned is a channel factory: close / send / receive discipline is decided per call site of the factory.")
	addExplanation("C09", "(R3, addition) the deadline wrapper's connection is its field of type net.Conn, named or embedded; (R4, addition) the watchdog's stop signal is a channel closed by defer or a root context (context.WithCancel(context.Background())) cancelled by defer.")
}
