package main

import (
	"go/constant"
	"go/token"
	"go/types"
	"runtime/debug"
	"sort"
	"strings"

	"golang.org/x/tools/go/ssa"
)

func stack() string { return string(debug.Stack()) }

// LookupIface finds a named interface type by import path and name among loaded packages
// (repo packages or their direct imports).
func (p *Prog) LookupType(pkgPath, name string) types.Type {
	for _, pk := range p.All {
		if pk.PkgPath == pkgPath {
			if o := pk.Types.Scope().Lookup(name); o != nil {
				return o.Type()
			}
		}
		for ip, imp := range pk.Imports {
			if ip == pkgPath && imp.Types != nil {
				if o := imp.Types.Scope().Lookup(name); o != nil {
					return o.Type()
				}
			}
		}
	}
	return nil
}

// Implementers returns, for every named non-interface type declared in the repository whose
// (pointer) method set implements the interface, the SSA function of method `method`.
func (p *Prog) Implementers(ifacePkg, ifaceName, method string) []*ssa.Function {
	it := p.LookupType(ifacePkg, ifaceName)
	if it == nil {
		return nil
	}
	iface, ok := it.Underlying().(*types.Interface)
	if !ok {
		return nil
	}
	var out []*ssa.Function
	seen := map[*ssa.Function]bool{}
	for _, path := range p.pkgPaths() {
		sp := p.SSAPkg[path]
		var names []string
		for n := range sp.Members {
			names = append(names, n)
		}
		sort.Strings(names)
		for _, n := range names {
			tm, ok := sp.Members[n].(*ssa.Type)
			if !ok {
				continue
			}
			if _, isI := tm.Type().Underlying().(*types.Interface); isI {
				continue
			}
			for _, T := range []types.Type{tm.Type(), types.NewPointer(tm.Type())} {
				if !types.Implements(T, iface) {
					continue
				}
				sel := p.SSA.MethodSets.MethodSet(T).Lookup(sp.Pkg, method)
				if sel == nil {
					// exported method: package argument irrelevant
					sel = p.SSA.MethodSets.MethodSet(T).Lookup(nil, method)
				}
				if sel == nil {
					continue
				}
				fn := p.SSA.MethodValue(sel)
				if fn == nil || seen[fn] {
					continue
				}
				// promoted through an embedded interface/struct: synthetic wrapper, skip
				if fn.Synthetic != "" {
					continue
				}
				// a hand-written forwarder - `func (m *T) M(a, b) R { return m.inner.M(a, b) }` - is what the
				// compiler generates for a promoted method: the implementation is the delegate's
				if isPlainForwarder(fn, method) {
					continue
				}
				seen[fn] = true
				out = append(out, fn)
				break
			}
		}
	}
	return out
}

// GoClosures returns the functions started with `go` inside fn (closure literals or named).
func GoClosures(fn *ssa.Function) []*ssa.Function {
	var out []*ssa.Function
	for _, b := range fn.Blocks {
		for _, in := range b.Instrs {
			if g, ok := in.(*ssa.Go); ok {
				if f := StaticCallee(&g.Call); f != nil {
					out = append(out, f)
				}
			}
		}
	}
	return out
}

// constInt returns the integer value of an SSA constant.
func constInt(v ssa.Value) (int64, bool) {
	for {
		switch t := v.(type) {
		case *ssa.Convert:
			v = t.X
			continue
		case *ssa.ChangeType:
			v = t.X
			continue
		}
		break
	}
	c, ok := v.(*ssa.Const)
	if !ok || c.Value == nil {
		return 0, false
	}
	if c.Value.Kind() != constant.Int {
		return 0, false
	}
	return constant.Int64Val(c.Value)
}

func constString(v ssa.Value) (string, bool) {
	c, ok := v.(*ssa.Const)
	if !ok || c.Value == nil || c.Value.Kind() != constant.String {
		return "", false
	}
	return constant.StringVal(c.Value), true
}

func constBool(v ssa.Value) (bool, bool) {
	c, ok := v.(*ssa.Const)
	if !ok || c.Value == nil || c.Value.Kind() != constant.Bool {
		return false, false
	}
	return constant.BoolVal(c.Value), true
}

// stripConv removes value-preserving wrappers.
func stripConv(v ssa.Value) ssa.Value {
	for {
		switch t := v.(type) {
		case *ssa.ChangeType:
			v = t.X
		case *ssa.ChangeInterface:
			v = t.X
		case *ssa.MakeInterface:
			v = t.X
		case *ssa.Convert:
			v = t.X
		default:
			return v
		}
	}
}

// globalOfLoad returns the package-level variable loaded by v (`*g`).
func globalOfLoad(v ssa.Value) *ssa.Global {
	if u, ok := v.(*ssa.UnOp); ok && u.Op == token.MUL {
		if g, ok := u.X.(*ssa.Global); ok {
			return g
		}
	}
	return nil
}

func globalName(g *ssa.Global) string {
	return g.Pkg.Pkg.Path() + "." + g.Name()
}

// namedConstName finds the declared name of a typed constant value (e.g. syscall.EAGAIN)
// by scanning the scope of the constant's type's package.
func namedConstName(c *ssa.Const) string {
	n, ok := c.Type().(*types.Named)
	if !ok || n.Obj().Pkg() == nil || c.Value == nil {
		return ""
	}
	sc := n.Obj().Pkg().Scope()
	var hits []string
	for _, name := range sc.Names() {
		if k, ok := sc.Lookup(name).(*types.Const); ok && types.Identical(k.Type(), c.Type()) && constant.Compare(k.Val(), token.EQL, c.Value) {
			hits = append(hits, n.Obj().Pkg().Path()+"."+name)
		}
	}
	sort.Strings(hits)
	return strings.Join(hits, "|")
}

// calleeFull returns the full name of a static callee or interface method of a call.
func calleeFull(c *ssa.CallCommon) string {
	if m := IfaceMethod(c); m != nil {
		return ifaceMethodName(m)
	}
	if f := StaticCallee(c); f != nil {
		if f.Object() != nil {
			return objFullName(f.Object())
		}
		return f.String()
	}
	return ""
}

// loopHeadersSorted returns loop headers of fn in block order.
func loopHeadersSorted(fn *ssa.Function) []*ssa.BasicBlock {
	h := LoopHeaders(fn)
	var out []*ssa.BasicBlock
	for _, b := range fn.Blocks {
		if h[b] {
			out = append(out, b)
		}
	}
	return out
}

// inLoop reports whether block b belongs to the natural loop of header h.
func loopBlocks(h *ssa.BasicBlock) map[*ssa.BasicBlock]bool {
	in := map[*ssa.BasicBlock]bool{h: true}
	var work []*ssa.BasicBlock
	for _, p := range h.Preds {
		if h.Dominates(p) {
			if !in[p] {
				in[p] = true
				work = append(work, p)
			}
		}
	}
	for len(work) > 0 {
		b := work[len(work)-1]
		work = work[:len(work)-1]
		for _, p := range b.Preds {
			if !in[p] {
				in[p] = true
				work = append(work, p)
			}
		}
	}
	return in
}

func segDesc(p *Prog, s *Seg) []string { return s.Describe(p) }

// recvTypeName returns the name of the receiver's named type of a method ("" for functions).
func recvTypeName(fn *ssa.Function) string {
	if fn.Signature.Recv() == nil {
		return ""
	}
	t := fn.Signature.Recv().Type()
	if pt, ok := t.(*types.Pointer); ok {
		t = pt.Elem()
	}
	if n, ok := t.(*types.Named); ok {
		return n.Obj().Name()
	}
	return ""
}

// isPlainForwarder: fn consists of one call of the same-named method on a field of its receiver, with its own
// parameters in order, whose results it returns unchanged; nothing else happens.
func isPlainForwarder(fn *ssa.Function, method string) bool {
	if len(fn.Blocks) != 1 || len(fn.Params) == 0 {
		return false
	}
	var call *ssa.Call
	var spill *ssa.Alloc // a value receiver spilled into a local: `t0 = local T (e); *t0 = e`
	for _, in := range fn.Blocks[0].Instrs {
		switch t := in.(type) {
		case *ssa.FieldAddr, *ssa.Field, *ssa.UnOp, *ssa.Extract, *ssa.DebugRef, *ssa.Return:
		case *ssa.Alloc:
			if spill != nil || t.Heap {
				return false
			}
			spill = t
		case *ssa.Store:
			if spill == nil || t.Addr != ssa.Value(spill) || t.Val != ssa.Value(fn.Params[0]) {
				return false
			}
		case *ssa.Call:
			if call != nil {
				return false
			}
			call = t
		default:
			return false
		}
	}
	if call == nil {
		return false
	}
	var recv ssa.Value
	args := call.Call.Args
	if call.Call.IsInvoke() {
		if call.Call.Method.Name() != method {
			return false
		}
		// the delegate is one of the repository's own interfaces (its implementations are analysed themselves)
		if n, isN := call.Call.Value.Type().(*types.Named); !isN || n.Obj().Pkg() == nil || !IsRepoPkg(n.Obj().Pkg()) {
			return false
		}
		recv = call.Call.Value
	} else {
		f := call.Call.StaticCallee()
		if f == nil || f.Name() != method || f.Signature.Recv() == nil || len(args) == 0 || f.Pkg == nil || !IsRepoPkg(f.Pkg.Pkg) {
			return false
		}
		recv, args = args[0], args[1:]
	}
	// the receiver of the inner call is a field of fn's receiver
	rooted := false
	v := recv
	for i := 0; i < 4; i++ {
		switch t := v.(type) {
		case *ssa.UnOp:
			v = t.X
			continue
		case *ssa.FieldAddr:
			if t.X == ssa.Value(fn.Params[0]) || (spill != nil && t.X == ssa.Value(spill)) {
				rooted = true
			}
			v = t.X
			continue
		case *ssa.Field:
			if t.X == ssa.Value(fn.Params[0]) {
				rooted = true // value receiver
			}
			v = t.X
			continue
		}
		break
	}
	if !rooted || len(args) != len(fn.Params)-1 {
		return false
	}
	for i, a := range args {
		if a != ssa.Value(fn.Params[i+1]) {
			return false
		}
	}
	ret, ok := fn.Blocks[0].Instrs[len(fn.Blocks[0].Instrs)-1].(*ssa.Return)
	if !ok {
		return false
	}
	for i, rv := range ret.Results {
		if rv == ssa.Value(call) && len(ret.Results) == 1 {
			continue
		}
		ex, isEx := rv.(*ssa.Extract)
		if !isEx || ex.Tuple != ssa.Value(call) || ex.Index != i {
			return false
		}
	}
	return true
}

// methodArgs returns the arguments of a method call without the receiver (for a static call of a method the
// receiver is the first SSA argument, for an interface call it is not among them).
func methodArgs(c *ssa.CallCommon) []ssa.Value {
	if !c.IsInvoke() {
		if f := c.StaticCallee(); f != nil && f.Signature.Recv() != nil && len(c.Args) > 0 {
			return c.Args[1:]
		}
	}
	return c.Args
}
