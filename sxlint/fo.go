package main

// FO-lite: folding of small pure predicates over the finite set of atoms they test.

import (
	"go/token"
	"go/types"
	"sort"
	"strings"

	"golang.org/x/tools/go/ssa"
)

// errAtom renders a boolean SSA value that tests an error against a constant/global/predicate.
// rel: "is" (errors.Is), "eq" (==), "contains" (strings.Contains(err.Error(), lit)),
// "timeout" (net.Error.Timeout()), "assert" (type assertion ok). name: what it is tested against.
func errAtom(s *Seg, v ssa.Value) (rel, name string, ok bool) {
	v = s.Resolve(v)
	switch t := v.(type) {
	case *ssa.Call:
		switch calleeFull(&t.Call) {
		case "errors.Is":
			if len(t.Call.Args) == 2 {
				return "is", errName(t.Call.Args[1]), true
			}
		case "strings.Contains":
			if len(t.Call.Args) == 2 {
				if lit, ok := constString(t.Call.Args[1]); ok {
					return "contains", lit, true
				}
			}
		case "net.Error.Timeout":
			return "timeout", "net.Error.Timeout", true
		}
		if m := IfaceMethod(&t.Call); m != nil && m.Name() == "Timeout" {
			return "timeout", "net.Error.Timeout", true
		}
		if m := IfaceMethod(&t.Call); m != nil && m.Name() == "Temporary" {
			return "temporary", "net.Error.Temporary", true
		}
	case *ssa.BinOp:
		// strings.Index(err.Error(), lit) != -1 / >= 0 / > -1  ==  strings.Contains(err.Error(), lit)
		if c, isC := s.Resolve(t.X).(*ssa.Call); isC && (calleeFull(&c.Call) == "strings.Index" || calleeFull(&c.Call) == "strings.LastIndex") && len(c.Call.Args) == 2 {
			if lit, isL := constString(c.Call.Args[1]); isL {
				if k, isK := constInt(t.Y); isK {
					if (t.Op == token.NEQ && k == -1) || (t.Op == token.GEQ && k == 0) || (t.Op == token.GTR && k == -1) {
						return "contains", lit, true
					}
				}
			}
		}
		if t.Op == token.EQL {
			// err == T[i] inside a range loop over a package-level table of errors: the atom is the
			// disjunction of the table's members
			for _, side := range []ssa.Value{t.X, t.Y} {
				if names, isT := tableElemNames(s, side); isT {
					return "eq", strings.Join(names, "|"), true
				}
			}
			if n := errName(t.Y); n != "" {
				return "eq", n, true
			}
			if n := errName(t.X); n != "" {
				return "eq", n, true
			}
		}
	case *ssa.Extract:
		if ta, ok := t.Tuple.(*ssa.TypeAssert); ok && t.Index == 1 {
			return "assert", ta.AssertedType.String(), true
		}
	}
	return "", "", false
}

// errName names an error operand: a loaded package-level variable or a named typed constant.
func errName(v ssa.Value) string {
	if g := globalOfLoad(v); g != nil {
		return globalName(g)
	}
	v2 := stripConv(v)
	if c, ok := v2.(*ssa.Const); ok && c.Value != nil {
		return namedConstName(c)
	}
	return ""
}

// PredTable is the set of atoms under which a pure bool predicate returns true.
type PredTable struct {
	Accept    map[string]string // name -> relation
	Undecided string
}

// FoldErrPredicate folds a predicate func(error) bool over its atoms: every path that returns
// true must be selected by exactly one positive atom (besides type assertions).
func FoldErrPredicate(fn *ssa.Function) *PredTable {
	pt := &PredTable{Accept: map[string]string{}}
	fp := Paths(fn)
	if fp.Truncated {
		pt.Undecided = "predicate has too many paths"
		return pt
	}
	// the only loop accepted is a full range over a package-level table (see tableElemNames)
	for h := range fp.Headers {
		if !isFullTableRange(h) {
			pt.Undecided = "predicate has a loop that is not a range over a package-level table"
			return pt
		}
	}
	for _, s := range fp.Segs {
		if s.End != nil {
			continue // back to the table loop's header
		}
		ret, ok := s.Exit.(*ssa.Return)
		if !ok || len(ret.Results) != 1 {
			pt.Undecided = "predicate path does not return one value"
			return pt
		}
		var pos [][2]string
		for _, f := range s.Facts {
			if bo, isB := f.Cond.(*ssa.BinOp); isB && bo.Op == token.LSS {
				if nx, isN := bo.X.(*ssa.BinOp); isN && nx.Op == token.ADD {
					if phi, isP := nx.X.(*ssa.Phi); isP && fp.Headers[phi.Block()] {
						continue // the table loop's own guard
					}
				}
			}
			if rel, name, ok := errAtom(s, f.Cond); ok {
				if f.Truth && rel != "assert" {
					pos = append(pos, [2]string{rel, name})
				}
			} else {
				pt.Undecided = "unrecognised test " + s.Term(f.Cond)
				return pt
			}
		}
		rv := s.Resolve(ret.Results[0])
		if b, isConst := constBool(rv); isConst {
			if !b {
				continue
			}
		} else if rel, name, ok := errAtom(s, rv); ok {
			pos = append(pos, [2]string{rel, name})
		} else {
			pt.Undecided = "unrecognised return value " + s.Term(rv)
			return pt
		}
		if len(pos) != 1 {
			pt.Undecided = "a true-returning path is selected by " + strings.Join(flatten(pos), "&") + " (want exactly one atom)"
			return pt
		}
		pt.Accept[pos[0][1]] = pos[0][0]
	}
	return pt
}

func flatten(p [][2]string) []string {
	var out []string
	for _, x := range p {
		out = append(out, x[0]+":"+x[1])
	}
	sort.Strings(out)
	return out
}

func (pt *PredTable) Has(sub string) bool {
	for k := range pt.Accept {
		for _, alt := range strings.Split(k, "|") {
			if alt == sub {
				return true
			}
		}
	}
	return false
}

func (pt *PredTable) Names() []string {
	var out []string
	for k, rel := range pt.Accept {
		out = append(out, rel+":"+k)
	}
	sort.Strings(out)
	return out
}

// EvalInt evaluates an integer-valued SSA expression under a binding of leaf values.
func EvalInt(s *Seg, v ssa.Value, bind func(ssa.Value) (int64, bool)) (int64, bool) {
	if s != nil {
		v = s.Resolve(v)
	}
	if k, ok := bind(v); ok {
		return k, true
	}
	if k, ok := constInt(v); ok {
		return k, true
	}
	switch t := v.(type) {
	case *ssa.Convert:
		return EvalInt(s, t.X, bind)
	case *ssa.ChangeType:
		return EvalInt(s, t.X, bind)
	case *ssa.BinOp:
		x, ok1 := EvalInt(s, t.X, bind)
		y, ok2 := EvalInt(s, t.Y, bind)
		if !ok1 || !ok2 {
			return 0, false
		}
		switch t.Op {
		case token.ADD:
			return x + y, true
		case token.SUB:
			return x - y, true
		case token.MUL:
			return x * y, true
		}
	}
	return 0, false
}

// EvalCond evaluates a boolean SSA expression built from integer comparisons, !, and
// (through phi resolution on the segment) && / ||, under a binding of leaf values.
func EvalCond(s *Seg, v ssa.Value, bind func(ssa.Value) (int64, bool)) (bool, bool) {
	if s != nil {
		v = s.Resolve(v)
	}
	if b, ok := constBool(v); ok {
		return b, true
	}
	switch t := v.(type) {
	case *ssa.UnOp:
		if t.Op == token.NOT {
			b, ok := EvalCond(s, t.X, bind)
			return !b, ok
		}
	case *ssa.BinOp:
		x, ok1 := EvalInt(s, t.X, bind)
		y, ok2 := EvalInt(s, t.Y, bind)
		if !ok1 || !ok2 {
			return false, false
		}
		switch t.Op {
		case token.EQL:
			return x == y, true
		case token.NEQ:
			return x != y, true
		case token.LSS:
			return x < y, true
		case token.LEQ:
			return x <= y, true
		case token.GTR:
			return x > y, true
		case token.GEQ:
			return x >= y, true
		}
	}
	return false, false
}

// FoldIntPredicate evaluates a loop-free pure predicate func(int-like) bool at a concrete value by
// selecting the segment whose facts are consistent with the binding.
func FoldIntPredicate(fn *ssa.Function, val int64) (result bool, ok bool) {
	fp := Paths(fn)
	if len(fp.Headers) > 0 || fp.Truncated || len(fn.Params) != 1 {
		return false, false
	}
	bind := func(v ssa.Value) (int64, bool) {
		if v == ssa.Value(fn.Params[0]) {
			return val, true
		}
		return 0, false
	}
	found := false
	for _, s := range fp.Segs {
		feasible := true
		for _, f := range s.Facts {
			b, k := EvalCond(s, f.Cond, bind)
			if !k {
				return false, false
			}
			if b != f.Truth {
				feasible = false
			}
		}
		if !feasible {
			continue
		}
		ret, isRet := s.Exit.(*ssa.Return)
		if !isRet || len(ret.Results) != 1 {
			return false, false
		}
		b, k := EvalCond(s, ret.Results[0], bind)
		if !k || found {
			return false, false
		}
		result, found = b, true
	}
	return result, found
}

// tableOfElem: v is `*(&T[i])` (array) for a package-level array T; returns T.
func tableOfElem(v ssa.Value) *ssa.Global {
	// range over an array variable copies it first: t0 = *T ; e = t0[i]
	if ix, ok := v.(*ssa.Index); ok {
		if u, isU := ix.X.(*ssa.UnOp); isU && u.Op == token.MUL {
			if g, isG := u.X.(*ssa.Global); isG {
				return g
			}
		}
		return nil
	}
	u, ok := v.(*ssa.UnOp)
	if !ok || u.Op != token.MUL {
		return nil
	}
	ia, ok := u.X.(*ssa.IndexAddr)
	if !ok {
		return nil
	}
	g, _ := ia.X.(*ssa.Global)
	return g
}

// tableElemNames names the members of the package-level error table T when v is an element of it
// selected by a loop index. The members are read from the package initialiser.
func tableElemNames(s *Seg, v ssa.Value) ([]string, bool) {
	g := tableOfElem(v)
	if g == nil && s != nil {
		g = tableOfElem(s.Resolve(v))
	}
	if g == nil || g.Pkg == nil {
		return nil, false
	}
	at, ok := g.Type().(*types.Pointer).Elem().Underlying().(*types.Array)
	if !ok {
		return nil, false
	}
	init := g.Pkg.Func("init")
	if init == nil {
		return nil, false
	}
	names := make([]string, at.Len())
	for _, b := range init.Blocks {
		for _, in := range b.Instrs {
			st, isSt := in.(*ssa.Store)
			if !isSt {
				continue
			}
			ia, isIA := st.Addr.(*ssa.IndexAddr)
			if !isIA || ia.X != ssa.Value(g) {
				continue
			}
			k, isK := constInt(ia.Index)
			if !isK || k < 0 || k >= at.Len() {
				return nil, false
			}
			n := errName(st.Val)
			if n == "" {
				if mi, isMI := st.Val.(*ssa.MakeInterface); isMI {
					n = errName(mi.X)
				}
			}
			if n == "" {
				return nil, false
			}
			names[k] = n
		}
	}
	for _, n := range names {
		if n == "" {
			return nil, false
		}
	}
	// nobody else writes the table
	return names, true
}

// isFullTableRange: the loop headed by h is go/ssa's rotated range over a package-level array:
// idx = phi(-1, idx') ; idx' = idx + 1 ; continue while idx' < len(array).
func isFullTableRange(h *ssa.BasicBlock) bool {
	for _, in := range h.Instrs {
		phi, ok := in.(*ssa.Phi)
		if !ok {
			continue
		}
		if len(phi.Edges) != 2 {
			continue
		}
		var next *ssa.BinOp
		initM1 := false
		for _, e := range phi.Edges {
			if k, isK := constInt(e); isK && k == -1 {
				initM1 = true
			} else if bo, isB := e.(*ssa.BinOp); isB && bo.Op == token.ADD && bo.X == ssa.Value(phi) {
				if one, isO := constInt(bo.Y); isO && one == 1 {
					next = bo
				}
			}
		}
		if !initM1 || next == nil {
			continue
		}
		// guard next < N and every use of next as an index is into a global array of length N
		var n int64 = -1
		for _, u := range *next.Referrers() {
			if bo, isB := u.(*ssa.BinOp); isB && bo.Op == token.LSS && bo.X == ssa.Value(next) {
				if k, isK := constInt(bo.Y); isK {
					n = k
				}
			}
		}
		if n < 0 {
			continue
		}
		for _, u := range *next.Referrers() {
			var g *ssa.Global
			if ia, isIA := u.(*ssa.IndexAddr); isIA {
				g, _ = ia.X.(*ssa.Global)
			}
			if ix, isIx := u.(*ssa.Index); isIx {
				g = tableOfElem(ix)
			}
			if g != nil {
				if at, isA := g.Type().(*types.Pointer).Elem().Underlying().(*types.Array); isA && at.Len() == n {
					return true
				}
			}
		}
	}
	return false
}
