package main

import (
	"fmt"
	"go/token"
	"go/types"
	"sort"
	"strings"

	"golang.org/x/tools/go/ssa"
)

func init() {
	register(&propDef{
		ID: "C10",
		Explanation: "Static conformance of the Elasticsearch and Docker probes: (R1) the primary request gates the record — a record is returned exactly on the paths where the primary call returned a nil error, always together with a nil error (a record accompanied by an error is dropped by the worker), every other return is a failure, and no error of a later (secondary) call is stored into the returned error; the record's info field is the primary call's result; " +
			"(R2) a body decoded into a map is accepted only when the map is non-nil (JSON null is not an object) and decode errors propagate; (R3) every request runs under context.WithTimeout(ctx, dataTimeout) of the probe's own context with cancel deferred in the function that consumes the response, the default timeout is positive and --timeout feeds it; " +
			"(R4) host is r.DstIP:r.DstPort, the record's scheme is the scanner's scheme field, the same field builds the URL / is given to WithScheme, both copies come from one constructor parameter, and --proto is validated against {http, https} before it reaches the constructor.",
		NotDecided:  []string{"server behaviours and real durations", "net/http and moby client internals (e.g. moby decodes a JSON null /info body into an empty Info without error)"},
		Assumptions: []string{"http.NewRequestWithContext / moby client calls abort when their context expires", "encoding/json decodes null into a nil map without error"},
		Run:         runC10,
	})
}

func runC10(p *Prog, r *Report) {
	r.Min("C10.R1", 6)
	r.Min("C10.R5", 6)
	checkNoGlobalWrites(p, r, "C10.R4", "pkg/scan/elastic", "pkg/scan/docker")
	checkTransportKnobs(p, r)
	checkRenderTotal(p, r)
	r.Min("C10.R2", 1)
	r.Min("C10.R3", 6)
	r.Min("C10.R4", 8)
	n := 0
	for _, f := range p.Implementers(modPath+"/pkg/scan", "Scanner", "Scan") {
		pk := lastElem(f.Pkg.Pkg.Path())
		if pk != "elastic" && pk != "docker" {
			continue
		}
		n++
		checkProbeGate(p, r, f)
		checkProbeRecord(p, r, f)
	}
	if n < 2 {
		r.Viol("C10.R1", "probes", "-", "the elastic and docker scanners are found", fmt.Sprint(n))
	}
	checkJSONObject(p, r)
	checkRequestTimeouts(p, r)
	checkProtoFlag(p, r)
}

// fallibleCalls lists the calls on the segment whose last result is an error, in order.
func fallibleCalls(s *Seg) []*ssa.Call {
	var out []*ssa.Call
	for _, e := range s.Events {
		if e.Kind != EvCall {
			continue
		}
		sig := e.Call.Signature()
		if sig.Results().Len() >= 1 && isErrorType(sig.Results().At(sig.Results().Len()-1).Type()) {
			out = append(out, e.Instr.(*ssa.Call))
		}
	}
	return out
}

func errOf(c *ssa.Call) ssa.Value {
	n := c.Call.Signature().Results().Len()
	if n == 1 {
		return c
	}
	if ex := extractOf(c, n-1); ex != nil {
		return ex
	}
	return nil
}

func checkProbeGate(p *Prog, r *Report, scan *ssa.Function) {
	name := FuncName(scan)
	pos := p.Pos(scan.Pos())
	fp := Paths(scan)
	if len(fp.Headers) > 0 {
		r.Undecided("C10.R1", name, pos, "the probe is loop-free", "loop in Scan")
		return
	}
	// the error result cell
	okRec, whyRec := true, ""
	okMiss, whyMiss := true, ""
	okSec, whySec := true, ""
	nRec := 0
	for _, s := range fp.Segs {
		if !s.Returns() {
			continue
		}
		res := resultStore(s)
		rc := retClass(s)
		calls := fallibleCalls(s)
		if res != nil {
			nRec++
			if rc != retOK {
				okRec, whyRec = false, "a record is returned together with a possibly non-nil error (the worker reports the error and drops the record)"
			}
			// the info field: result #0 of a call whose error is known nil
			v := res
			if mi, ok := v.(*ssa.MakeInterface); ok {
				v = mi.X
			}
			lf := litFields(s, v)
			info := s.Resolve(lf["Info"])
			ex, isEx := info.(*ssa.Extract)
			if !isEx || ex.Index != 0 {
				okRec, whyRec = false, "the record's info is not the primary call's result"
			} else if pc, isC := ex.Tuple.(*ssa.Call); isC {
				ev := errOf(pc)
				if ev == nil {
					okRec, whyRec = false, "the primary call's error is discarded"
				} else if k, isNil := s.NilFact(ev); !k || !isNil {
					okRec, whyRec = false, "a record is built although the primary request may have failed"
				}
				// calls after the primary one are secondary: their error must not reach the error result
				after := false
				for _, c := range calls {
					if c == pc {
						after = true
						continue
					}
					if !after {
						continue
					}
					ev2 := errOf(c)
					if ev2 == nil {
						continue
					}
					for _, e := range s.Events {
						if e.Kind == EvStore && e.Val == ev2 {
							if a, isA := e.Addr.(*ssa.Alloc); isA && isErrorType(a.Type().(*types.Pointer).Elem()) {
								okSec, whySec = false, "the error of the best-effort request "+CalleeName(&c.Call)+" is stored into the returned error: a failing secondary request suppresses the record"
							}
						}
					}
					if k, _ := s.NilFact(ev2); k {
						okSec, whySec = false, "whether the record is produced depends on the outcome of the best-effort request "+CalleeName(&c.Call)
					}
				}
			}
			continue
		}
		// no record: must be a failure, and not the path where every tested call succeeded
		if rc == retOK {
			okMiss, whyMiss = false, "a path returns neither a record nor an error"
		}
		if rc == retUnknown {
			// error cell never written on this path
			okMiss, whyMiss = false, "a path returns no record and an unclassified error"
		}
	}
	r.Check(okRec && nRec > 0, "C10.R1", name+"/gate", pos, "a record is returned only with a nil error, on the path where the primary request succeeded, carrying the primary response", whyRec)
	r.Check(okMiss, "C10.R1", name+"/no-silent-path", pos, "every path without a record returns the failing step's error", whyMiss)
	r.Check(okSec, "C10.R1", name+"/secondary", pos, "a failing best-effort request never suppresses or falsifies the record", whySec)
}

func checkProbeRecord(p *Prog, r *Report, scan *ssa.Function) {
	name := FuncName(scan)
	pos := p.Pos(scan.Pos())
	ok, why := true, ""
	n := 0
	for _, s := range Paths(scan).Segs {
		if !s.Returns() {
			continue
		}
		res := resultStore(s)
		if res == nil {
			continue
		}
		n++
		v := res
		if mi, isMI := v.(*ssa.MakeInterface); isMI {
			v = mi.X
		}
		lf := litFields(s, v)
		// Host is "[tcp://]<r.DstIP>:<r.DstPort>", however the string is assembled
		pieces, okE := strEval(s, lf["Host"], 0)
		if okE && len(pieces) == 4 && pieces[0] == "L:tcp://" {
			pieces = pieces[1:]
		}
		if !okE || len(pieces) != 3 || !strings.HasPrefix(pieces[0], "S:") || !strings.HasSuffix(pieces[0], "r.DstIP") ||
			pieces[1] != "L::" || !strings.HasPrefix(pieces[2], "D:") || !strings.HasSuffix(pieces[2], "r.DstPort") {
			ok, why = false, "Host evaluates to "+strings.Join(pieces, " ")+" ("+sxSeg(s, lf["Host"], 0)+"), expected r.DstIP ':' r.DstPort"
		}
		if e := sxSeg(s, lf["Proto"], 0); e != "s.proto" {
			ok, why = false, "Proto is "+e+", expected the scanner's scheme"
		}
		if st, _ := constString(lf["ScanType"]); st != lastElem(scan.Pkg.Pkg.Path()) {
			ok, why = false, "ScanType is "+st
		}
	}
	r.Check(ok && n > 0, "C10.R4", name+"/record", pos, "the record's host is r.DstIP:r.DstPort and its scheme is the scanner's scheme field", why)
	// the same scheme is used for the requests
	pk := scan.Pkg
	used := false
	detail := ""
	for _, fn := range p.SrcFuncs() {
		if fn.Pkg != pk {
			continue
		}
		for _, b := range fn.Blocks {
			for _, in := range b.Instrs {
				c, isC := in.(*ssa.Call)
				if !isC {
					continue
				}
				// a URL handed to a call: "<scheme field>://..." however the string is assembled
				if fn.Name() != "String" && calleeFull(&c.Call) != "fmt.Sprintf" {
					for _, a := range c.Call.Args {
						if bt, isB := a.Type().Underlying().(*types.Basic); !isB || bt.Info()&types.IsString == 0 {
							continue
						}
						pieces, okE := strEval(nil, a, 0)
						if !okE || len(pieces) < 2 {
							continue
						}
						hasScheme := false
						for _, pc := range pieces {
							if strings.HasPrefix(pc, "L:") && strings.Contains(pc, "://") {
								hasScheme = true
							}
						}
						if !hasScheme || strings.HasPrefix(pieces[0], "L:tcp://") {
							continue // no scheme, or the docker client's tcp:// host (its scheme comes from WithScheme)
						}
						if strings.HasPrefix(pieces[0], "S:") && strings.HasSuffix(pieces[0], ".proto") && strings.HasPrefix(pieces[1], "L:://") {
							used = true
						} else {
							detail = "URL scheme is not the scheme field: " + strings.Join(pieces, " ")
						}
					}
				}
				switch {
				case strings.HasSuffix(calleeFull(&c.Call), "client.WithScheme"):
					if strings.HasSuffix(sx(c.Call.Args[0], 0), "s.proto") {
						used = true
					} else {
						detail = "WithScheme receives " + sx(c.Call.Args[0], 0)
					}
				}
			}
		}
	}
	r.Check(used && detail == "", "C10.R4", lastElem(pk.Pkg.Path())+"/request-scheme", pos, "requests are made over the scanner's scheme field (URL prefix / WithScheme)", detail)
	// every store to a field named proto in the package takes the constructor's parameter
	nst := 0
	okP := true
	for _, fn := range p.SrcFuncs() {
		if fn.Pkg != pk {
			continue
		}
		for _, b := range fn.Blocks {
			for _, in := range b.Instrs {
				st, isS := in.(*ssa.Store)
				if !isS {
					continue
				}
				fa, isF := st.Addr.(*ssa.FieldAddr)
				if !isF || fieldName(fa.X.Type(), fa.Field) != "proto" {
					continue
				}
				nst++
				if prm, isP := st.Val.(*ssa.Parameter); !isP || prm.Parent().Parent() != nil || prm.Name() != "proto" {
					okP = false
				}
			}
		}
	}
	r.Check(okP && nst > 0, "C10.R4", lastElem(pk.Pkg.Path())+"/scheme-source", pos, "every copy of the scheme is the constructor's one proto parameter", fmt.Sprintf("%d stores", nst))
}

// ---- R2 ----

func checkJSONObject(p *Prog, r *Report) {
	n := 0
	for _, fn := range p.SrcFuncs() {
		decs := callInstrs(fn, "(*encoding/json.Decoder).Decode")
		decs = append(decs, callInstrs(fn, "encoding/json.Unmarshal")...)
		if len(decs) == 0 || fn.Pkg == nil || !strings.Contains(fn.Pkg.Pkg.Path(), "/pkg/scan/") {
			continue
		}
		for _, d := range decs {
			// decode target: address of a map cell
			tgt := d.Call.Args[len(d.Call.Args)-1]
			if mi, ok := tgt.(*ssa.MakeInterface); ok {
				tgt = mi.X
			}
			a, ok := tgt.(*ssa.Alloc)
			if !ok {
				continue
			}
			if _, isMap := a.Type().(*types.Pointer).Elem().Underlying().(*types.Map); !isMap {
				continue
			}
			n++
			name := FuncName(fn)
			okN, why := true, ""
			for _, s := range Paths(fn).Segs {
				if !s.Has(d) || !s.Returns() || retClass(s) == retFail {
					continue
				}
				if k, isNil := s.NilFact(d); !k || !isNil {
					okN, why = false, "an accepting path does not test the decode error"
					continue
				}
				// the map is known non-nil
				known := false
				for _, f := range s.Facts {
					bo, isB := f.Cond.(*ssa.BinOp)
					if !isB || (bo.Op != token.EQL && bo.Op != token.NEQ) || !isNilConst(bo.Y) {
						continue
					}
					if u, isU := bo.X.(*ssa.UnOp); isU && u.Op == token.MUL && u.X == ssa.Value(a) && f.Ord > s.ord[d] {
						if (bo.Op == token.EQL) != f.Truth {
							known = true
						}
					}
				}
				if !known {
					okN, why = false, "a body `null` decodes into a nil map without error and is accepted as the JSON object"
				}
			}
			// the decision "JSON object or not" is the decoder's: the body bytes are not inspected elsewhere
			allowed := map[string]bool{"Close": true, "NewDecoder": true, "Decode": true, "LimitReader": true, "MaxBytesReader": true, "NewReader": true, "NewReaderSize": true, "UseNumber": true, "DisallowUnknownFields": true}
			for _, s := range Paths(fn).Segs {
				if !s.Has(d) {
					continue
				}
				taint := map[ssa.Value]bool{}
				isT := func(v ssa.Value) bool {
					v = s.Resolve(v)
					for i := 0; i < 4; i++ {
						switch t := v.(type) {
						case *ssa.ChangeInterface:
							v = s.Resolve(t.X)
							continue
						case *ssa.MakeInterface:
							v = s.Resolve(t.X)
							continue
						}
						break
					}
					if taint[v] {
						return true
					}
					if _, f, isF := fieldLoad(v); isF && f == "Body" {
						return true
					}
					return false
				}
				for _, e := range s.Events {
					if e.Kind != EvCall && e.Kind != EvDefer {
						continue
					}
					touched := false
					for _, a := range e.Call.Args {
						if isT(a) {
							touched = true
						}
					}
					if e.Call.IsInvoke() && isT(e.Call.Value) {
						touched = true
					}
					if !touched {
						continue
					}
					nm := ""
					if m := IfaceMethod(e.Call); m != nil {
						nm = m.Name()
					} else if f := StaticCallee(e.Call); f != nil {
						nm = f.Name()
					}
					if !allowed[nm] {
						okN, why = false, "the response body is read by "+CalleeName(e.Call)+" outside the JSON decoder: what counts as a JSON object is no longer the decoder's decision"
					}
					if e.Val != nil {
						taint[e.Val] = true
					}
				}
			}
			r.Check(okN, "C10.R2", name+"/object", p.Pos(d.Pos()), "a decoded map is accepted only when the decode error is nil and the map is non-nil", why)
		}
	}
	if n == 0 {
		r.Undecided("C10.R2", "json decode", "-", "a probe decodes a response body into a map", "not found")
	}
}

// ---- R3 ----

func checkRequestTimeouts(p *Prog, r *Report) {
	// thin request wrappers of the probe packages: one block, one call - a request whose context is the
	// wrapper's own parameter; a call of the wrapper is then the request
	wrappers := map[*ssa.Function]int{}
	var isRequest func(c *ssa.CallCommon) (string, int)
	isRequest = func(c *ssa.CallCommon) (string, int) {
		if f := StaticCallee(c); f != nil {
			if i, isW := wrappers[f]; isW {
				return FuncName(f), i
			}
		}
		cf := calleeFull(c)
		switch {
		case cf == "net/http.NewRequestWithContext":
			return cf, 0
		case cf == "net/http.NewRequest" || cf == "(*net/http.Client).Get" || cf == "net/http.Get":
			return cf, -1
		case strings.Contains(cf, "moby/moby/client.Client).") || strings.Contains(cf, "docker/docker/client.Client)."):
			if len(c.Args) >= 2 && isContextType(c.Args[1].Type()) {
				return cf, 1
			}
		}
		return "", -2
	}
	for _, fn := range p.SrcFuncs() {
		if fn.Pkg == nil || !(fn.Pkg == p.SPkg("pkg/scan/elastic") || fn.Pkg == p.SPkg("pkg/scan/docker")) || len(fn.Blocks) != 1 {
			continue
		}
		var only *ssa.Call
		nCalls, pure := 0, true
		for _, in := range fn.Blocks[0].Instrs {
			switch t := in.(type) {
			case *ssa.Call:
				nCalls++
				only = t
			case *ssa.Go, *ssa.Defer, *ssa.Send, *ssa.MapUpdate:
				pure = false
			}
		}
		if nCalls != 1 || !pure {
			continue
		}
		if what, ci := isRequest(&only.Call); what != "" && ci >= 0 {
			if prm, isP := only.Call.Args[ci].(*ssa.Parameter); isP {
				if i := paramIndex(fn, prm); i >= 0 {
					wrappers[fn] = i
				}
			}
		}
	}
	n := 0
	for _, fn := range p.SrcFuncs() {
		if fn.Pkg == nil || !(fn.Pkg == p.SPkg("pkg/scan/elastic") || fn.Pkg == p.SPkg("pkg/scan/docker")) {
			continue
		}
		if _, isW := wrappers[fn]; isW {
			continue // represented by its call sites
		}
		k := 0
		for _, b := range fn.Blocks {
			for _, in := range b.Instrs {
				c, ok := in.(*ssa.Call)
				if !ok {
					continue
				}
				what, ci := isRequest(&c.Call)
				if what == "" {
					continue
				}
				n++
				k++
				key := fmt.Sprintf("%s/request#%d", FuncName(fn), k)
				pos := p.Pos(c.Pos())
				if ci < 0 {
					r.Viol("C10.R3", key, pos, "every request carries a deadline context", what+" has no context: a stalled server blocks the worker forever")
					continue
				}
				ctxArg := c.Call.Args[ci]
				ex, isEx := ctxArg.(*ssa.Extract)
				var wt *ssa.Call
				if isEx && ex.Index == 0 {
					if cc, isC := ex.Tuple.(*ssa.Call); isC && (calleeFull(&cc.Call) == "context.WithTimeout" || calleeFull(&cc.Call) == "context.WithDeadline") {
						wt = cc
					}
				}
				if wt == nil || wt.Parent() != fn {
					r.Viol("C10.R3", key, pos, "the request's context is derived by context.WithTimeout in the function that consumes the response", "context is "+sx(ctxArg, 0))
					continue
				}
				ok2, why := true, ""
				if _, isP := wt.Call.Args[0].(*ssa.Parameter); !isP {
					ok2, why = false, "the timeout context is not derived from the probe's context (cancellation is lost)"
				}
				if calleeFull(&wt.Call) == "context.WithTimeout" && !strings.HasSuffix(sx(wt.Call.Args[1], 0), ".dataTimeout") {
					ok2, why = false, "timeout is "+sx(wt.Call.Args[1], 0)+", expected the configured data timeout"
				}
				cancelDeferred := false
				for _, d := range Deferred(fn) {
					if exc, isE := d.Call.Value.(*ssa.Extract); isE && exc.Tuple == ssa.Value(wt) && exc.Index == 1 {
						cancelDeferred = true
					}
					// `defer func() { cancel() }()`: an unconditional call in the entry block of a deferred literal
					if cl := StaticCallee(&d.Call); cl != nil && cl.Parent() == fn && len(cl.Blocks) > 0 {
						for _, in := range cl.Blocks[0].Instrs {
							if c, isC := in.(*ssa.Call); isC {
								for _, o := range p.Origins(c.Call.Value) {
									if exc, isE := o.(*ssa.Extract); isE && exc.Tuple == ssa.Value(wt) && exc.Index == 1 {
										cancelDeferred = true
									}
								}
							}
						}
					}
				}
				if !cancelDeferred {
					ok2, why = false, "cancel is not deferred (the body would be cut off, or the timer leaks)"
				}
				r.Check(ok2, "C10.R3", key, pos, "the request runs under context.WithTimeout(ctx, dataTimeout) with cancel deferred", why)
			}
		}
	}
	if n < 3 {
		r.Viol("C10.R3", "requests", "-", "the probes' requests are found (elastic GET, docker Info, docker ServerVersion)", fmt.Sprint(n))
	}
	// defaults and CLI
	for _, rel := range []string{"pkg/scan/elastic", "pkg/scan/docker"} {
		pk := p.SPkg(rel)
		okD := false
		for _, fn := range p.SrcFuncs() {
			if fn.Pkg != pk || fn.Parent() != nil {
				continue
			}
			for _, b := range fn.Blocks {
				for _, in := range b.Instrs {
					st, ok := in.(*ssa.Store)
					if !ok {
						continue
					}
					if fa, ok := st.Addr.(*ssa.FieldAddr); ok && fieldName(fa.X.Type(), fa.Field) == "dataTimeout" {
						if k, ok := constInt(st.Val); ok && k > 0 {
							okD = true
						}
					}
				}
			}
		}
		r.Check(okD, "C10.R3", lastElem(rel)+"/default-timeout", "-", "the scanner is constructed with a positive default request timeout", "no positive constant default")
		fed := ""
		for _, fn := range p.SrcFuncs() {
			if fn.Pkg != p.SPkg("command") {
				continue
			}
			for _, b := range fn.Blocks {
				for _, in := range b.Instrs {
					c, ok := in.(*ssa.Call)
					if !ok {
						continue
					}
					callee := StaticCallee(&c.Call)
					if callee == nil || callee.Pkg != pk {
						continue
					}
					if s := SummOption(callee); s != nil && len(s.Writes) == 1 && strings.HasSuffix(s.Writes[0].Field, "dataTimeout") && len(c.Call.Args) == 1 {
						fed = flagOfOptionArg(p, c.Call.Args[0])
					}
				}
			}
		}
		r.Check(fed == "timeout", "C10.R3", lastElem(rel)+"/--timeout", "-", "--timeout feeds the per-request timeout", "fed by "+fed)
	}
}

// ---- R4 (CLI part) ----

func checkProtoFlag(p *Prog, r *Report) {
	for _, rel := range []string{"pkg/scan/elastic", "pkg/scan/docker"} {
		pk := p.SPkg(rel)
		found := false
		for _, fn := range p.SrcFuncs() {
			if fn.Pkg != p.SPkg("command") {
				continue
			}
			for _, b := range fn.Blocks {
				for _, in := range b.Instrs {
					c, ok := in.(*ssa.Call)
					if !ok {
						continue
					}
					callee := StaticCallee(&c.Call)
					if callee == nil || callee.Pkg != pk || callee.Name() != "NewScanner" {
						continue
					}
					found = true
					got := flagOfOptionArg(p, c.Call.Args[0])
					r.Check(got == "proto", "C10.R4", FuncName(fn)+"/scheme-flag", p.Pos(c.Pos()), "the scanner's scheme is the --proto option", "fed by "+got)
					// validation: some parseRawOptions of the receiver type compares the field with both constants and fails otherwise
					fv := fieldVarOfLoad(c.Call.Args[0])
					validated := false
					for _, pr := range p.methodsByName("command", "parseRawOptions") {
						for _, s := range PathsInl(pr).Segs {
							if !s.Returns() || retClass(s) != retFail {
								continue
							}
							neq := map[string]bool{}
							for _, f := range s.Facts {
								bo, isB := f.Cond.(*ssa.BinOp)
								if !isB || (bo.Op != token.NEQ && bo.Op != token.EQL) || (bo.Op == token.NEQ) != f.Truth {
									continue
								}
								if fieldVarOfLoad(s.Resolve(bo.X)) == fv {
									if cs, ok := constString(bo.Y); ok {
										neq[cs] = true
									}
								}
							}
							if neq["http"] && neq["https"] && len(neq) == 2 {
								validated = true
							}
						}
						// and no accepting path allows a third value: accepting paths carry == http or == https
						for _, s := range PathsInl(pr).Segs {
							if !s.Returns() || retClass(s) == retFail || fv == nil {
								continue
							}
							mentions, okv := false, false
							for _, f := range s.Facts {
								bo, isB := f.Cond.(*ssa.BinOp)
								if !isB || fieldVarOfLoad(s.Resolve(bo.X)) != fv {
									continue
								}
								mentions = true
								if cs, ok := constString(bo.Y); ok && (cs == "http" || cs == "https") && ((bo.Op == token.NEQ && !f.Truth) || (bo.Op == token.EQL && f.Truth)) {
									okv = true
								}
							}
							if mentions && !okv {
								validated = false
							}
						}
					}
					r.Check(validated, "C10.R4", FuncName(fn)+"/scheme-validated", p.Pos(c.Pos()), "--proto is refused unless it is http or https", "no parseRawOptions path refuses other values")
				}
			}
		}
		if !found {
			r.Undecided("C10.R4", lastElem(rel)+"/scheme-flag", "-", "the command constructs the scanner", "no NewScanner call in package command")
		}
	}
}

// checkRenderTotal (R5): printing a record never panics on what the server sent. The record's String, ID
// and MarshalJSON methods (called by the output writers with server-controlled maps and structs) contain no
// unchecked type assertion and no slice / array / string indexing or slicing (map lookups are total).
// A panic there kills the process: the endpoint and every later one go unreported.
func checkRenderTotal(p *Prog, r *Report) {
	for _, rel := range []string{"pkg/scan/elastic", "pkg/scan/docker"} {
		pk := p.SPkg(rel)
		if pk == nil {
			r.Undecided("C10.R5", rel, "-", "package is loaded", "missing")
			continue
		}
		for _, fn := range p.SrcFuncs() {
			if fn.Pkg != pk || fn.Signature.Recv() == nil || fn.Parent() != nil {
				continue
			}
			switch fn.Name() {
			case "String", "ID", "MarshalJSON":
			default:
				continue
			}
			if !strings.HasSuffix(types.TypeString(fn.Signature.Recv().Type(), nil), ".ScanResult") {
				continue
			}
			var bad []string
			for g := range p.staticReach(fn) {
				if g.Pkg != pk {
					continue
				}
				for _, b := range g.Blocks {
					for _, in := range b.Instrs {
						switch t := in.(type) {
						case *ssa.TypeAssert:
							if !t.CommaOk {
								bad = append(bad, "unchecked type assertion at "+p.Pos(t.Pos()))
							}
						case *ssa.IndexAddr:
							if _, isArr := t.X.Type().Underlying().(*types.Pointer); !isArr {
								bad = append(bad, "slice index at "+p.Pos(t.Pos()))
							}
						case *ssa.Index:
							bad = append(bad, "index at "+p.Pos(t.Pos()))
						case *ssa.Slice:
							if _, isArr := t.X.Type().Underlying().(*types.Pointer); !isArr && (t.Low != nil || t.High != nil) {
								bad = append(bad, "slice expression at "+p.Pos(t.Pos()))
							}
						}
					}
				}
			}
			sort.Strings(bad)
			r.Check(len(bad) == 0, "C10.R5", FuncName(fn)+"/total", p.Pos(fn.Pos()), "rendering a record cannot panic on server-controlled data (no unchecked type assertion, no indexing)", strings.Join(bad, "; "))
		}
	}
}

// checkTransportKnobs (R4, addition): whether an endpoint is reported depends only on the documented
// criteria - not on response limits of the HTTP client. The probes' transports and clients set only the
// reviewed fields; any other knob (MaxResponseHeaderBytes, ReadBufferSize, ResponseHeaderTimeout, a client
// Timeout, a redirect policy ...) changes which answers count as success and needs a rule of its own.
func checkTransportKnobs(p *Prog, r *Report) {
	reviewed := map[string]map[string]bool{
		"*net/http.Transport": {"MaxConnsPerHost": true, "DisableKeepAlives": true, "TLSClientConfig": true},
		"*net/http.Client":    {"Transport": true},
		"*crypto/tls.Config":  {"InsecureSkipVerify": true},
	}
	n := 0
	for _, fn := range p.SrcFuncs() {
		if fn.Pkg != p.SPkg("pkg/scan/elastic") && fn.Pkg != p.SPkg("pkg/scan/docker") {
			continue
		}
		for _, b := range fn.Blocks {
			for _, in := range b.Instrs {
				a, ok := in.(*ssa.Alloc)
				if !ok {
					continue
				}
				allowed, isCfg := reviewed[types.TypeString(a.Type(), nil)]
				if !isCfg {
					continue
				}
				n++
				var extra []string
				for _, ref := range *a.Referrers() {
					if fa, isFA := ref.(*ssa.FieldAddr); isFA {
						f := fieldName(fa.X.Type(), fa.Field)
						for _, r2 := range *fa.Referrers() {
							if _, isSt := r2.(*ssa.Store); isSt && !allowed[f] {
								extra = append(extra, f)
							}
						}
					}
				}
				sort.Strings(extra)
				r.Check(len(extra) == 0, "C10.R4", fmt.Sprintf("%s/%s-settings", FuncName(fn), strings.TrimPrefix(types.TypeString(a.Type(), nil), "*")), p.Pos(a.Pos()), "the probe's HTTP configuration sets only the reviewed fields (no response limit or policy that changes which answers succeed)", "also sets: "+strings.Join(extra, ", "))
			}
		}
	}
	if n < 4 {
		r.Viol("C10.R4", "http configuration", "-", "transports, clients and TLS configurations of both probes are found", fmt.Sprint(n))
	}
}
