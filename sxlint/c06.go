package main

import (
	"fmt"
	"go/token"
	"go/types"
	"sort"
	"strings"

	"golang.org/x/tools/go/ssa"
)

func init() {
	register(&propDef{
		ID: "C06",
		Explanation: "Static conformance of the receive path: (R1) for every packet.Processor the set of layer-type sequences its DecodingLayerParser can leave in the decoded slice is enumerated from the constructor's decoder set and from gopacket's own CanDecode / NextLayerType / metadata tables (all chains and prefixes up to length 8, including nested Ethernet and IPv4); the guards that dominate each emitted record (with pure predicates such as validPacket folded) are evaluated on every sequence, and an admitted sequence must be exactly one of the protocol's header chains and must contain the layer of every decoder struct read on that path; " +
			"(R2) the ARP record is emitted and its addresses sliced only under guards that, folded over hardware/protocol type and address-size combinations, hold exactly for Ethernet/IPv4 with 6/4-byte addresses; (R3) constant indexes into the decoded slice are in range for every sequence on which they execute, parser panics stay recovered, the path is loop-free; (R4) at most one record per frame, built from value copies, and no slice into frame memory is retained in processor state.",
		NotDecided:  []string{"gopacket decoders' own bounds handling (recovered to an error by DecodeLayers)", "byte-level decoding correctness"},
		Assumptions: []string{"gopacket DecodingLayerParser appends one type per successfully decoded layer and follows NextLayerType; it recovers decoder panics unless IgnorePanic is set", "gopacket ARP decoding sets len(SourceHwAddress)=HwAddressSize and len(SourceProtAddress)=ProtAddressSize"},
		Run:         runC06,
	})
}

var protocolChains = map[string][][]string{
	"LayerTypeTCP":    {{"LayerTypeEthernet", "LayerTypeIPv4", "LayerTypeTCP"}, {"LayerTypeIPv4", "LayerTypeTCP"}},
	"LayerTypeICMPv4": {{"LayerTypeEthernet", "LayerTypeIPv4", "LayerTypeICMPv4"}, {"LayerTypeIPv4", "LayerTypeICMPv4"}},
	"LayerTypeARP":    {{"LayerTypeEthernet", "LayerTypeARP"}},
}

type seqEnv struct {
	q    []string
	vars map[string]int64
	oob  string
}

const (
	kUnknown = iota
	kInt
	kSym
	kBool
)

type sval struct {
	k int
	i int64
	s string
	b bool
}

func isLayerTypeSlice(t types.Type) bool {
	sl, ok := t.Underlying().(*types.Slice)
	if !ok {
		return false
	}
	n, ok := sl.Elem().(*types.Named)
	return ok && n.Obj().Name() == "LayerType" && n.Obj().Pkg() != nil && strings.HasSuffix(n.Obj().Pkg().Path(), "google/gopacket")
}

func (e *seqEnv) eval(s *Seg, v ssa.Value, d int) sval {
	if d > 14 || v == nil {
		return sval{}
	}
	if s != nil {
		v = s.Resolve(v)
	}
	if k, ok := constInt(v); ok {
		return sval{k: kInt, i: k}
	}
	if b, ok := constBool(v); ok {
		return sval{k: kBool, b: b}
	}
	switch t := v.(type) {
	case *ssa.Convert:
		return e.eval(s, t.X, d+1)
	case *ssa.ChangeType:
		return e.eval(s, t.X, d+1)
	case *ssa.Call:
		if b, ok := t.Call.Value.(*ssa.Builtin); ok && b.Name() == "len" {
			a := t.Call.Args[0]
			if s != nil {
				a = s.Resolve(a)
			}
			if isLayerTypeSlice(a.Type()) {
				return sval{k: kInt, i: int64(len(e.q))}
			}
			if _, f, ok := fieldLoad(a); ok {
				if x, ok := e.vars["len:"+f]; ok {
					return sval{k: kInt, i: x}
				}
			}
			return sval{}
		}
		// pure repo predicate over the decoded slice
		if f := StaticCallee(&t.Call); f != nil && f.Blocks != nil && f.Pkg != nil && IsRepoPkg(f.Pkg.Pkg) && returnsBool(&t.Call) && len(t.Call.Args) == 1 && isLayerTypeSlice(t.Call.Args[0].Type()) {
			if b, ok := e.foldPredicate(f); ok {
				return sval{k: kBool, b: b}
			}
		}
		return sval{}
	case *ssa.UnOp:
		switch t.Op {
		case token.NOT:
			x := e.eval(s, t.X, d+1)
			if x.k == kBool {
				return sval{k: kBool, b: !x.b}
			}
			return sval{}
		case token.MUL:
			if g, ok := t.X.(*ssa.Global); ok && strings.HasPrefix(g.Name(), "LayerType") {
				return sval{k: kSym, s: g.Name()}
			}
			if ia, ok := t.X.(*ssa.IndexAddr); ok {
				base := ia.X
				if s != nil {
					base = s.Resolve(base)
				}
				if isLayerTypeSlice(base.Type()) {
					if k, ok := constInt(ia.Index); ok {
						if k < 0 || int(k) >= len(e.q) {
							e.oob = fmt.Sprintf("index %d out of range for decoded sequence of length %d", k, len(e.q))
							return sval{}
						}
						return sval{k: kSym, s: e.q[k]}
					}
				}
			}
			if _, f, ok := fieldLoad(t); ok {
				if x, ok := e.vars[f]; ok {
					return sval{k: kInt, i: x}
				}
			}
		}
		return sval{}
	case *ssa.BinOp:
		x, y := e.eval(s, t.X, d+1), e.eval(s, t.Y, d+1)
		if x.k == kSym && y.k == kSym {
			switch t.Op {
			case token.EQL:
				return sval{k: kBool, b: x.s == y.s}
			case token.NEQ:
				return sval{k: kBool, b: x.s != y.s}
			}
		}
		if x.k == kInt && y.k == kInt {
			switch t.Op {
			case token.EQL:
				return sval{k: kBool, b: x.i == y.i}
			case token.NEQ:
				return sval{k: kBool, b: x.i != y.i}
			case token.LSS:
				return sval{k: kBool, b: x.i < y.i}
			case token.LEQ:
				return sval{k: kBool, b: x.i <= y.i}
			case token.GTR:
				return sval{k: kBool, b: x.i > y.i}
			case token.GEQ:
				return sval{k: kBool, b: x.i >= y.i}
			case token.ADD:
				return sval{k: kInt, i: x.i + y.i}
			case token.SUB:
				return sval{k: kInt, i: x.i - y.i}
			}
		}
		return sval{}
	}
	return sval{}
}

// feasible: are the segment's facts consistent with the environment? Facts that cannot be
// evaluated are unknown (kept feasible). An out-of-range index met on the way is reported in e.oob.
func (e *seqEnv) feasible(s *Seg) bool {
	for _, f := range s.Facts {
		v := e.eval(s, f.Cond, 0)
		if e.oob != "" {
			return true // the crash happens on this path
		}
		if v.k == kBool && v.b != f.Truth {
			return false
		}
	}
	return true
}

func (e *seqEnv) foldPredicate(fn *ssa.Function) (bool, bool) {
	fp := Paths(fn)
	if len(fp.Headers) > 0 {
		return e.foldLoopPredicate(fn)
	}
	if fp.Truncated {
		return false, false
	}
	found, res := false, false
	for _, s := range fp.Segs {
		sub := &seqEnv{q: e.q, vars: e.vars}
		if !sub.feasible(s) {
			continue
		}
		if sub.oob != "" {
			e.oob = sub.oob + " in " + fn.Name()
			return false, false
		}
		ret, ok := s.Exit.(*ssa.Return)
		if !ok || len(ret.Results) != 1 {
			return false, false
		}
		v := sub.eval(s, ret.Results[0], 0)
		if sub.oob != "" {
			e.oob = sub.oob + " in " + fn.Name()
			return false, false
		}
		if v.k != kBool || found {
			return false, false
		}
		found, res = true, v.b
	}
	return res, found
}

func runC06(p *Prog, r *Report) {
	r.Min("C06.R1", 3)
	r.Min("C06.R2", 1)
	r.Min("C06.R3", 6)
	r.Min("C06.R4", 6)
	r.Min("C06.R5", 8)
	r.Min("C06.R6", 4)
	lf, err := p.LayerFacts()
	if err != nil {
		r.Undecided("C06.R1", "gopacket/layers", "-", "gopacket layer tables can be loaded from the source the build uses", err.Error())
		return
	}
	procs := p.Implementers(modPath+"/pkg/packet", "Processor", "ProcessPacketData")
	if len(procs) < 3 {
		r.Undecided("C06.R1", "processors", "-", "three packet processors exist (tcp, icmp, arp)", fmt.Sprint(len(procs)))
	}
	totalSeq := 0
	for _, proc := range procs {
		totalSeq += checkProcessor(p, r, lf, proc)
	}
	r.Count("layer_sequences_folded", totalSeq)
	// IgnorePanic never set anywhere in the repo
	set := ""
	for _, fn := range p.SrcFuncs() {
		for _, b := range fn.Blocks {
			for _, in := range b.Instrs {
				if st, ok := in.(*ssa.Store); ok {
					if fa, ok := st.Addr.(*ssa.FieldAddr); ok && fieldName(fa.X.Type(), fa.Field) == "IgnorePanic" {
						set = p.Pos(st.Pos())
					}
				}
			}
		}
	}
	// R5: the receive loop's per-frame contract (C20.R1/R2 re-evaluated) and one receive goroutine per
	// processor: the processors decode into structs they own, so ProcessPacketData must never run
	// concurrently with itself
	sub20 := NewReport("C06", r.Tier)
	for _, rc := range p.Implementers(modPath+"/pkg/packet", "Receiver", "ReceivePackets") {
		checkReceiver(p, sub20, rc)
		okG, whyG := true, ""
		nGo := 0
		heads := LoopHeaders(rc)
		for _, b := range rc.Blocks {
			for _, in := range b.Instrs {
				g, isGo := in.(*ssa.Go)
				if !isGo {
					continue
				}
				callee := StaticCallee(&g.Call)
				if callee == nil || !staticReachesInvoke(callee, "ProcessPacketData", 3) {
					continue // not a goroutine that hands frames to the processor
				}
				nGo++
				for h := range heads {
					if loopBlocks(h)[b] {
						okG, whyG = false, "the receive goroutine is started inside a loop: several receive loops decode into the processor's single set of layer structs concurrently"
					}
				}
			}
		}
		if nGo > 1 {
			okG, whyG = false, fmt.Sprintf("%d goroutines hand frames to the same processor concurrently", nGo)
		}
		r.Check(okG && nGo >= 1, "C06.R5", FuncName(rc)+"/single-goroutine", p.Pos(rc.Pos()), "exactly one goroutine runs the receive loop of a receiver (the processor's decoder structs are not shared between concurrent decodes)", whyG)
	}
	for _, o := range sub20.Obs {
		if o.Rule == "C20.R1" || o.Rule == "C20.R2" {
			o2 := *o
			o2.Rule = "C06.R5"
			r.Obs = append(r.Obs, &o2)
		}
	}
	// R6: handing a record to the result queue never panics: the channel the processors' Put sends on is
	// closed only after every send (C12.R1 close discipline of the result queue re-evaluated) - a send on a
	// closed channel inside ProcessPacketData would kill the process on a perfectly valid frame
	sub12 := NewReport("C06", "quick")
	runC12(p, sub12)
	for _, o := range sub12.Obs {
		if o.Rule == "C12.R1" && strings.HasPrefix(o.Construct, "pkg/scan.NewResultChan") {
			o2 := *o
			o2.Rule = "C06.R6"
			r.Obs = append(r.Obs, &o2)
		}
	}
	// R7: a record describes its own frame for as long as it lives: what the processors put on the result
	// queue shares nothing with the decoder state they overwrite for the next frame
	r.Min("C06.R7", 3)
	checkHandOverFreshness(p, r, "C06.R7", func(fn *ssa.Function) bool {
		if fn.Pkg == nil {
			return false
		}
		switch lastElem(fn.Pkg.Pkg.Path()) {
		case "tcp", "udp", "icmp", "arp":
			return true
		}
		return false
	})
	r.Check(set == "", "C06.R3", "parser/IgnorePanic", "-", "no parser disables gopacket's panic recovery (decoder panics stay errors)", "IgnorePanic set at "+set)
}

// checkProcessor returns the number of sequences folded.
func checkProcessor(p *Prog, r *Report, lf *layerFacts, proc *ssa.Function) int {
	name := FuncName(proc)
	pos := p.Pos(proc.Pos())
	recvT := recvNamed(proc)
	// constructor: the function that calls gopacket.NewDecodingLayerParser and stores it into a value of the receiver type
	var ctor *ssa.Function
	var newParser *ssa.Call
	for _, fn := range p.SrcFuncs() {
		if fn.Pkg != proc.Pkg {
			continue
		}
		for _, b := range fn.Blocks {
			for _, in := range b.Instrs {
				if c, ok := in.(*ssa.Call); ok && calleeFull(&c.Call) == "github.com/google/gopacket.NewDecodingLayerParser" {
					ctor, newParser = fn, c
				}
			}
		}
	}
	if ctor == nil {
		r.Undecided("C06.R1", name, pos, "the processor's parser is built with gopacket.NewDecodingLayerParser in its package", "constructor not found")
		return 0
	}
	// the parser may be built in a small helper `newLayerParser(first, decoders...)`: take both
	// arguments from the helper's only call site
	firstArg, varArg := newParser.Call.Args[0], newParser.Call.Args[1]
	var atCall ssa.Instruction = newParser
	if prm, isP := varArg.(*ssa.Parameter); isP {
		if sites := p.CallSites(ctor); len(sites) == 1 {
			cs := sites[0]
			if i := paramIndex(ctor, prm); i >= 0 && i < len(cs.Common().Args) {
				varArg = cs.Common().Args[i]
			}
			if fp, isFP := firstArg.(*ssa.Parameter); isFP {
				if i := paramIndex(ctor, fp); i >= 0 && i < len(cs.Common().Args) {
					firstArg = cs.Common().Args[i]
				}
			}
			atCall = cs
			ctor = cs.Parent()
		}
	}
	// decoder set
	elems, ok := VariadicElems(varArg)
	if !ok {
		r.Undecided("C06.R1", name, pos, "decoders are passed in place", "variadic built elsewhere")
		return 0
	}
	fieldLayer := map[string]string{} // receiver field name -> LayerTypeX
	supported := map[string]bool{}
	layerStruct := map[string]string{} // LayerTypeX -> struct name
	for _, e := range elems {
		fa, ok := stripConv(e).(*ssa.FieldAddr)
		if !ok {
			r.Undecided("C06.R1", name, pos, "decoders are fields of the processor", "unexpected decoder expression")
			return 0
		}
		ft := fa.Type().(*types.Pointer).Elem()
		n, ok := ft.(*types.Named)
		if !ok {
			continue
		}
		lt, ok := lf.CanDecode[n.Obj().Name()]
		if !ok {
			r.Undecided("C06.R1", name, pos, "every decoder's layer type is known from gopacket's CanDecode", "no CanDecode for "+n.Obj().Name())
			return 0
		}
		fieldLayer[fieldName(fa.X.Type(), fa.Field)] = lt
		supported[lt] = true
		layerStruct[lt] = n.Obj().Name()
	}
	// first-layer candidates: all values the first argument can take over the constructor's paths
	firsts := map[string]bool{}
	for _, s := range PathsInl(ctor).Segs {
		if !s.Has(atCall) {
			continue
		}
		if g := globalOfLoad(s.Resolve(firstArg)); g != nil {
			firsts[g.Name()] = true
		}
	}
	if len(firsts) == 0 {
		r.Undecided("C06.R1", name, pos, "the parser's first layer type is a gopacket layer constant", "not resolved")
		return 0
	}
	// protocol: the terminal layer of this processor
	var chains [][]string
	for lt := range supported {
		if c, ok := protocolChains[lt]; ok {
			chains = c
		}
	}
	if chains == nil {
		r.Undecided("C06.R1", name, pos, "the processor decodes one of the scanned protocols (TCP, ICMPv4, ARP)", "no protocol layer among the decoders")
		return 0
	}
	// enumerate sequences
	succ := map[string][]string{}
	for lt, sn := range layerStruct {
		sx, err := lf.Successors(sn, supported)
		if err != nil {
			r.Undecided("C06.R1", name, pos, "successor layer types are extracted from gopacket's NextLayerType and metadata tables", err.Error())
			return 0
		}
		succ[lt] = sx
	}
	var seqs [][]string
	var gen func(cur []string)
	gen = func(cur []string) {
		seqs = append(seqs, append([]string(nil), cur...))
		if len(cur) >= 8 {
			return
		}
		for _, n := range succ[cur[len(cur)-1]] {
			gen(append(cur, n))
		}
	}
	var fl []string
	for f := range firsts {
		fl = append(fl, f)
	}
	sort.Strings(fl)
	for _, f := range fl {
		gen([]string{f})
	}
	r.Note("%s: first layers %v, successors %v, %d sequences", name, fl, succ, len(seqs))
	// paths of ProcessPacketData that emit a record
	fp := PathsInl(proc)
	if len(fp.Headers) > 0 {
		r.Viol("C06.R3", name+"/loop-free", pos, "frame processing is loop-free (terminates)", "loop in ProcessPacketData")
	} else {
		r.OK("C06.R3", name+"/loop-free", pos, "frame processing is loop-free (terminates)")
	}
	isChain := func(q []string) bool {
		for _, c := range chains {
			if strings.Join(c, ",") == strings.Join(q, ",") {
				return true
			}
		}
		return false
	}
	var admittedBad, crash, missing []string
	admittedGood := map[string]bool{}
	nPutSeg := 0
	for _, s := range fp.Segs {
		puts := s.CallsTo(fnResultPut)
		if len(puts) > 1 {
			r.Viol("C06.R4", name+"/one-record", pos, "at most one record per frame", fmt.Sprintf("%d Put calls on one path", len(puts)), s.Describe(p)...)
		}
		// decoder structs read on this segment
		reads := map[string]bool{}
		for _, b := range s.Blocks {
			for _, in := range b.Instrs {
				if fa, ok := in.(*ssa.FieldAddr); ok {
					// s.<decoderField>.<x>
					if inner, ok := fa.X.(*ssa.FieldAddr); ok && inner.X == ssa.Value(proc.Params[0]) {
						if lt, ok := fieldLayer[fieldName(inner.X.Type(), inner.Field)]; ok {
							reads[lt] = true
						}
					}
				}
				// &s.rcvTCP passed to a function (filter/flags printers)
				if ci, ok := in.(ssa.CallInstruction); ok {
					for _, a := range ci.Common().Args {
						if fa, ok := a.(*ssa.FieldAddr); ok && fa.X == ssa.Value(proc.Params[0]) {
							if lt, ok := fieldLayer[fieldName(fa.X.Type(), fa.Field)]; ok {
								reads[lt] = true
							}
						}
					}
				}
			}
		}
		for _, q := range seqs {
			env := &seqEnv{q: q}
			feas := env.feasible(s)
			if env.oob != "" {
				crash = append(crash, "["+strings.Join(q, " ")+"]: "+env.oob)
				continue
			}
			if !feas {
				continue
			}
			if len(puts) == 0 {
				continue
			}
			if isChain(q) {
				admittedGood[strings.Join(q, ",")] = true
			} else {
				admittedBad = append(admittedBad, "["+strings.Join(q, " ")+"]")
			}
			for lt := range reads {
				has := false
				for _, x := range q {
					if x == lt {
						has = true
					}
				}
				if !has {
					missing = append(missing, fmt.Sprintf("[%s] read of %s (not decoded from this frame)", strings.Join(q, " "), lt))
				}
			}
		}
		if len(puts) > 0 {
			nPutSeg++
		}
	}
	admittedBad, missing, crash = dedupe(admittedBad), dedupe(missing), dedupe(crash)
	short := func(x []string) string {
		if len(x) > 6 {
			return strings.Join(x[:6], "; ") + fmt.Sprintf("; … (%d)", len(x))
		}
		return strings.Join(x, "; ")
	}
	r.Check(len(admittedBad) == 0 && len(missing) == 0 && nPutSeg > 0, "C06.R1", name+"/layer-chain", pos,
		fmt.Sprintf("a record is emitted only for the protocol's exact header chain %v and reads only layers decoded from this frame (%d sequences folded)", chains, len(seqs)),
		"admitted: "+short(admittedBad)+" | stale reads: "+short(missing))
	// each protocol chain reachable under the first layers must be admitted (otherwise valid replies are dropped)
	var dropped []string
	for _, c := range chains {
		if firsts[c[0]] && !admittedGood[strings.Join(c, ",")] {
			dropped = append(dropped, "["+strings.Join(c, " ")+"]")
		}
	}
	r.Check(len(dropped) == 0, "C06.R1", name+"/chain-admitted", pos, "the protocol's own header chain is admitted", "never admitted: "+strings.Join(dropped, ", "))
	r.Check(len(crash) == 0, "C06.R3", name+"/index-in-range", pos, "constant indexes into the decoded slice are in range on every sequence that reaches them", short(crash))
	// R4: value copies and no retention of frame memory
	var retained []string
	seen := map[*ssa.Function]bool{}
	var scan func(f *ssa.Function)
	scan = func(f *ssa.Function) {
		if seen[f] {
			return
		}
		seen[f] = true
		recv := f.Params[0]
		for _, b := range f.Blocks {
			for _, in := range b.Instrs {
				switch t := in.(type) {
				case *ssa.Store:
					if _, isAlloc := t.Addr.(*ssa.Alloc); isAlloc {
						continue
					}
					if derivesFromParam(t.Addr, recv, 0) && isRefType(t.Val.Type()) {
						retained = append(retained, "store of a "+t.Val.Type().String()+" into processor state at "+p.Pos(t.Pos()))
					}
				case *ssa.Call:
					if g := StaticCallee(&t.Call); g != nil && g.Signature.Recv() != nil && g.Blocks != nil && recvNamed(g) == recvT && len(t.Call.Args) > 0 && t.Call.Args[0] == ssa.Value(recv) {
						scan(g)
					}
				}
			}
		}
	}
	scan(proc)
	r.Check(len(retained) == 0, "C06.R4", name+"/no-retained-frame-memory", pos, "no slice/pointer is stored into processor state while processing a frame (frame memory is reused by the zero-copy reader)", strings.Join(retained, "; "))
	// result literal fields: scalars / strings produced by calls or conversions
	var badFields []string
	for _, s := range fp.Segs {
		for _, e := range s.CallsTo(fnResultPut) {
			v := s.Resolve(e.Call.Args[0])
			if mi, ok := v.(*ssa.MakeInterface); ok {
				v = s.Resolve(mi.X)
			}
			if a, ok := v.(*ssa.Alloc); ok {
				for f, fv := range litFields(s, a) {
					if isSliceOrMap(fv.Type()) {
						badFields = append(badFields, f+" holds a "+fv.Type().String())
					}
				}
			}
		}
	}
	r.Check(len(badFields) == 0, "C06.R4", name+"/record-values", pos, "record fields are value copies (strings, integers, fresh structs), never slices of the frame", strings.Join(dedupe(badFields), "; "))
	if supported["LayerTypeARP"] {
		checkARPGuard(p, r, proc, fp)
	}
	return len(seqs)
}

func isRefType(t types.Type) bool {
	switch t.Underlying().(type) {
	case *types.Slice, *types.Pointer, *types.Map, *types.Chan:
		return true
	}
	return false
}

func isSliceOrMap(t types.Type) bool {
	switch t.Underlying().(type) {
	case *types.Slice, *types.Map:
		return true
	}
	return false
}

// checkARPGuard: R2 — fold the guards over ARP header field combinations.
func checkARPGuard(p *Prog, r *Report, proc *ssa.Function, fp *FnPaths) {
	name := FuncName(proc)
	pos := p.Pos(proc.Pos())
	type combo struct{ at, pr, hw, pl int64 }
	var combos []combo
	for _, at := range []int64{1, 6} { // LinkTypeEthernet = 1
		for _, pr := range []int64{0x0800, 0x86DD} {
			for _, hw := range []int64{0, 2, 6, 8} {
				for _, pl := range []int64{0, 4, 6, 16} {
					combos = append(combos, combo{at, pr, hw, pl})
				}
			}
		}
	}
	q := []string{"LayerTypeEthernet", "LayerTypeARP"}
	var bad []string
	okSeen := false
	for _, s := range fp.Segs {
		puts := s.CallsTo(fnResultPut)
		// slices of the hardware address with a constant high bound
		var sliceHigh int64 = -1
		for _, b := range s.Blocks {
			for _, in := range b.Instrs {
				if sl, ok := in.(*ssa.Slice); ok && sl.High != nil {
					if _, f, isF := fieldLoad(s.Resolve(sl.X)); isF && strings.Contains(f, "HwAddress") {
						if k, ok := constInt(sl.High); ok && k > sliceHigh {
							sliceHigh = k
						}
					}
				}
			}
		}
		if len(puts) == 0 && sliceHigh < 0 {
			continue
		}
		for _, c := range combos {
			env := &seqEnv{q: q, vars: map[string]int64{
				"AddrType": c.at, "Protocol": c.pr, "HwAddressSize": c.hw, "ProtAddressSize": c.pl,
				"len:SourceHwAddress": c.hw, "len:SourceProtAddress": c.pl, "len:DstHwAddress": c.hw, "len:DstProtAddress": c.pl,
			}}
			if !env.feasible(s) {
				continue
			}
			canon := c.at == 1 && c.pr == 0x0800 && c.hw == 6 && c.pl == 4
			if canon {
				okSeen = true
				continue
			}
			what := "record emitted"
			if sliceHigh > c.hw {
				what = fmt.Sprintf("SourceHwAddress[:%d] panics", sliceHigh)
			}
			bad = append(bad, fmt.Sprintf("hwtype=%d proto=%#x hlen=%d plen=%d: %s", c.at, c.pr, c.hw, c.pl, what))
		}
	}
	bad = dedupe(bad)
	d := strings.Join(bad, "; ")
	if len(bad) > 5 {
		d = strings.Join(bad[:5], "; ") + fmt.Sprintf("; … (%d combinations)", len(bad))
	}
	r.Check(len(bad) == 0 && okSeen, "C06.R2", name+"/arp-sizes", pos, "the ARP record is emitted (and its addresses sliced) exactly for Ethernet/IPv4 ARP with 6-byte hardware and 4-byte protocol addresses (guards folded over 64 header combinations)", d)
}

// staticReachesInvoke: fn (or a static callee within depth d) invokes an interface method of that name.
func staticReachesInvoke(fn *ssa.Function, method string, d int) bool {
	if fn == nil || fn.Blocks == nil || d < 0 {
		return false
	}
	for _, b := range fn.Blocks {
		for _, in := range b.Instrs {
			ci, ok := in.(ssa.CallInstruction)
			if !ok {
				continue
			}
			c := ci.Common()
			if c.IsInvoke() && c.Method.Name() == method {
				return true
			}
			if cal := StaticCallee(c); cal != nil && cal != fn && cal.Pkg == fn.Pkg && staticReachesInvoke(cal, method, d-1) {
				return true
			}
		}
	}
	return false
}

// ---- exhaustive folding of a pure predicate with loops ----
//
// foldLoopPredicate evaluates fn(decoded) for one concrete decoded sequence by following the function's
// control flow with concrete values: integers, layer-type symbols, booleans, the decoded slice and slices of
// package-level layer-type tables (whose members are read from the package initialiser). It is used only on
// the finite set of sequences the parser can produce, all of which are enumerated, so the result is a
// decision over that set, not a sample. Anything outside this vocabulary makes the fold give up (unknown).

type cslice struct {
	elems []string
}

func layerTableOf(g *ssa.Global) ([]string, bool) {
	if g == nil || g.Pkg == nil {
		return nil, false
	}
	at, ok := g.Type().(*types.Pointer).Elem().Underlying().(*types.Array)
	if !ok {
		return nil, false
	}
	init := g.Pkg.Func("init")
	if init == nil {
		return nil, false
	}
	out := make([]string, at.Len())
	for _, b := range init.Blocks {
		for _, in := range b.Instrs {
			st, isSt := in.(*ssa.Store)
			if !isSt {
				continue
			}
			ia, isIA := st.Addr.(*ssa.IndexAddr)
			if !isIA || ia.X != ssa.Value(g) {
				continue
			}
			k, isK := constInt(ia.Index)
			if !isK || k < 0 || k >= at.Len() {
				return nil, false
			}
			if u, isU := st.Val.(*ssa.UnOp); isU && u.Op == token.MUL {
				if lg, isG := u.X.(*ssa.Global); isG && strings.HasPrefix(lg.Name(), "LayerType") {
					out[k] = lg.Name()
				}
			}
		}
	}
	for _, x := range out {
		if x == "" {
			return nil, false
		}
	}
	return out, true
}

func (e *seqEnv) foldLoopPredicate(fn *ssa.Function) (res bool, known bool) {
	if len(fn.Params) != 1 || len(fn.Blocks) == 0 {
		return false, false
	}
	if theProg != nil {
		for _, b := range fn.Blocks {
			for _, in := range b.Instrs {
				if u, ok := in.(*ssa.UnOp); ok {
					if g, isG := u.X.(*ssa.Global); isG && g.Pkg == fn.Pkg && len(theProg.StoresToGlobalOutsideInit(g)) > 0 {
						return false, false
					}
				}
			}
		}
	}
	ints := map[ssa.Value]int64{}
	syms := map[ssa.Value]string{}
	bools := map[ssa.Value]bool{}
	slices := map[ssa.Value]cslice{}
	slices[fn.Params[0]] = cslice{elems: e.q}
	ptrs := map[ssa.Value]string{} // address of one element: its symbol
	var getInt func(v ssa.Value) (int64, bool)
	getInt = func(v ssa.Value) (int64, bool) {
		if k, ok := constInt(v); ok {
			return k, true
		}
		k, ok := ints[v]
		return k, ok
	}
	getSym := func(v ssa.Value) (string, bool) {
		if u, ok := v.(*ssa.UnOp); ok && u.Op == token.MUL {
			if g, isG := u.X.(*ssa.Global); isG && strings.HasPrefix(g.Name(), "LayerType") {
				return g.Name(), true
			}
		}
		sv, ok := syms[v]
		return sv, ok
	}
	getBool := func(v ssa.Value) (bool, bool) {
		if b, ok := constBool(v); ok {
			return b, true
		}
		b, ok := bools[v]
		return b, ok
	}
	getSlice := func(v ssa.Value) (cslice, bool) {
		if sl, ok := slices[v]; ok {
			return sl, true
		}
		// a package-level table (pointer to array) or its loaded value
		if g, isG := v.(*ssa.Global); isG {
			if t, okT := layerTableOf(g); okT {
				return cslice{elems: t}, true
			}
		}
		if u, isU := v.(*ssa.UnOp); isU && u.Op == token.MUL {
			if g, isG := u.X.(*ssa.Global); isG {
				if t, okT := layerTableOf(g); okT {
					return cslice{elems: t}, true
				}
			}
		}
		return cslice{}, false
	}
	blk := fn.Blocks[0]
	var prev *ssa.BasicBlock
	for step := 0; step < 400; step++ {
		var next *ssa.BasicBlock
		for _, in := range blk.Instrs {
			switch t := in.(type) {
			case *ssa.DebugRef:
			case *ssa.Phi:
				idx := -1
				for i, pb := range blk.Preds {
					if pb == prev {
						idx = i
					}
				}
				if idx < 0 {
					return false, false
				}
				ev := t.Edges[idx]
				if k, ok := getInt(ev); ok {
					ints[t] = k
				} else if sv, ok := getSym(ev); ok {
					syms[t] = sv
				} else if b, ok := getBool(ev); ok {
					bools[t] = b
				} else if sl, ok := getSlice(ev); ok {
					slices[t] = sl
				} else {
					return false, false
				}
			case *ssa.Convert:
				if k, ok := getInt(t.X); ok {
					ints[t] = k
				} else if sv, ok := getSym(t.X); ok {
					syms[t] = sv
				} else {
					return false, false
				}
			case *ssa.ChangeType:
				if sv, ok := getSym(t.X); ok {
					syms[t] = sv
				} else if k, ok := getInt(t.X); ok {
					ints[t] = k
				} else {
					return false, false
				}
			case *ssa.Call:
				bi, isB := t.Call.Value.(*ssa.Builtin)
				if !isB || bi.Name() != "len" {
					return false, false
				}
				sl, ok := getSlice(t.Call.Args[0])
				if !ok {
					if at, isA := t.Call.Args[0].Type().Underlying().(*types.Array); isA {
						ints[t] = at.Len()
						continue
					}
					return false, false
				}
				ints[t] = int64(len(sl.elems))
			case *ssa.Slice:
				sl, ok := getSlice(t.X)
				if !ok {
					return false, false
				}
				lo, hi := int64(0), int64(len(sl.elems))
				if t.Low != nil {
					k, okK := getInt(t.Low)
					if !okK {
						return false, false
					}
					lo = k
				}
				if t.High != nil {
					k, okK := getInt(t.High)
					if !okK {
						return false, false
					}
					hi = k
				}
				if lo < 0 || hi > int64(len(sl.elems)) || lo > hi {
					e.oob = fmt.Sprintf("slice bounds [%d:%d] out of range in %s", lo, hi, fn.Name())
					return false, false
				}
				slices[t] = cslice{elems: sl.elems[lo:hi]}
			case *ssa.IndexAddr:
				sl, ok := getSlice(t.X)
				k, okK := getInt(t.Index)
				if !ok || !okK {
					return false, false
				}
				if k < 0 || k >= int64(len(sl.elems)) {
					e.oob = fmt.Sprintf("index %d out of range in %s", k, fn.Name())
					return false, false
				}
				ptrs[t] = sl.elems[k]
			case *ssa.Index:
				sl, ok := getSlice(t.X)
				k, okK := getInt(t.Index)
				if !ok || !okK {
					return false, false
				}
				if k < 0 || k >= int64(len(sl.elems)) {
					e.oob = fmt.Sprintf("index %d out of range in %s", k, fn.Name())
					return false, false
				}
				syms[t] = sl.elems[k]
			case *ssa.UnOp:
				switch t.Op {
				case token.MUL:
					if sv, ok := ptrs[t.X]; ok {
						syms[t] = sv
					} else if _, ok := getSym(t); ok {
						// a layer-type constant
					} else if sl, ok := getSlice(t); ok {
						slices[t] = sl
					} else {
						return false, false
					}
				case token.NOT:
					b, ok := getBool(t.X)
					if !ok {
						return false, false
					}
					bools[t] = !b
				default:
					return false, false
				}
			case *ssa.BinOp:
				if x, okX := getInt(t.X); okX {
					y, okY := getInt(t.Y)
					if !okY {
						return false, false
					}
					switch t.Op {
					case token.ADD:
						ints[t] = x + y
					case token.SUB:
						ints[t] = x - y
					case token.EQL:
						bools[t] = x == y
					case token.NEQ:
						bools[t] = x != y
					case token.LSS:
						bools[t] = x < y
					case token.LEQ:
						bools[t] = x <= y
					case token.GTR:
						bools[t] = x > y
					case token.GEQ:
						bools[t] = x >= y
					default:
						return false, false
					}
					continue
				}
				if x, okX := getSym(t.X); okX {
					y, okY := getSym(t.Y)
					if !okY {
						return false, false
					}
					switch t.Op {
					case token.EQL:
						bools[t] = x == y
					case token.NEQ:
						bools[t] = x != y
					default:
						return false, false
					}
					continue
				}
				if x, okX := getBool(t.X); okX {
					y, okY := getBool(t.Y)
					if !okY {
						return false, false
					}
					switch t.Op {
					case token.EQL:
						bools[t] = x == y
					case token.NEQ:
						bools[t] = x != y
					case token.AND, token.LAND:
						bools[t] = x && y
					case token.OR, token.LOR:
						bools[t] = x || y
					default:
						return false, false
					}
					continue
				}
				return false, false
			case *ssa.If:
				b, ok := getBool(t.Cond)
				if !ok {
					return false, false
				}
				if b {
					next = blk.Succs[0]
				} else {
					next = blk.Succs[1]
				}
			case *ssa.Jump:
				next = blk.Succs[0]
			case *ssa.Return:
				if len(t.Results) != 1 {
					return false, false
				}
				b, ok := getBool(t.Results[0])
				return b, ok
			default:
				return false, false
			}
		}
		if next == nil {
			return false, false
		}
		prev, blk = blk, next
	}
	return false, false
}
