package main

import (
	"fmt"
	"go/token"
	"go/types"
	"sort"
	"strings"

	"golang.org/x/tools/go/ssa"
)

func init() {
	register(&propDef{
		ID: "C03",
		Explanation: "Static conformance of reply detection wiring: (R1) at every packet-scan configuration site the package declaring the BPF builder equals the package declaring the ProcessPacketData the scan method dispatches to (embedded processors resolved through the method's constructor); (R2) the site using the SYN-ACK builder passes the SYN-only filler option, a packet filter folded over all 512 flag sets (true on exactly-SYN+ACK, false whenever SYN or ACK is missing) and the empty flag printer, every other TCP site the plain builder, the always-true filter and the all-flags printer; no TCP method site omits filter or printer; " +
			"(R3) in the engine starter every path to SetupPacketEngine first installs conf.bpfFilter(r) (both results) on the socket that becomes the engine's reader and tests the error, and the range given to the builder is the range the engine is started with; (R4) each processor emits at most one record per frame, only when the packet filter accepted it, with fields read from the layers decoded for this frame; result types hold values only; (R5) the flag printer writes one distinct letter per header flag (s a f r p u e c n); (R6) the acceptance guard is the protocol's exact layer chain (C06.R1 re-evaluated); " +
			"(R7) the compiled filter is transcribed instruction by instruction (Code/Jt/Jf/K) into the program installed on the socket, with the link type of the framing mode; (R8) BPF builders dereference the target subnet only when it is set, and contribute one clause per port range with that range's own start and end.",
		NotDecided:  []string{"what the filter strings mean to libpcap and the kernel BPF VM (src net, portrange, tcp[13]==18, icmp[0]!=8)", "IP fragments", "timing of arrival relative to scan exit (C16)"},
		Assumptions: []string{"pcap.CompileBPFFilter compiles the expression for the given link type", "gopacket DecodingLayerParser fills the registered layer structs for the decoded chain"},
		Run:         runC03,
	})
}

func runC03(p *Prog, r *Report) {
	r.Min("C03.R1", 8)
	r.Min("C03.R2", 5*3)
	r.Min("C03.R3", 3)
	r.Min("C03.R4", 3*3)
	r.Min("C03.R5", 9)
	r.Min("C03.R6", 3)
	r.Min("C03.R7", 3)
	r.Min("C03.R8", 4)
	r.Min("C03.R9", 8)
	checkFilterProcessorPairs(p, r)
	checkFilterInstalled(p, r)
	checkRecordProvenance(p, r)
	checkFlagLetters(p, r)
	sub := NewReport("C03", r.Tier)
	runC06(p, sub)
	for _, o := range sub.Obs {
		if o.Rule != "C06.R1" {
			continue
		}
		o2 := *o
		o2.Rule = "C03.R6"
		r.Obs = append(r.Obs, &o2)
	}
	checkParserTolerant(p, r)
	checkFilterTranscription(p, r)
	checkBPFBuilders(p, r)
	// R9: every frame the socket delivers reaches the processor exactly once (C20.R1/R2 re-evaluated)
	sub20 := NewReport("C03", r.Tier)
	for _, rc := range p.Implementers(modPath+"/pkg/packet", "Receiver", "ReceivePackets") {
		checkReceiver(p, sub20, rc)
	}
	for _, o := range sub20.Obs {
		if o.Rule == "C20.R1" || o.Rule == "C20.R2" {
			o2 := *o
			o2.Rule = "C03.R9"
			o2.Text = "every captured frame is handed to the processor: " + o.Text
			r.Obs = append(r.Obs, &o2)
		}
	}
	// ... and reading is never throttled by the send-rate limiter (C15.R3 re-evaluated): frames still
	// queued in the socket when the scan ends yield no record
	sub15 := NewReport("C03", "quick")
	runC15(p, sub15)
	for _, o := range sub15.Obs {
		if o.Rule == "C15.R3" {
			o2 := *o
			o2.Rule = "C03.R9"
			r.Obs = append(r.Obs, &o2)
		}
	}
}

// packetConfigCtor finds the variadic-options constructor of the struct holding bpfFilter.
func packetConfigCtor(p *Prog) *ssa.Function {
	for _, fn := range p.SrcFuncs() {
		if fn.Pkg != p.SPkg("command") || fn.Parent() != nil || !fn.Signature.Variadic() || fn.Signature.Results().Len() != 1 {
			continue
		}
		if pt, ok := fn.Signature.Results().At(0).Type().(*types.Pointer); ok {
			if st, ok := pt.Elem().Underlying().(*types.Struct); ok {
				for i := 0; i < st.NumFields(); i++ {
					if st.Field(i).Name() == "bpfFilter" {
						return fn
					}
				}
			}
		}
	}
	return nil
}

// processorPkg resolves the package declaring the ProcessPacketData a *T value dispatches to.
func processorPkg(p *Prog, T types.Type) (string, string) {
	ms := p.SSA.MethodSets.MethodSet(T)
	sel := ms.Lookup(nil, "ProcessPacketData")
	if sel == nil {
		return "", "type has no ProcessPacketData"
	}
	f := sel.Obj().(*types.Func)
	recv := f.Type().(*types.Signature).Recv().Type()
	var fwdField *types.Var
	if _, isIface := recv.Underlying().(*types.Interface); !isIface {
		// a hand-written forwarder to a field holding the processor is a promotion written out
		if fn := p.SSA.MethodValue(sel); fn != nil && isPlainForwarder(fn, "ProcessPacketData") {
			for _, in := range fn.Blocks[0].Instrs {
				if fa, isFA := in.(*ssa.FieldAddr); isFA && fa.X == ssa.Value(fn.Params[0]) {
					fwdField = fieldObj(fa)
				}
			}
		}
		if fwdField == nil {
			return f.Pkg().Path(), ""
		}
		if _, isI := fwdField.Type().Underlying().(*types.Interface); !isI {
			if n, isN := fwdField.Type().(*types.Named); isN {
				return n.Obj().Pkg().Path(), ""
			}
			if pt, isP := fwdField.Type().(*types.Pointer); isP {
				if n, isN := pt.Elem().(*types.Named); isN {
					return n.Obj().Pkg().Path(), ""
				}
			}
			return f.Pkg().Path(), ""
		}
	}
	// promoted through an embedded interface: find what the constructor stores there
	pt, ok := T.(*types.Pointer)
	if !ok {
		return "", "not a pointer type"
	}
	named, ok := pt.Elem().(*types.Named)
	if !ok {
		return "", "not a named type"
	}
	// the embedded field on the selection path
	idx := sel.Index()
	st := named.Underlying().(*types.Struct)
	fld := st.Field(idx[0])
	if fwdField != nil {
		fld = fwdField
	}
	var pkgs []string
	for _, fn := range p.SrcFuncs() {
		if fn.Pkg == nil || fn.Pkg.Pkg != named.Obj().Pkg() {
			continue
		}
		for _, b := range fn.Blocks {
			for _, in := range b.Instrs {
				stI, ok := in.(*ssa.Store)
				if !ok {
					continue
				}
				fa, ok := stI.Addr.(*ssa.FieldAddr)
				if !ok || fieldObj(fa) != fld {
					continue
				}
				v := stI.Val
				if mi, ok := v.(*ssa.MakeInterface); ok {
					v = mi.X
				}
				t := v.Type()
				if ptt, ok := t.(*types.Pointer); ok {
					t = ptt.Elem()
				}
				if n, ok := t.(*types.Named); ok && n.Obj().Pkg() != nil {
					pkgs = append(pkgs, n.Obj().Pkg().Path())
				}
			}
		}
	}
	if len(pkgs) == 0 {
		return "", "no constructor stores the embedded processor"
	}
	for _, x := range pkgs[1:] {
		if x != pkgs[0] {
			return "", "constructors store processors of different packages"
		}
	}
	return pkgs[0], ""
}

func lastElem(path string) string {
	if i := strings.LastIndex(path, "/"); i >= 0 {
		return path[i+1:]
	}
	return path
}

// foldTCPPredicate evaluates a loop-free func(*layers.TCP) bool for one assignment of flag fields.
func foldTCPPredicate(fn *ssa.Function, assign map[string]bool) (bool, bool) {
	fp := Paths(fn)
	if len(fp.Headers) > 0 || fp.Truncated || len(fn.Params) != 1 {
		return false, false
	}
	evalB := func(s *Seg, v ssa.Value) (bool, bool) {
		neg := false
		for {
			v = s.Resolve(v)
			if u, ok := v.(*ssa.UnOp); ok && u.Op == token.NOT {
				v, neg = u.X, !neg
				continue
			}
			break
		}
		if b, ok := constBool(v); ok {
			return b != neg, true
		}
		if base, f, ok := fieldLoad(v); ok && base == ssa.Value(fn.Params[0]) {
			if val, has := assign[f]; has {
				return val != neg, true
			}
		}
		return false, false
	}
	found, res := false, false
	for _, s := range fp.Segs {
		if !s.Returns() {
			continue
		}
		feasible := true
		for _, f := range s.Facts {
			b, ok := evalB(s, f.Cond)
			if !ok {
				return false, false
			}
			if b != f.Truth {
				feasible = false
			}
		}
		if !feasible {
			continue
		}
		ret := s.Exit.(*ssa.Return)
		if len(ret.Results) != 1 {
			return false, false
		}
		b, ok := evalB(s, ret.Results[0])
		if !ok || found {
			return false, false
		}
		found, res = true, b
	}
	return res, found
}

func funcArg(v ssa.Value) *ssa.Function {
	v = stripConvKeepIface(v)
	switch t := v.(type) {
	case *ssa.Function:
		return t
	case *ssa.MakeClosure:
		f, _ := t.Fn.(*ssa.Function)
		return f
	}
	return nil
}

func checkFilterProcessorPairs(p *Prog, r *Report) {
	ctor := packetConfigCtor(p)
	if ctor == nil {
		r.Undecided("C03.R1", "packet scan configuration", "-", "the configuration constructor is found", "not found")
		return
	}
	// the SYN-ACK builder: a BPF builder whose string constants mention the flags byte test
	isSynAck := func(f *ssa.Function) bool {
		for _, b := range f.Blocks {
			for _, in := range b.Instrs {
				for _, op := range in.Operands(nil) {
					if op != nil && *op != nil {
						if s, ok := constString(*op); ok && strings.Contains(s, "tcp[13]") {
							return true
						}
					}
				}
			}
		}
		return false
	}
	sites := p.CallSites(ctor)
	r.Count("packet_config_sites", len(sites))
	for i, cs := range sites {
		fn := cs.Parent()
		key := fmt.Sprintf("%s/config-site#%d", FuncName(fn), siteOrdinal(sites, i))
		pos := p.Pos(cs.Pos())
		elems, ok := VariadicElems(cs.Common().Args[len(cs.Common().Args)-1])
		if !ok {
			r.Undecided("C03.R1", key, pos, "options are passed in place", "variadic built elsewhere")
			continue
		}
		uses, _ := OptionUses(elems)
		var bpf *ssa.Function
		var method ssa.Value
		for _, u := range uses {
			switch u.Field {
			case "bpfFilter":
				bpf = funcArg(u.Arg)
			case "scanMethod":
				method = u.Arg
			}
		}
		if bpf == nil || method == nil {
			r.Viol("C03.R1", key, pos, "the site passes a BPF builder and a scan method", fmt.Sprintf("bpf builder found=%v, method found=%v", bpf != nil, method != nil))
			continue
		}
		mt := stripConv(method).Type()
		ppkg, why := processorPkg(p, mt)
		if why != "" {
			r.Undecided("C03.R1", key, pos, "the method's packet processor is resolved", why)
			continue
		}
		r.Check(bpf.Pkg != nil && bpf.Pkg.Pkg.Path() == ppkg, "C03.R1", key, pos, "the kernel filter and the in-process processor belong to the same protocol",
			fmt.Sprintf("filter from %s, processor from %s", lastElem(bpf.Pkg.Pkg.Path()), lastElem(ppkg)))
		// R2 for TCP methods
		if lastElem(ppkg) != "tcp" {
			continue
		}
		mcall, ok := stripConv(method).(*ssa.Call)
		if !ok {
			r.Undecided("C03.R2", key, pos, "the TCP method is built in the same function", "method value is not a direct call")
			continue
		}
		melems, ok := VariadicElems(mcall.Call.Args[len(mcall.Call.Args)-1])
		if !ok {
			r.Undecided("C03.R2", key, pos, "TCP method options are passed in place", "variadic built elsewhere")
			continue
		}
		muses, _ := OptionUses(melems)
		var filt, printer *ssa.Function
		var fillerOpts ssa.Value
		hasFilt, hasPrinter := false, false
		for _, u := range muses {
			switch u.Field {
			case "packetFilter":
				filt, hasFilt = funcArg(u.Arg), true
			case "packetFlags":
				printer, hasPrinter = funcArg(u.Arg), true
			case "packetFillerOpts":
				fillerOpts = u.Arg
			}
		}
		if !hasFilt || !hasPrinter || filt == nil || printer == nil {
			r.Viol("C03.R2", key+"/funcs", pos, "every TCP method site passes a packet filter and a flag printer (a missing one is a nil function called on the first reply)", fmt.Sprintf("filter=%v printer=%v", hasFilt && filt != nil, hasPrinter && printer != nil))
			continue
		}
		syn := isSynAck(bpf)
		// fold the filter over all 512 flag sets
		okF, whyF := true, ""
		for m := 0; m < 512; m++ {
			assign := map[string]bool{}
			for bi, n := range tcpFlagNames {
				assign[strings.ToUpper(n)] = m&(1<<bi) != 0
			}
			v, ok := foldTCPPredicate(filt, assign)
			if !ok {
				okF, whyF = false, "packet filter is not a foldable predicate over the header flags"
				break
			}
			S, A := assign["SYN"], assign["ACK"]
			if syn {
				only := S && A
				for _, n := range tcpFlagNames {
					if n != "syn" && n != "ack" && assign[strings.ToUpper(n)] {
						only = false
					}
				}
				if only && !v {
					okF, whyF = false, "the SYN scan filter rejects a SYN+ACK reply"
				}
				if (!S || !A) && v {
					okF, whyF = false, "the SYN scan filter accepts a reply without SYN+ACK (closed ports are reported open)"
				}
			} else if !v {
				okF, whyF = false, "a non-SYN scan drops replies by flags"
			}
		}
		want := "always-true"
		if syn {
			want = "SYN and ACK"
		}
		r.Check(okF, "C03.R2", key+"/filter", pos, "the in-process packet filter of this site is "+want+" (folded over all 512 flag sets)", whyF)
		// printer: empty for SYN scan, all flags otherwise
		isEmpty := func(f *ssa.Function) bool {
			if len(f.Blocks) != 1 {
				return false
			}
			for _, in := range f.Blocks[0].Instrs {
				if ret, ok := in.(*ssa.Return); ok && len(ret.Results) == 1 {
					if s, ok := constString(ret.Results[0]); ok && s == "" {
						return true
					}
				}
			}
			return false
		}
		writesRunes := func(f *ssa.Function) int {
			n := 0
			for _, b := range f.Blocks {
				for _, in := range b.Instrs {
					if c, ok := in.(*ssa.Call); ok && isLetterWrite(&c.Call) {
						n++
					}
				}
			}
			return n
		}
		if syn {
			r.Check(isEmpty(printer), "C03.R2", key+"/printer", pos, "the SYN scan prints no flags (every report is SYN+ACK)", "printer is "+FuncName(printer))
		} else {
			r.Check(writesRunes(printer) == 9, "C03.R2", key+"/printer", pos, "flag scans print the reply's flags with the nine-letter printer", "printer is "+FuncName(printer))
		}
		// filler options: SYN scan sends exactly SYN
		if syn {
			okS, whyS := false, "filler options not passed in place"
			if fillerOpts != nil {
				if fe, ok := VariadicElems(fillerOpts); ok {
					fu, unk := OptionUses(fe)
					okS = len(fu) == 1 && len(unk) == 0 && fu[0].Field == "SYN"
					whyS = fmt.Sprintf("%d options", len(fu))
					if len(fu) == 1 {
						whyS = "option sets " + fu[0].Field
					}
				}
			}
			r.Check(okS, "C03.R2", key+"/probe", pos, "the SYN scan probe carries exactly the SYN flag", whyS)
		} else {
			r.OK("C03.R2", key+"/probe", pos, "probe flags of non-SYN scans are decided by C05/C18 tables").Nontrivial = false
		}
	}
}

// ---- R3 ----

func checkFilterInstalled(p *Prog, r *Report) {
	const setup = modPath + "/pkg/scan.SetupPacketEngine"
	n := 0
	for _, fn := range p.SrcFuncs() {
		calls := callInstrs(fn, setup)
		if len(calls) == 0 || fn.Pkg != p.SPkg("command") {
			continue
		}
		n++
		name := FuncName(fn)
		pos := p.Pos(fn.Pos())
		k := 0
		for _, s := range PathsInl(fn).Segs {
			for _, sc := range calls {
				if !s.Has(sc) {
					continue
				}
				k++
				key := fmt.Sprintf("%s/engine-path#%d", name, k)
				// the socket underlying the engine's reader
				sock := s.Resolve(sc.Call.Args[0])
				for d := 0; d < 4; d++ {
					if mi, ok := sock.(*ssa.MakeInterface); ok {
						sock = s.Resolve(mi.X)
						continue
					}
					if c, ok := sock.(*ssa.Call); ok && len(c.Call.Args) > 0 && IsRepoPkg(pkgOfCallee(&c.Call)) {
						sock = s.Resolve(c.Call.Args[0])
						continue
					}
					break
				}
				var set *Event
				for _, e := range s.Events {
					if e.Kind == EvCall && e.Ord < s.ord[sc] {
						if f := StaticCallee(e.Call); f != nil && f.Name() == "SetBPFFilter" {
							set = e
						}
					}
				}
				if set == nil {
					r.Viol("C03.R3", key, pos, "a kernel filter is installed before the engine is set up", "no SetBPFFilter call precedes SetupPacketEngine on this path: every frame on the interface reaches the processor", s.Describe(p)...)
					continue
				}
				ok, why := true, ""
				if s.Resolve(set.Call.Args[0]) != sock {
					ok, why = false, "the filter is installed on a different socket than the one the engine reads"
				}
				ex0, isE0 := s.Resolve(set.Call.Args[1]).(*ssa.Extract)
				ex1, isE1 := s.Resolve(set.Call.Args[2]).(*ssa.Extract)
				var builderCall *ssa.Call
				if !isE0 || !isE1 || ex0.Tuple != ex1.Tuple || ex0.Index != 0 || ex1.Index != 1 {
					ok, why = false, "the installed filter is not the pair returned by the configured builder"
				} else if bc, isC := ex0.Tuple.(*ssa.Call); isC {
					builderCall = bc
					if _, f, isF := fieldLoad(s.Resolve(bc.Call.Value)); !isF || f != "bpfFilter" {
						ok, why = false, "the filter is not built by the configuration's bpfFilter"
					}
				}
				if known, isNil := s.NilFact(set.Val); !known || !isNil {
					ok, why = false, "the engine is set up although installing the filter may have failed (error not tested)"
				}
				// the range given to the builder is the range the engine starts with
				if builderCall != nil {
					rt := s.Term(builderCall.Call.Args[0])
					started := ""
					for _, e := range s.Events {
						if e.Kind == EvCall && e.Ord > s.ord[sc] {
							if g := StaticCallee(e.Call); g != nil && IsRepoPkg(g.Pkg.Pkg) {
								for _, a := range e.Call.Args {
									if strings.HasSuffix(s.Term(a), ".&engineConfig") {
										started = s.Term(a) + ".&scanRange"
									}
								}
							}
						}
					}
					if started == "" || started != rt {
						ok, why = false, fmt.Sprintf("the filter is computed from %s but the engine is started with %s", rt, started)
					}
				}
				r.Check(ok, "C03.R3", key, pos, "before SetupPacketEngine the pair returned by conf.bpfFilter(&conf.scanRange) is installed on the engine's own socket, its error tested, and the engine is started with that same range", why, s.Describe(p)...)
			}
		}
		// the engine caller starts with &conf.scanRange of the configuration it was given
		for _, ec := range engineCallers(p) {
			if ec.Pkg != p.SPkg("command") {
				continue
			}
			okR := false
			for _, b := range ec.Blocks {
				for _, in := range b.Instrs {
					if c, ok := in.(*ssa.Call); ok && IsCallTo(&c.Call, fnEngineStart) {
						if fa, ok := methodArgs(&c.Call)[1].(*ssa.FieldAddr); ok && fieldName(fa.X.Type(), fa.Field) == "scanRange" {
							for _, o := range p.Origins(fa.X) {
								if _, isP := o.(*ssa.Parameter); isP {
									okR = true
								}
							}
						}
					}
				}
			}
			r.Check(okR, "C03.R3", FuncName(ec)+"/range", p.Pos(ec.Pos()), "the engine is started with the scanRange of the configuration passed in (the per-chunk one)", "Start does not receive &conf.scanRange")
		}
	}
	if n == 0 {
		r.Undecided("C03.R3", "engine starter", "-", "a function in package command calls SetupPacketEngine", "not found")
	}
}

func pkgOfCallee(c *ssa.CallCommon) *types.Package {
	if f := StaticCallee(c); f != nil && f.Pkg != nil {
		return f.Pkg.Pkg
	}
	return nil
}

// ---- R4 ----

func checkRecordProvenance(p *Prog, r *Report) {
	want := map[string]map[string][]string{
		"tcp":  {"IP": {"rcvIP.SrcIP", ".String("}, "Port": {"rcvTCP.SrcPort"}, "Flags": {"pktFlags", "rcvTCP"}, "ScanType": {"scanType"}},
		"icmp": {"IP": {"rcvIP.SrcIP", ".String("}, "TTL": {"rcvIP.TTL"}, "ICMP": {"new"}, "ScanType": {"scanType"}},
		"arp":  {"IP": {"rcvARP.SourceProtAddress", ".String("}, "MAC": {"rcvARP.SourceHwAddress", ".String("}, "Vendor": {"ValidMACPrefixMap"}},
	}
	for _, proc := range p.Implementers(modPath+"/pkg/packet", "Processor", "ProcessPacketData") {
		proto := lastElem(proc.Pkg.Pkg.Path())
		name := FuncName(proc)
		pos := p.Pos(proc.Pos())
		fp := PathsInl(proc)
		okN, whyN := true, ""
		okP, whyP := true, ""
		okG, whyG := true, ""
		nPut := 0
		for _, s := range fp.Segs {
			var puts []*Event
			for _, e := range s.Events {
				if e.Kind == EvCall {
					if m := IfaceMethod(e.Call); m != nil && m.Name() == "Put" {
						puts = append(puts, e)
					}
				}
			}
			if len(puts) > 1 {
				okN, whyN = false, fmt.Sprintf("%d records for one frame on a path", len(puts))
			}
			if len(puts) == 0 {
				continue
			}
			nPut++
			arg := s.Resolve(puts[0].Call.Args[0])
			if mi, ok := arg.(*ssa.MakeInterface); ok {
				arg = s.Resolve(mi.X)
			}
			lf := litFields(s, arg)
			spec := want[proto]
			if spec == nil {
				okP, whyP = false, "no provenance oracle for protocol "+proto
				continue
			}
			var fields []string
			for f := range spec {
				fields = append(fields, f)
			}
			sort.Strings(fields)
			for _, f := range fields {
				v, has := lf[f]
				if !has {
					okP, whyP = false, "record field "+f+" is not set"
					continue
				}
				e := sxSeg(s, v, 0)
				for _, sub := range spec[f] {
					if !strings.Contains(e, sub) {
						okP, whyP = false, fmt.Sprintf("record field %s is %s (expected to derive from %s of this frame)", f, e, strings.Join(spec[f], " "))
					}
				}
			}
			if proto == "icmp" {
				if v, has := lf["ICMP"]; has {
					rl := litFields(s, v)
					for f, subs := range map[string][]string{"Type": {"rcvICMP.TypeCode", ".Type("}, "Code": {"rcvICMP.TypeCode", ".Code("}} {
						e := sxSeg(s, rl[f], 0)
						for _, sub := range subs {
							if !strings.Contains(e, sub) {
								okP, whyP = false, fmt.Sprintf("response field %s is %s", f, e)
							}
						}
					}
				}
			}
			if proto == "tcp" {
				// emitted only when the configured packet filter accepted the received TCP layer
				accepted := false
				for _, e := range s.Events {
					if e.Kind == EvCall && e.Ord < puts[0].Ord {
						if _, f, isF := fieldLoad(s.Resolve(e.Call.Value)); isF && f == "pktFilter" {
							if k, v := s.BoolFact(e.Val); k && v && strings.Contains(sxSeg(s, e.Call.Args[0], 0), "rcvTCP") {
								accepted = true
							}
						}
					}
				}
				if !accepted {
					okG, whyG = false, "a record is emitted on a path where the packet filter did not accept the received TCP header"
				}
			}
		}
		r.Check(okN && nPut > 0, "C03.R4", name+"/at-most-one", pos, "a frame yields at most one record", whyN)
		r.Check(okP && nPut > 0, "C03.R4", name+"/provenance", pos, "record fields are read from the layers decoded for this frame", whyP)
		if proto == "tcp" {
			r.Check(okG, "C03.R4", name+"/filtered", pos, "a TCP record is emitted only when the configured packet filter accepted the received header", whyG)
		}
		// result struct holds values only
		if rt := recvNamed(proc); rt != nil {
			sc := proc.Pkg.Pkg.Scope()
			if o := sc.Lookup("ScanResult"); o != nil {
				if st, ok := o.Type().Underlying().(*types.Struct); ok {
					bad := ""
					for i := 0; i < st.NumFields(); i++ {
						switch t := st.Field(i).Type().Underlying().(type) {
						case *types.Basic:
						case *types.Pointer:
							if _, ok := t.Elem().Underlying().(*types.Struct); !ok {
								bad = st.Field(i).Name()
							}
						default:
							bad = st.Field(i).Name()
						}
					}
					r.Check(bad == "", "C03.R4", proc.Pkg.Pkg.Name()+".ScanResult/values-only", p.Pos(o.Pos()), "the record type holds copies (no slice into the zero-copy capture buffer)", "field "+bad+" is a reference type")
				}
			}
		}
	}
}

// sxSeg is sx with per-segment resolution of cells and phis.
func sxSeg(s *Seg, v ssa.Value, d int) string {
	if v == nil {
		return "nil"
	}
	if d > 14 {
		return "…"
	}
	v = s.Resolve(v)
	switch t := v.(type) {
	case *ssa.Convert:
		return sxSeg(s, t.X, d+1)
	case *ssa.ChangeType:
		return sxSeg(s, t.X, d+1)
	case *ssa.MakeInterface:
		return sxSeg(s, t.X, d+1)
	case *ssa.BinOp:
		return "(" + sxSeg(s, t.X, d+1) + t.Op.String() + sxSeg(s, t.Y, d+1) + ")"
	case *ssa.FieldAddr:
		return sxSeg(s, t.X, d+1) + "." + fieldName(t.X.Type(), t.Field)
	case *ssa.Field:
		return sxSeg(s, t.X, d+1) + "." + fieldName(t.X.Type(), t.Field)
	case *ssa.UnOp:
		if t.Op == token.MUL {
			if fa, ok := t.X.(*ssa.FieldAddr); ok {
				return sxSeg(s, fa.X, d+1) + "." + fieldName(fa.X.Type(), fa.Field)
			}
			if g, ok := t.X.(*ssa.Global); ok {
				return g.Name()
			}
			return sxSeg(s, t.X, d+1)
		}
		return t.Op.String() + sxSeg(s, t.X, d+1)
	case *ssa.Extract:
		return sxSeg(s, t.Tuple, d+1) + "#" + fmt.Sprint(t.Index)
	case *ssa.Lookup:
		return sxSeg(s, t.X, d+1) + "[" + sxSeg(s, t.Index, d+1) + "]"
	case *ssa.Call:
		var as []string
		for _, a := range t.Call.Args {
			as = append(as, sxSeg(s, a, d+1))
		}
		n := CalleeName(&t.Call)
		if strings.HasPrefix(n, "dynamic") {
			n = "dyn:" + sxSeg(s, t.Call.Value, d+1)
		}
		if t.Call.IsInvoke() {
			as = append([]string{sxSeg(s, t.Call.Value, d+1)}, as...)
		}
		return n + "(" + strings.Join(as, ",") + ")"
	case *ssa.Alloc:
		// a local array filled by exactly one copy(a[:], src) on this path and otherwise only read is a copy of src
		if src := localArrayCopySource(s, t); src != nil {
			return "copy(" + sxSeg(s, src, d+1) + ")"
		}
		return "new"
	case *ssa.Slice:
		return sxSeg(s, t.X, d+1) + "[:]"
	}
	return sx(v, d)
}

// ---- R5 ----

func checkFlagLetters(p *Prog, r *Report) {
	oracle := map[string]rune{"SYN": 's', "ACK": 'a', "FIN": 'f', "RST": 'r', "PSH": 'p', "URG": 'u', "ECE": 'e', "CWR": 'c', "NS": 'n'}
	var printer *ssa.Function
	for _, fn := range p.SrcFuncs() {
		if fn.Pkg != p.SPkg("pkg/scan/tcp") || fn.Parent() != nil {
			continue
		}
		n := 0
		for _, b := range fn.Blocks {
			for _, in := range b.Instrs {
				if c, ok := in.(*ssa.Call); ok && isLetterWrite(&c.Call) {
					n++
				}
			}
		}
		if n >= 5 && fn.Signature.Params().Len() == 1 {
			printer = fn
		}
	}
	if printer == nil {
		r.Undecided("C03.R5", "flag printer", "-", "the all-flags printer is found in pkg/scan/tcp", "not found")
		return
	}
	got := map[string][]rune{}
	for _, b := range printer.Blocks {
		for _, in := range b.Instrs {
			c, ok := in.(*ssa.Call)
			if !ok || !isLetterWrite(&c.Call) {
				continue
			}
			ru, _ := letterOf(&c.Call)
			guard := "?"
			if len(b.Preds) == 1 {
				pb := b.Preds[0]
				if iff, ok := pb.Instrs[len(pb.Instrs)-1].(*ssa.If); ok && pb.Succs[0] == b {
					if base, f, ok := fieldLoad(iff.Cond); ok && base == ssa.Value(printer.Params[0]) {
						guard = f
					}
				}
			}
			got[guard] = append(got[guard], rune(ru))
		}
	}
	var names []string
	for n := range oracle {
		names = append(names, n)
	}
	sort.Strings(names)
	for _, n := range names {
		g := got[n]
		r.Check(len(g) == 1 && g[0] == oracle[n], "C03.R5", FuncName(printer)+"/"+n, p.Pos(printer.Pos()), fmt.Sprintf("header flag %s prints exactly the letter %q", n, string(oracle[n])), fmt.Sprintf("prints %q", string(g)))
	}
	if len(got["?"]) > 0 {
		r.Viol("C03.R5", FuncName(printer)+"/unguarded", p.Pos(printer.Pos()), "every letter is guarded by exactly one header flag", fmt.Sprintf("letters %q are not guarded by a single flag test", string(got["?"])))
	}
}

// ---- R7 ----

func checkFilterTranscription(p *Prog, r *Report) {
	var fn *ssa.Function
	for _, f := range p.SrcFuncs() {
		if len(callInstrs(f, "github.com/google/gopacket/pcap.CompileBPFFilter")) > 0 {
			fn = f
		}
	}
	if fn == nil {
		r.Undecided("C03.R7", "filter installer", "-", "a function compiles the filter with pcap.CompileBPFFilter", "not found")
		return
	}
	name := FuncName(fn)
	pos := p.Pos(fn.Pos())
	comp := callInstrs(fn, "github.com/google/gopacket/pcap.CompileBPFFilter")[0]
	// arguments: link type field of the receiver, snaplen parameter, filter parameter
	a0 := sx(comp.Call.Args[0], 0)
	okA := strings.HasSuffix(a0, ".linkType") && comp.Call.Args[1] == ssa.Value(fn.Params[2]) && comp.Call.Args[2] == ssa.Value(fn.Params[1])
	r.Check(okA, "C03.R7", name+"/compile-args", pos, "the filter text and snap length given by the caller are compiled for the socket's own link type", "arguments: "+a0+", "+sx(comp.Call.Args[1], 0)+", "+sx(comp.Call.Args[2], 0))
	// per-instruction literal
	okT, whyT := false, "no instruction literal found"
	fp := Paths(fn)
	var appended ssa.Value
	for _, s := range fp.Segs {
		for _, b := range s.Blocks {
			for _, in := range b.Instrs {
				a, ok := in.(*ssa.Alloc)
				if !ok || !strings.HasSuffix(types.TypeString(a.Type(), nil), "bpf.RawInstruction") {
					continue
				}
				lf := litFields(s, a)
				mapping := map[string]string{"Op": "Code", "Jt": "Jt", "Jf": "Jf", "K": "K"}
				good := true
				for to, from := range mapping {
					e := sx(lf[to], 0)
					if !strings.HasSuffix(e, "[]."+from) && !strings.HasSuffix(e, "."+from) {
						good = false
						whyT = fmt.Sprintf("installed instruction field %s is %s, expected the compiled instruction's %s", to, e, from)
					}
				}
				if good {
					okT, whyT = true, ""
				}
			}
		}
	}
	r.Check(okT, "C03.R7", name+"/transcription", pos, "each compiled instruction is installed verbatim (Op=Code, Jt=Jt, Jf=Jf, K=K)", whyT)
	// SetBPF receives the slice built in the loop and its error is returned; compile error returned
	okI, whyI := false, "the transcribed program is not installed"
	for _, b := range fn.Blocks {
		for _, in := range b.Instrs {
			if c, ok := in.(*ssa.Call); ok {
				if f := StaticCallee(&c.Call); f != nil && f.Name() == "SetBPF" {
					appended = c.Call.Args[1]
					e := sx(appended, 0)
					_ = e
					okI, whyI = true, ""
					// every return after it returns its result
					for _, s := range fp.Segs {
						if s.Has(c) && s.Returns() {
							if s.Resolve(s.Exit.(*ssa.Return).Results[0]) != ssa.Value(c) {
								okI, whyI = false, "the result of installing the program is not returned"
							}
						}
					}
				}
			}
		}
	}
	for _, s := range fp.Segs {
		if !s.Has(comp) {
			continue
		}
		ex := extractOf(comp, 1)
		if ex == nil {
			okI, whyI = false, "the compile error is discarded"
			continue
		}
		k, isNil := s.NilFact(ex)
		if s.Returns() && retClass(s) == retFail && k && !isNil {
			continue
		}
		if !k || !isNil {
			okI, whyI = false, "the program is transcribed and installed on a path where compiling the filter may have failed (compile error not returned)"
		}
	}
	r.Check(okI, "C03.R7", name+"/install", pos, "the transcribed program is installed on the socket and both compile and install errors are returned", whyI)
	// link type follows the framing mode
	for _, f := range p.SrcFuncs() {
		if f.Pkg != fn.Pkg || f.Parent() != nil || f.Signature.Recv() != nil {
			continue
		}
		fpp := Paths(f)
		n := 0
		ok := true
		for _, s := range fpp.Segs {
			if !s.Returns() || retClass(s) == retFail {
				continue
			}
			if len(s.Exit.(*ssa.Return).Results) == 0 {
				continue
			}
			rv := s.Resolve(s.Exit.(*ssa.Return).Results[0])
			a, isA := rv.(*ssa.Alloc)
			if !isA {
				continue
			}
			lf := litFields(s, a)
			lt, has := lf["linkType"]
			if !has {
				continue
			}
			n++
			var vpn, known bool
			for _, prm := range f.Params {
				if types.TypeString(prm.Type(), nil) == "bool" {
					known, vpn = s.BoolFact(prm)
				}
			}
			c, isC := s.Resolve(lt).(*ssa.Const)
			if !known || !isC {
				ok = false
				continue
			}
			nm := namedConstName(c)
			if vpn && !strings.Contains(nm, "LinkTypeIPv4") || !vpn && !strings.Contains(nm, "LinkTypeEthernet") {
				ok = false
			}
		}
		if n > 0 {
			r.Check(ok && n >= 2, "C03.R7", FuncName(f)+"/link-type", p.Pos(f.Pos()), "the filter is compiled for raw IPv4 in VPN mode and for Ethernet otherwise", "link type does not follow the framing flag")
		}
	}
}

// ---- R8 ----

func checkBPFBuilders(p *Prog, r *Report) {
	n := 0
	for _, fn := range p.SrcFuncs() {
		if fn.Parent() != nil || fn.Signature.Recv() != nil || fn.Signature.Params().Len() != 1 || fn.Signature.Results().Len() != 2 {
			continue
		}
		if types.TypeString(fn.Signature.Params().At(0).Type(), nil) != "*"+modPath+"/pkg/scan.Range" || types.TypeString(fn.Signature.Results().At(0).Type(), nil) != "string" {
			continue
		}
		n++
		name := FuncName(fn)
		pos := p.Pos(fn.Pos())
		fp := Paths(fn)
		// dereferences of r.DstSubnet are dominated by r.DstSubnet != nil
		okD, whyD := true, ""
		uses := 0
		for _, s := range fp.Segs {
			for _, e := range s.Events {
				if e.Kind != EvCall {
					continue
				}
				for _, a := range e.Call.Args {
					b, f, isF := fieldLoad(s.Resolve(a))
					if !isF || f != "DstSubnet" || b != ssa.Value(fn.Params[0]) {
						continue
					}
					if g := StaticCallee(e.Call); g != nil && IsRepoPkg(pkgOfCallee(e.Call)) {
						continue // passed on to another builder, which is checked itself
					}
					uses++
					if known, isNil := fieldNilFact(s, fn.Params[0], "DstSubnet"); !known || isNil {
						okD, whyD = false, "the target subnet is dereferenced on a path where it may be nil (file mode without a subnet argument crashes)"
					}
				}
			}
		}
		r.Check(okD, "C03.R8", name+"/subnet-guard", pos, "the target subnet is used only under DstSubnet != nil", whyD)
		// capture length covers Ethernet + maximal IPv4 header + the transport header the processor reads
		need := map[string]int64{"tcp": 14 + 60 + 60, "icmp": 14 + 60 + 8, "arp": 14 + 28}[lastElem(fn.Pkg.Pkg.Path())]
		okS, whyS := need > 0, "no oracle for this protocol"
		nRet := 0
		for _, s := range fp.Segs {
			if !s.Returns() {
				continue
			}
			nRet++
			v := s.Resolve(s.Exit.(*ssa.Return).Results[1])
			k, isC := constInt(v)
			if !isC {
				// delegated to another builder of the same package
				if ex, isEx := v.(*ssa.Extract); isEx && ex.Index == 1 {
					if c, isCall := ex.Tuple.(*ssa.Call); isCall {
						if g := StaticCallee(&c.Call); g != nil && g.Pkg == fn.Pkg {
							continue
						}
					}
				}
				okS, whyS = false, "capture length is not a constant"
				continue
			}
			if k < need {
				okS, whyS = false, fmt.Sprintf("capture length %d is shorter than a reply with a maximal IPv4 header needs (%d): replies carrying IP options are cut before the transport header and dropped", k, need)
			}
		}
		r.Check(okS && nRet > 0, "C03.R8", name+"/snaplen", pos, fmt.Sprintf("the capture length covers link header, a 60-byte IPv4 header and the transport header read by the processor (>= %d)", need), whyS)
		// port clauses
		for _, b := range fn.Blocks {
			for _, in := range b.Instrs {
				c, ok := in.(*ssa.Call)
				if !ok || calleeFull(&c.Call) != "fmt.Sprintf" {
					continue
				}
				format, _ := constString(c.Call.Args[0])
				if !strings.Contains(format, "port") {
					continue
				}
				elems, ok := VariadicElems(c.Call.Args[1])
				if !ok || len(elems) != 2 {
					r.Undecided("C03.R8", name+"/port-clause", pos, "the port clause is formatted from two values", "variadic not built in place")
					continue
				}
				e0, e1 := sx(elems[0], 0), sx(elems[1], 0)
				good := strings.HasSuffix(e0, "r.Ports[].StartPort") && strings.HasSuffix(e1, "r.Ports[].EndPort")
				// the element indexed is the range loop's own element
				if good {
					i0 := indexOfPortElem(elems[0])
					i1 := indexOfPortElem(elems[1])
					good = i0 != nil && i0 == i1
				}
				r.Check(good, "C03.R8", name+"/port-clause", p.Pos(c.Pos()), "each port range of the scanned chunk contributes one clause with its own start and end, in that order", "clause arguments: "+e0+", "+e1)
			}
		}
	}
	if n < 4 {
		r.Viol("C03.R8", "bpf builders", "-", "four BPF builders exist (tcp, tcp syn-ack, icmp, arp)", fmt.Sprintf("found %d", n))
	}
}

func indexOfPortElem(v ssa.Value) ssa.Value {
	v = stripConvAll(v)
	u, ok := v.(*ssa.UnOp)
	if !ok {
		return nil
	}
	fa, ok := u.X.(*ssa.FieldAddr)
	if !ok {
		return nil
	}
	u2, ok := fa.X.(*ssa.UnOp)
	if !ok {
		return nil
	}
	ia, ok := u2.X.(*ssa.IndexAddr)
	if !ok {
		return nil
	}
	return ia.Index
}

// isLetterWrite: one constant letter appended to a strings.Builder (WriteRune or WriteByte).
func isLetterWrite(c *ssa.CallCommon) bool {
	_, ok := letterOf(c)
	return ok
}

// letterOf: the constant letter a call appends (strings.Builder.WriteRune / WriteByte, or append(buf, 'x')).
func letterOf(c *ssa.CallCommon) (int64, bool) {
	switch calleeFull(c) {
	case "(*strings.Builder).WriteRune", "(*strings.Builder).WriteByte":
		return constInt(c.Args[1])
	}
	if bi, ok := c.Value.(*ssa.Builtin); ok && bi.Name() == "append" && len(c.Args) == 2 {
		if _, isByte := c.Args[0].Type().Underlying().(*types.Slice); isByte {
			if elems, okv := VariadicElems(c.Args[1]); okv && len(elems) == 1 {
				return constInt(elems[0])
			}
		}
	}
	return 0, false
}

// checkParserTolerant (R6): a reply that carries bytes behind its transport header (RST with diagnostic
// text, SYN+ACK with data, ICMP error quoting the probe, padded ARP) is still a reply-shaped frame. The
// processors' parsers know only the headers; gopacket's DecodeLayers returns UnsupportedLayerType for the
// rest unless IgnoreUnsupported is set, and the processors return on that error before any record is put.
// So: every parser built with gopacket.NewDecodingLayerParser has IgnoreUnsupported stored true on every
// path from the constructor call to the return of the function that built it.
func checkParserTolerant(p *Prog, r *Report) {
	n := 0
	for _, fn := range p.SrcFuncs() {
		if fn.Pkg == nil || !strings.HasPrefix(fn.Pkg.Pkg.Path(), modPath+"/pkg/scan") {
			continue
		}
		var calls []*ssa.Call
		for _, b := range fn.Blocks {
			for _, in := range b.Instrs {
				if c, ok := in.(*ssa.Call); ok && calleeFull(&c.Call) == "github.com/google/gopacket.NewDecodingLayerParser" {
					calls = append(calls, c)
				}
			}
		}
		for i, c := range calls {
			n++
			name := fmt.Sprintf("%s/parser#%d/trailing-bytes", FuncName(fn), i+1)
			pos := p.Pos(c.Pos())
			fp := Paths(fn)
			if fp.Truncated {
				r.Undecided("C03.R6", name, pos, "the constructor's paths can be enumerated", "too many paths")
				continue
			}
			ok, why := true, ""
			nPath := 0
			var path []string
			for _, s := range fp.Segs {
				if !s.Returns() || !s.Has(c) {
					continue
				}
				nPath++
				set := false
				for _, b := range s.Blocks {
					for _, in := range b.Instrs {
						st, isS := in.(*ssa.Store)
						if !isS || !s.Has(st) || !s.Before(c, st) {
							continue
						}
						fa, isFA := st.Addr.(*ssa.FieldAddr)
						if !isFA || fieldName(fa.X.Type(), fa.Field) != "IgnoreUnsupported" {
							continue
						}
						base := fa.X
						for {
							inner, isInner := base.(*ssa.FieldAddr) // promoted through the embedded options struct
							if !isInner {
								break
							}
							base = inner.X
						}
						own := s.Resolve(base) == ssa.Value(c)
						if !own {
							for _, o := range p.Origins(base) {
								if o == ssa.Value(c) {
									own = true
								}
							}
						}
						if !own {
							continue
						}
						if k, isK := s.Resolve(st.Val).(*ssa.Const); isK && k.Value != nil && k.Value.String() == "true" {
							set = true
						} else {
							set = false
						}
					}
				}
				if !set {
					ok, why = false, "a path returns this parser with IgnoreUnsupported unset: a reply with bytes behind its transport header fails to decode and yields no record"
					path = s.Describe(p)
				}
			}
			r.Check(ok && nPath > 0, "C03.R6", name, pos, "the parser skips what lies behind the headers it knows (IgnoreUnsupported = true on every path), so replies with a payload are still reported", why, path...)
		}
	}
	if n < 3 {
		r.Viol("C03.R6", "parsers", "-", "tcp, icmp/udp and arp processors each build a parser", fmt.Sprintf("found %d", n))
	}
}

// localArrayCopySource: a is a local fixed-size array whose only writer is one `copy(a[:], src)` executed on
// segment s (every other referrer reads it); returns src.
func localArrayCopySource(s *Seg, a *ssa.Alloc) ssa.Value {
	if s == nil || a.Referrers() == nil {
		return nil
	}
	pt, ok := a.Type().Underlying().(*types.Pointer)
	if !ok {
		return nil
	}
	if _, isArr := pt.Elem().Underlying().(*types.Array); !isArr {
		return nil
	}
	var src ssa.Value
	n := 0
	for _, ref := range *a.Referrers() {
		switch t := ref.(type) {
		case *ssa.UnOp:
			// load
		case *ssa.Slice:
			if t.Referrers() == nil {
				return nil
			}
			for _, r2 := range *t.Referrers() {
				c, isC := r2.(*ssa.Call)
				if !isC {
					return nil
				}
				b, isB := c.Call.Value.(*ssa.Builtin)
				if !isB || b.Name() != "copy" || len(c.Call.Args) != 2 || c.Call.Args[0] != ssa.Value(t) || !s.Has(c) {
					return nil
				}
				n++
				src = c.Call.Args[1]
			}
		case *ssa.DebugRef:
		default:
			return nil
		}
	}
	if n != 1 {
		return nil
	}
	return src
}
