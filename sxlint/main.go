package main

import (
	"encoding/json"
	"flag"
	"fmt"
	"os"
	"sort"
	"strconv"
	"strings"
)

type ruleFn func(p *Prog, r *Report)

type propDef struct {
	ID          string
	Explanation string
	NotDecided  []string
	Assumptions []string
	Run         ruleFn
	Whole       bool // thorough tier wants dependencies with syntax (VTA call graph)
}

var props = map[string]*propDef{}

func register(d *propDef) { props[d.ID] = d }

func main() {
	if len(os.Args) < 2 {
		usage()
	}
	switch os.Args[1] {
	case "check":
		os.Exit(cmdCheck(os.Args[2:]))
	case "list":
		var ids []string
		for k := range props {
			ids = append(ids, k)
		}
		sort.Strings(ids)
		fmt.Println(strings.Join(ids, " "))
	case "describe":
		var ids []string
		for k := range props {
			ids = append(ids, k)
		}
		sort.Strings(ids)
		var out []map[string]interface{}
		for _, k := range ids {
			d := props[k]
			out = append(out, map[string]interface{}{"id": d.ID, "explanation": d.Explanation, "not_decided": d.NotDecided, "assumptions": d.Assumptions, "whole": d.Whole})
		}
		b, _ := json.MarshalIndent(out, "", " ")
		fmt.Println(string(b))
	case "replay":
		os.Exit(cmdReplay(os.Args[2:]))
	case "matrix":
		os.Exit(cmdMatrix(os.Args[2:]))
	default:
		usage()
	}
}

func usage() {
	fmt.Fprintln(os.Stderr, "usage: sxlint check -prop Cnn -tier quick|thorough [-repo /repo] [-verif /verif] | sxlint replay <file> | sxlint list")
	os.Exit(2)
}

type overlayFlag map[string]string

func (o overlayFlag) String() string { return fmt.Sprint(map[string]string(o)) }
func (o overlayFlag) Set(v string) error {
	i := strings.Index(v, "=")
	if i < 0 {
		return fmt.Errorf("want target=replacementfile")
	}
	o[v[:i]] = v[i+1:]
	return nil
}

func cmdCheck(args []string) int {
	fs := flag.NewFlagSet("check", flag.ExitOnError)
	prop := fs.String("prop", "", "property id")
	tier := fs.String("tier", "quick", "quick|thorough")
	repo := fs.String("repo", "/repo", "repository root")
	verif := fs.String("verif", "/verif", "verification directory")
	noEv := fs.Bool("no-evidence", false, "do not write evidence (corpus runs)")
	noCorpus := fs.Bool("no-corpus", false, "skip the self-validation corpus")
	failKeys := fs.Bool("fail-keys", false, "print FAIL-KEY lines (corpus runs)")
	list := fs.Bool("list", false, "print every obligation (debugging)")
	ov := overlayFlag{}
	fs.Var(ov, "overlay", "abs-target=replacement-file (checker self-validation only)")
	fs.Parse(args)
	d := props[*prop]
	if d == nil {
		fmt.Fprintf(os.Stderr, "unknown property %q\n", *prop)
		return 2
	}
	seed := int64(0)
	if s := os.Getenv("VERIF_SEED"); s != "" {
		if v, err := strconv.ParseInt(s, 10, 64); err == nil {
			seed = v
		}
	}
	r := NewReport(d.ID, *tier)
	r.Explanation = d.Explanation
	r.NotDecided = d.NotDecided
	r.Assumptions = append([]string{
		"Go type checker, x/tools go/packages + go/ssa builders (v0.29.0)",
		"Go semantics of channels, select, defer, WaitGroup",
	}, d.Assumptions...)
	var overlay map[string][]byte
	if len(ov) > 0 {
		overlay = map[string][]byte{}
		for k, v := range ov {
			b, err := os.ReadFile(v)
			if err != nil {
				fmt.Fprintln(os.Stderr, err)
				return 2
			}
			overlay[k] = b
		}
	}
	whole := *tier == "thorough" && d.Whole && len(ov) == 0
	p, err := Load(*repo, whole, overlay)
	if err != nil {
		if len(ov) > 0 {
			fmt.Println("OVERLAY-INVALID:", err)
			return 3
		}
		r.Viol(d.ID+".load", "repository", "-", "the repository must load and type-check in the primary configuration", err.Error())
		return r.Finish(*verif, seed, !*noEv)
	}
	r.Count("packages", len(p.All))
	r.Count("functions", len(p.SrcFuncs()))
	func() {
		defer func() {
			if e := recover(); e != nil {
				r.Undecided(d.ID+".panic", "analysis", "-", "the analysis must complete", fmt.Sprintf("analysis panic: %v\n%s", e, stack()))
			}
		}()
		d.Run(p, r)
	}()
	if *tier == "thorough" && !*noCorpus && len(ov) == 0 {
		r.Corpus = runCorpus(d.ID, *repo, *verif, seed)
	}
	r.ApplyVacuity()
	if *list {
		for _, o := range r.Obs {
			fmt.Printf("OB %-9s %-4s %s @%s\n", o.Verdict, o.Rule, o.Construct, o.Pos)
		}
	}
	if len(ov) > 0 || *failKeys {
		// corpus mode: print failing keys for the parent process
		for _, k := range r.FailKeys() {
			fmt.Println("FAIL-KEY " + k)
		}
	}
	return r.Finish(*verif, seed, !*noEv)
}

func cmdReplay(args []string) int {
	if len(args) != 1 {
		usage()
	}
	b, err := os.ReadFile(args[0])
	if err != nil {
		fmt.Fprintln(os.Stderr, err)
		return 2
	}
	fmt.Println(string(b))
	// re-evaluate the property the replay file belongs to
	id := ""
	base := args[0]
	if i := strings.LastIndex(base, "/"); i >= 0 {
		base = base[i+1:]
	}
	if i := strings.Index(base, "-"); i > 0 {
		id = base[:i]
	}
	if props[id] == nil {
		return 2
	}
	return cmdCheck([]string{"-prop", id, "-tier", "quick", "-no-evidence"})
}
