package main

import (
	"fmt"
	"go/ast"
	"go/constant"
	"go/token"
	"go/types"
	"math/big"
	"sort"
	"strings"

	"golang.org/x/tools/go/ssa"
)

func init() {
	register(&propDef{
		ID: "C04",
		Explanation: "The permutation theorem (P prime, G generator of (Z/P)*, gcd(N,P-1)=1 => G^(N^r mod (P-1)) is a generator; the walk I<-I*G' mod P from any start visits 1..P-1 once; values <= n < P are each of 1..n once) is turned into facts about the source: " +
			"R1 exact big-integer checks of every row of the cyclic-group table read from the typed AST (primality, full factorisation of P-1, generator test, coprimality, monotonicity, first/last modulus); " +
			"R2 selection of the first row with P > n and rejection of n<=0 / no row before any use; R3 symbolic value numbering of the math/big calls on the constructor's success path; " +
			"R4 path contract of the step function with the two Cmp guards folded over {-1,0,1}; R5 start normalisation after construction; R6 do-while use by consumers.",
		NotDecided:  []string{"nothing of the statement beyond the trusted elementary theorem and math/big semantics"},
		Assumptions: []string{"elementary group theory argument in DESIGN.md C04", "math/big Exp/Mul/Mod/Cmp/Set semantics", "math/rand.Int63 returns a non-negative int64"},
		Run:         runC04,
	})
}

type sym struct {
	op   string // "" for atoms
	atom string
	args []*sym
}

func (s *sym) String() string {
	if s == nil {
		return "?"
	}
	if s.op == "" {
		return s.atom
	}
	var a []string
	for _, x := range s.args {
		a = append(a, x.String())
	}
	return s.op + "(" + strings.Join(a, ",") + ")"
}

func atomS(a string) *sym { return &sym{atom: a} }
func isAtom(s *sym, a string) bool {
	return s != nil && s.op == "" && s.atom == a
}
func isOp(s *sym, op string, n int) bool { return s != nil && s.op == op && len(s.args) == n }

func runC04(p *Prog, r *Report) {
	r.Min("C04.R1", 32*4)
	r.Min("C04.R7", 2)
	checkRangeWidth(p, r)
	r.Min("C04.R2", 4)
	r.Min("C04.R3", 5)
	r.Min("C04.R4", 5)
	r.Min("C04.R5", 3)
	r.Min("C04.R6", 2)
	pk := p.Pkg("pkg/scan")
	if pk == nil {
		r.Undecided("C04.anchor", "pkg/scan", "-", "package pkg/scan exists", "not found")
		return
	}
	// anchor: the package-level slice of struct{P,G,N int64}
	var tableObj *types.Var
	sc := pk.Types.Scope()
	for _, n := range sc.Names() {
		v, ok := sc.Lookup(n).(*types.Var)
		if !ok {
			continue
		}
		sl, ok := v.Type().Underlying().(*types.Slice)
		if !ok {
			continue
		}
		st, ok := sl.Elem().Underlying().(*types.Struct)
		if !ok || st.NumFields() != 3 {
			continue
		}
		names := map[string]bool{}
		for i := 0; i < 3; i++ {
			names[st.Field(i).Name()] = true
		}
		if names["P"] && names["G"] && names["N"] {
			tableObj = v
		}
	}
	if tableObj == nil {
		r.Undecided("C04.anchor", "cyclic-group table", "-", "a package-level []struct{P,G,N} table exists in pkg/scan", "not found")
		return
	}
	rows := extractRows(p, pk.Syntax, pk.TypesInfo, tableObj)
	if rows == nil {
		r.Undecided("C04.R1", "table "+tableObj.Name(), p.Pos(tableObj.Pos()), "table is a composite literal of constant rows", "cannot extract rows")
		return
	}
	r.Count("table_rows", len(rows))
	checkRows(p, r, tableObj, rows)

	// constructor: the function that indexes the table
	tg := p.SPkg("pkg/scan").Var(tableObj.Name())
	var ctor *ssa.Function
	for _, fn := range p.SrcFuncs() {
		if fn.Pkg != p.SPkg("pkg/scan") || fn.Parent() != nil {
			continue
		}
		for _, b := range fn.Blocks {
			for _, in := range b.Instrs {
				if ia, ok := in.(*ssa.IndexAddr); ok {
					if g := globalOfLoad(ia.X); g != nil && g == tg {
						ctor = fn
					}
				}
			}
		}
	}
	if ctor == nil {
		r.Undecided("C04.R2", "constructor", "-", "a function selects a row of the table", "no function indexes the table")
		return
	}
	iterT := checkCtor(p, r, ctor, tg)
	if iterT != nil {
		checkNext(p, r, iterT)
		checkConsumers(p, r, ctor, iterT)
	}
}

type row struct {
	P, G, N *big.Int
	pos     token.Pos
}

func extractRows(p *Prog, files []*ast.File, info *types.Info, tv *types.Var) []row {
	var lit *ast.CompositeLit
	for _, f := range files {
		for _, d := range f.Decls {
			gd, ok := d.(*ast.GenDecl)
			if !ok {
				continue
			}
			for _, sp := range gd.Specs {
				vs, ok := sp.(*ast.ValueSpec)
				if !ok {
					continue
				}
				for i, n := range vs.Names {
					if info.Defs[n] == tv && i < len(vs.Values) {
						lit, _ = vs.Values[i].(*ast.CompositeLit)
					}
				}
			}
		}
	}
	if lit == nil {
		return nil
	}
	st := tv.Type().Underlying().(*types.Slice).Elem().Underlying().(*types.Struct)
	var out []row
	for _, e := range lit.Elts {
		cl, ok := e.(*ast.CompositeLit)
		if !ok {
			return nil
		}
		vals := map[string]*big.Int{}
		for i, fe := range cl.Elts {
			var name string
			var ve ast.Expr
			if kv, ok := fe.(*ast.KeyValueExpr); ok {
				name = kv.Key.(*ast.Ident).Name
				ve = kv.Value
			} else {
				name = st.Field(i).Name()
				ve = fe
			}
			tv := info.Types[ve]
			if tv.Value == nil || tv.Value.Kind() != constant.Int {
				return nil
			}
			b, ok := new(big.Int).SetString(tv.Value.ExactString(), 10)
			if !ok {
				return nil
			}
			vals[name] = b
		}
		if vals["P"] == nil || vals["G"] == nil || vals["N"] == nil {
			return nil
		}
		out = append(out, row{vals["P"], vals["G"], vals["N"], cl.Pos()})
	}
	return out
}

func primeFactors(n *big.Int) []*big.Int {
	var out []*big.Int
	m := new(big.Int).Set(n)
	d := big.NewInt(2)
	one := big.NewInt(1)
	for new(big.Int).Mul(d, d).Cmp(m) <= 0 {
		if new(big.Int).Mod(m, d).Sign() == 0 {
			out = append(out, new(big.Int).Set(d))
			for new(big.Int).Mod(m, d).Sign() == 0 {
				m.Div(m, d)
			}
		}
		d.Add(d, one)
	}
	if m.Cmp(one) > 0 {
		out = append(out, m)
	}
	return out
}

func isPrimeExact(n *big.Int) bool {
	if n.Cmp(big.NewInt(2)) < 0 {
		return false
	}
	// trial division: moduli are < 2^34, exact and fast enough (sqrt < 2^17)
	d := big.NewInt(2)
	one := big.NewInt(1)
	for new(big.Int).Mul(d, d).Cmp(n) <= 0 {
		if new(big.Int).Mod(n, d).Sign() == 0 {
			return false
		}
		d.Add(d, one)
	}
	return true
}

func checkRows(p *Prog, r *Report, tv *types.Var, rows []row) {
	one := big.NewInt(1)
	two := big.NewInt(2)
	maxN := new(big.Int).Lsh(one, 32) // 2^32
	var prev *big.Int
	for i, rw := range rows {
		key := fmt.Sprintf("%s[%d]", tv.Name(), i)
		pos := p.Pos(rw.pos)
		limit := new(big.Int).Lsh(one, 40)
		if rw.P.Cmp(limit) > 0 {
			r.Undecided("C04.R1", key+"/prime", pos, "P is prime", "modulus too large for exact trial division")
			continue
		}
		r.Check(isPrimeExact(rw.P), "C04.R1", key+"/prime", pos, "P is prime (exact trial division)", "P="+rw.P.String()+" is composite")
		r.Check(prev == nil || rw.P.Cmp(prev) > 0, "C04.R1", key+"/increasing", pos, "moduli are strictly increasing (sort.Search precondition)", "P="+rw.P.String()+" does not exceed the previous modulus")
		prev = rw.P
		pm1 := new(big.Int).Sub(rw.P, one)
		gen := rw.G.Cmp(two) >= 0 && rw.G.Cmp(rw.P) < 0
		why := ""
		if gen && isPrimeExact(rw.P) {
			for _, q := range primeFactors(pm1) {
				e := new(big.Int).Div(pm1, q)
				if new(big.Int).Exp(rw.G, e, rw.P).Cmp(one) == 0 {
					gen = false
					why = fmt.Sprintf("G^((P-1)/%s) = 1 mod P: order of G divides (P-1)/%s", q, q)
				}
			}
		} else if !gen {
			why = "G not in [2,P-1]"
		}
		r.Check(gen, "C04.R1", key+"/generator", pos, "G generates (Z/P)*: G^((P-1)/q) != 1 for every prime q | P-1", fmt.Sprintf("P=%s G=%s: %s", rw.P, rw.G, why))
		cop := rw.N.Sign() > 0 && new(big.Int).GCD(nil, nil, rw.N, pm1).Cmp(one) == 0
		r.Check(cop, "C04.R1", key+"/coprime", pos, "N >= 1 and gcd(N, P-1) = 1", fmt.Sprintf("P=%s N=%s gcd=%s", rw.P, rw.N, new(big.Int).GCD(nil, nil, new(big.Int).Abs(rw.N), pm1)))
	}
	if len(rows) > 0 {
		first, last := rows[0], rows[len(rows)-1]
		r.Check(first.P.Cmp(two) > 0 && first.P.Cmp(big.NewInt(3)) <= 0, "C04.R1", tv.Name()+"/first", p.Pos(first.pos), "the first modulus is 3 (sizes 1 and 2 are served by the smallest group)", "first P="+first.P.String())
		want := new(big.Int).Add(maxN, big.NewInt(61))
		r.Check(last.P.Cmp(want) == 0, "C04.R1", tv.Name()+"/last", p.Pos(last.pos), "the last modulus is 2^32+61 (sizes up to 2^32+60 served, larger rejected)", "last P="+last.P.String())
	}
}

// checkCtor checks R2, R3, R5 on the constructor and returns the iterator type.
func checkCtor(p *Prog, r *Report, ctor *ssa.Function, tg *ssa.Global) *types.Named {
	name := FuncName(ctor)
	pos := p.Pos(ctor.Pos())
	fp := PathsInl(ctor)
	if len(ctor.Params) != 1 {
		r.Undecided("C04.R2", name, pos, "constructor takes the range size", "unexpected signature")
		return nil
	}
	nParam := ctor.Params[0]
	bindN := func(val int64) func(ssa.Value) (int64, bool) {
		return func(v ssa.Value) (int64, bool) {
			if v == nParam {
				return val, true
			}
			return 0, false
		}
	}
	// R2a: n <= 0 rejected before anything else: every segment on which n=0 or n=-1 is
	// consistent with the facts must return a non-nil error without touching the table.
	okReject := true
	detail := ""
	for _, s := range fp.Segs {
		if s.Start != ctor.Blocks[0] {
			continue
		}
		for _, nv := range []int64{0, -1, -1 << 40} {
			feasible := true
			for _, f := range s.Facts {
				if b, ok := EvalCond(s, f.Cond, bindN(nv)); ok && b != f.Truth {
					feasible = false
				}
			}
			if !feasible {
				continue
			}
			// feasible for a non-positive n: must be an error return with no table access / rand
			ret, isRet := s.Exit.(*ssa.Return)
			if !isRet || len(ret.Results) != 2 || isNilConst(ret.Results[1]) {
				okReject = false
				detail = fmt.Sprintf("a path consistent with n=%d does not return an error", nv)
			}
			for _, e := range s.Events {
				if e.Kind == EvCall && (calleeFull(e.Call) == "sort.Search" || calleeFull(e.Call) == "sort.Find" || strings.HasPrefix(calleeFull(e.Call), "math/big") || strings.HasPrefix(calleeFull(e.Call), "(*math/big")) {
					okReject = false
					detail = fmt.Sprintf("a path consistent with n=%d reaches %s", nv, calleeFull(e.Call))
				}
			}
		}
	}
	r.Check(okReject, "C04.R2", name+"/reject-nonpositive", pos, "n <= 0 returns an error before any use", detail)

	// R2b: selection of the first row with P > n: sort.Search(len(table), func(i){ table[i].P > n }),
	// or the linear idiom `idx := 0; for idx < len(table) && table[idx].P <= n { idx++ }`
	var search *ssa.Call
	for _, s := range fp.Segs {
		for _, e := range s.Events {
			if e.Kind == EvCall && (calleeFull(e.Call) == "sort.Search" || calleeFull(e.Call) == "sort.Find") {
				search = e.Instr.(*ssa.Call)
			}
		}
	}
	var selIdx ssa.Value
	var selPos token.Pos
	var loopHead *ssa.BasicBlock
	if search != nil {
		selIdx, selPos = search, search.Pos()
		isFind := calleeFull(&search.Call) == "sort.Find"
		if isFind {
			// idx, _ := sort.Find(n, cmp): the index is result #0
			for _, ref := range *search.Referrers() {
				if ex, isEx := ref.(*ssa.Extract); isEx && ex.Index == 0 {
					selIdx = ex
				}
			}
		}
		lenOK := false
		if bi, ok := stripConv(search.Call.Args[0]).(*ssa.Call); ok {
			if b, ok := bi.Call.Value.(*ssa.Builtin); ok && b.Name() == "len" && globalOfLoad(bi.Call.Args[0]) == tg {
				lenOK = true
			}
		}
		r.Check(lenOK, "C04.R2", name+"/search-bound", p.Pos(search.Pos()), "sort.Search ranges over the whole table (len(table))", "first argument is not len(table)")
		predOK := false
		predDetail := "predicate is not `table[i].P > n`"
		if cl := funcOfValue(search.Call.Args[1], 0); cl != nil && (len(cl.Blocks) > 1 || isFind) {
			// a predicate / comparator written with branches: every returning path returns a constant, and the
			// constant says "selected" (true, or <= 0 for sort.Find) exactly on the paths where row.P > n holds
			cfp := Paths(cl)
			good, nRet := !cfp.Truncated && len(cfp.Headers) == 0, 0
			for _, cs := range cfp.Segs {
				if !cs.Returns() {
					continue
				}
				nRet++
				ret := cs.Exit.(*ssa.Return)
				k, isK := cs.Resolve(ret.Results[0]).(*ssa.Const)
				if !isK || k.Value == nil {
					good = false
					continue
				}
				selected := false
				if isFind {
					kv, okK := constInt(k)
					if !okK {
						good = false
						continue
					}
					selected = kv <= 0
				} else {
					selected = k.Value.String() == "true"
				}
				decided := false
				for _, f := range cs.Facts {
					bo, isB := f.Cond.(*ssa.BinOp)
					if !isB {
						continue
					}
					x, y, op := bo.X, bo.Y, bo.Op
					if isNFree(x, nParam) && !isNFree(y, nParam) {
						x, y = y, x
						switch op {
						case token.LSS:
							op = token.GTR
						case token.LEQ:
							op = token.GEQ
						case token.GTR:
							op = token.LSS
						case token.GEQ:
							op = token.LEQ
						}
					}
					if !isRowFieldOfIndex(x, tg, cl.Params[0], "P") || !isNFree(y, nParam) {
						continue
					}
					greater := (op == token.GTR && f.Truth) || (op == token.LEQ && !f.Truth)
					notGreater := (op == token.GTR && !f.Truth) || (op == token.LEQ && f.Truth)
					if !greater && !notGreater {
						predDetail = "predicate is not strict: a group with P == n misses the value n"
						continue
					}
					decided = true
					if greater != selected {
						good = false
					}
				}
				if !decided {
					good = false
				}
			}
			predOK = good && nRet >= 2
		} else if cl != nil && len(cl.Blocks) == 1 {
			if ret, ok := cl.Blocks[0].Instrs[len(cl.Blocks[0].Instrs)-1].(*ssa.Return); ok && len(ret.Results) == 1 {
				if bo, ok := ret.Results[0].(*ssa.BinOp); ok {
					x, y := bo.X, bo.Y
					op := bo.Op
					if op == token.LSS {
						x, y = y, x
						op = token.GTR
					}
					if op == token.GTR && isRowFieldOfIndex(x, tg, cl.Params[0], "P") && isNFree(y, nParam) {
						predOK = true
					} else if op == token.GEQ || op == token.LEQ {
						predDetail = "predicate is not strict: a group with P == n misses the value n"
					}
				}
			}
		}
		r.Check(predOK, "C04.R2", name+"/search-predicate", p.Pos(search.Pos()), "the selected row is the first with P > n (strict)", predDetail)
	} else {
		// linear first-match loop
		heads := loopHeadersSorted(ctor)
		var idxPhi *ssa.Phi
		if len(heads) == 1 {
			for _, in := range heads[0].Instrs {
				if ph, ok := in.(*ssa.Phi); ok {
					if bt, isB := ph.Type().Underlying().(*types.Basic); isB && bt.Info()&types.IsInteger != 0 {
						idxPhi = ph
					}
				}
			}
		}
		if idxPhi == nil {
			r.Undecided("C04.R2", name+"/selection", pos, "row selected with sort.Search over the table or a linear first-match loop", "neither idiom found")
			return nil
		}
		H := heads[0]
		loopHead = H
		selIdx, selPos = idxPhi, idxPhi.Pos()
		initOK, stepOK := false, true
		for i, pb := range H.Preds {
			if !H.Dominates(pb) {
				if k, ok := constInt(idxPhi.Edges[i]); ok && k == 0 {
					initOK = true
				}
			}
		}
		contOK, whyCont := true, ""
		nBack := 0
		for _, s := range fp.From(H) {
			if s.End != H {
				continue
			}
			nBack++
			in := s.PhiIn(idxPhi)
			if bo, ok := in.(*ssa.BinOp); !ok || bo.Op != token.ADD || bo.X != ssa.Value(idxPhi) {
				stepOK = false
			} else if k, ok := constInt(bo.Y); !ok || k != 1 {
				stepOK = false
			}
			// the loop continues only while idx < len(table) and table[idx].P <= n
			inRange, notGreater := false, false
			for _, f := range s.Facts {
				bo, ok := f.Cond.(*ssa.BinOp)
				if !ok {
					continue
				}
				if bo.X == ssa.Value(idxPhi) && isLenOf(bo.Y, tg) && ((bo.Op == token.LSS && f.Truth) || (bo.Op == token.GEQ && !f.Truth)) {
					inRange = true
				}
				x, y, op, truth := bo.X, bo.Y, bo.Op, f.Truth
				if isNFree(x, nParam) && !isNFree(y, nParam) {
					// n OP row  ==  row OP' n
					x, y = y, x
					switch op {
					case token.LSS:
						op = token.GTR
					case token.LEQ:
						op = token.GEQ
					case token.GTR:
						op = token.LSS
					case token.GEQ:
						op = token.LEQ
					}
				}
				if isRowFieldOfIndex(x, tg, idxPhi, "P") && isNFree(y, nParam) {
					if (op == token.LEQ && truth) || (op == token.GTR && !truth) {
						notGreater = true
					} else if (op == token.LSS && truth) || (op == token.GEQ && !truth) {
						contOK, whyCont = false, "the scan stops at a row with P == n: a group with P == n misses the value n"
					}
				}
			}
			if !inRange || !notGreater {
				if contOK {
					contOK, whyCont = false, "the loop does not advance exactly while idx < len(table) and table[idx].P <= n"
				}
			}
		}
		r.Check(initOK && stepOK && nBack > 0, "C04.R2", name+"/search-bound", p.Pos(selPos), "the linear scan starts at row 0 and advances by one row", "start or step of the scan index")
		r.Check(contOK && nBack > 0, "C04.R2", name+"/search-predicate", p.Pos(selPos), "the selected row is the first with P > n (strict)", whyCont)
	}
	// idx == len guard dominates the index
	guardOK := true
	gdetail := ""
	nIdx := 0
	for _, s := range fp.Segs {
		for _, b := range s.Blocks {
			for _, in := range b.Instrs {
				ia, ok := in.(*ssa.IndexAddr)
				if !ok || globalOfLoad(ia.X) != tg {
					continue
				}
				nIdx++
				if loopHead != nil && s.End == loopHead {
					continue // the row test inside the linear scan, guarded by idx < len(table)
				}
				if s.Resolve(ia.Index) != selIdx {
					guardOK = false
					gdetail = "table indexed by something other than the search result"
					continue
				}
				found := false
				for _, f := range s.Facts {
					if bo, ok := s.Resolve(f.Cond).(*ssa.BinOp); ok && (bo.Op == token.EQL || bo.Op == token.GEQ) && !f.Truth {
						if s.Resolve(bo.X) == selIdx && isLenOf(bo.Y, tg) {
							found = true
						}
					}
					if bo, ok := s.Resolve(f.Cond).(*ssa.BinOp); ok && (bo.Op == token.LSS || bo.Op == token.NEQ) && f.Truth {
						if s.Resolve(bo.X) == selIdx && isLenOf(bo.Y, tg) {
							found = true
						}
					}
				}
				if !found {
					guardOK = false
					gdetail = "index not dominated by the idx == len(table) rejection"
				}
			}
		}
	}
	r.Check(guardOK && nIdx > 0, "C04.R2", name+"/no-row-rejected", p.Pos(selPos), "idx == len(table) returns an error; the table is indexed only below len", gdetail)

	// R3 + R5 on success segments (entry segments returning nil error)
	var iterT *types.Named
	if pt, ok := ctor.Signature.Results().At(0).Type().(*types.Pointer); ok {
		iterT, _ = pt.Elem().(*types.Named)
	}
	if iterT == nil {
		r.Undecided("C04.R3", name, pos, "constructor returns *iterator", "unexpected result type")
		return nil
	}
	nSucc := 0
	for _, s := range fp.Segs {
		ret, isRet := s.Exit.(*ssa.Return)
		if (s.Start != ctor.Blocks[0] && s.Start != loopHead) || !isRet || len(ret.Results) != 2 || !isNilConst(ret.Results[1]) {
			continue
		}
		nSucc++
		checkAlgebra(p, r, ctor, s, nParam, tg, iterT, nSucc)
	}
	if nSucc == 0 {
		r.Undecided("C04.R3", name, pos, "constructor has a success path", "none found")
	}
	// R5b: Next false and n > 1 => error
	for _, s := range fp.Segs {
		ret, isRet := s.Exit.(*ssa.Return)
		if (s.Start != ctor.Blocks[0] && s.Start != loopHead) || !isRet || len(ret.Results) != 2 || !isNilConst(ret.Results[1]) {
			continue
		}
		for _, e := range s.Events {
			if e.Kind == EvCall && isMethodOf(e.Call, iterT, "") && returnsBool(e.Call) {
				if k, v := s.BoolFact(e.Val); k && !v {
					// success although the first step found nothing: only allowed when n <= 1
					feasible2 := true
					for _, f := range s.Facts {
						if b, ok := EvalCond(s, f.Cond, bindN(2)); ok && b != f.Truth {
							feasible2 = false
						}
					}
					r.Check(!feasible2, "C04.R5", name+"/empty-first-step", pos, "a failed first step with n > 1 is an error, not a silently empty iterator", "success path with Next()==false is feasible for n=2", s.Describe(p)...)
				}
			}
		}
	}
	return iterT
}

func isLenOf(v ssa.Value, tg *ssa.Global) bool {
	if c, ok := stripConv(v).(*ssa.Call); ok {
		if b, ok := c.Call.Value.(*ssa.Builtin); ok && b.Name() == "len" {
			return globalOfLoad(c.Call.Args[0]) == tg
		}
	}
	return false
}

func isNFree(v ssa.Value, n *ssa.Parameter) bool {
	if v == ssa.Value(n) {
		return true
	}
	// inside the search closure n is a captured cell: *fv with binding = alloc whose only store is the parameter
	if u, ok := v.(*ssa.UnOp); ok && u.Op == token.MUL {
		if fv, ok := u.X.(*ssa.FreeVar); ok {
			if a, ok := BindingOf(fv).(*ssa.Alloc); ok {
				n0 := 0
				good := true
				for _, ref := range *a.Referrers() {
					if st, ok := ref.(*ssa.Store); ok && st.Addr == a {
						n0++
						if st.Val != ssa.Value(n) && !paramAlwaysReceives(st.Val, n) {
							good = false
						}
					}
				}
				return n0 == 1 && good
			}
		}
	}
	if fv, ok := v.(*ssa.FreeVar); ok {
		return BindingOf(fv) == ssa.Value(n) || paramAlwaysReceives(BindingOf(fv), n)
	}
	return false
}

// paramAlwaysReceives: v is a parameter of a helper function whose every call in n's function
// passes n at that position (the helper sees the same number).
func paramAlwaysReceives(v ssa.Value, n *ssa.Parameter) bool {
	q, ok := v.(*ssa.Parameter)
	if !ok || q.Parent() == n.Parent() {
		return false
	}
	idx := paramIndex(q.Parent(), q)
	sites := 0
	for _, b := range n.Parent().Blocks {
		for _, in := range b.Instrs {
			if c, ok := in.(*ssa.Call); ok && c.Call.StaticCallee() == q.Parent() {
				sites++
				if idx < 0 || idx >= len(c.Call.Args) || c.Call.Args[idx] != ssa.Value(n) {
					return false
				}
			}
		}
	}
	return sites > 0
}

// isRowFieldOfIndex: v == table[idx].<field>
func isRowFieldOfIndex(v ssa.Value, tg *ssa.Global, idx ssa.Value, field string) bool {
	u, ok := v.(*ssa.UnOp)
	if !ok || u.Op != token.MUL {
		return false
	}
	fa, ok := u.X.(*ssa.FieldAddr)
	if !ok || fieldName(fa.X.Type(), fa.Field) != field {
		return false
	}
	ia, ok := fa.X.(*ssa.IndexAddr)
	return ok && globalOfLoad(ia.X) == tg && ia.Index == idx
}

func isMethodOf(c *ssa.CallCommon, t *types.Named, name string) bool {
	f := StaticCallee(c)
	if f == nil || f.Signature.Recv() == nil {
		return false
	}
	rt := f.Signature.Recv().Type()
	if pt, ok := rt.(*types.Pointer); ok {
		rt = pt.Elem()
	}
	if !types.Identical(rt, t) {
		return false
	}
	return name == "" || f.Name() == name
}

func returnsBool(c *ssa.CallCommon) bool {
	res := c.Signature().Results()
	if res.Len() != 1 {
		return false
	}
	b, ok := res.At(0).Type().Underlying().(*types.Basic)
	return ok && b.Kind() == types.Bool
}

// checkAlgebra: symbolic value numbering over math/big on one success segment.
func checkAlgebra(p *Prog, r *Report, ctor *ssa.Function, s *Seg, nParam *ssa.Parameter, tg *ssa.Global, iterT *types.Named, ord int) {
	name := fmt.Sprintf("%s/success-path#%d", FuncName(ctor), ord)
	pos := p.Pos(ctor.Pos())
	state := map[ssa.Value]*sym{}
	alias := map[ssa.Value]ssa.Value{}
	curOrd := 0
	obj := func(v ssa.Value) ssa.Value {
		v = s.Resolve(v)
		for i := 0; i < 8; i++ {
			if a, ok := alias[v]; ok {
				v = a
				continue
			}
			// a field of the iterator literal read back (`it.startI = new(big.Int).Set(it.I)`): the object
			// last stored into that field on this path
			if u, isU := v.(*ssa.UnOp); isU && u.Op == token.MUL {
				if fa, isFA := u.X.(*ssa.FieldAddr); isFA {
					if _, isLocal := s.Resolve(fa.X).(*ssa.Alloc); isLocal {
						var last ssa.Value
						for _, e := range s.Events {
							if e.Kind == EvStore && e.Ord < curOrd {
								if fb, isFB := e.Addr.(*ssa.FieldAddr); isFB && s.Resolve(fb.X) == s.Resolve(fa.X) && fb.Field == fa.Field {
									last = e.Val
								}
							}
						}
						if last != nil {
							v = s.Resolve(last)
							continue
						}
					}
				}
			}
			break
		}
		return v
	}
	nrand := 0
	randAtoms := map[ssa.Value]string{}
	var intSym func(v ssa.Value) *sym
	intSym = func(v ssa.Value) *sym {
		v = s.Resolve(v)
		if v == ssa.Value(nParam) {
			return atomS("n")
		}
		if k, ok := constInt(v); ok {
			return atomS(fmt.Sprint(k))
		}
		switch t := v.(type) {
		case *ssa.Call:
			if calleeFull(&t.Call) == "math/rand.Int63" {
				if a, ok := randAtoms[t]; ok {
					return atomS(a)
				}
				nrand++
				randAtoms[t] = fmt.Sprintf("rand%d", nrand)
				return atomS(randAtoms[t])
			}
		case *ssa.UnOp:
			if t.Op == token.MUL {
				if fa, ok := t.X.(*ssa.FieldAddr); ok && isSelectedRow(s, fa.X, tg) {
					return atomS(fieldName(fa.X.Type(), fa.Field))
				}
			}
		case *ssa.Field:
			if isSelectedRowValue(s, t.X, tg) {
				return atomS(fieldName(t.X.Type(), t.Field))
			}
		case *ssa.BinOp:
			x, y := intSym(t.X), intSym(t.Y)
			if x != nil && y != nil {
				return &sym{op: t.Op.String(), args: []*sym{x, y}}
			}
		case *ssa.Convert:
			return intSym(t.X)
		}
		return nil
	}
	val := func(v ssa.Value) *sym {
		if sv, ok := state[obj(v)]; ok {
			return sv
		}
		// a read-only package-level big.Int constant (`var bigOne = big.NewInt(1)`)
		if g := globalOfLoad(s.Resolve(v)); g != nil && g.Pkg != nil && len(p.StoresToGlobalOutsideInit(g)) == 0 {
			if init := g.Pkg.Func("init"); init != nil {
				for _, b := range init.Blocks {
					for _, in := range b.Instrs {
						if st, isSt := in.(*ssa.Store); isSt && st.Addr == ssa.Value(g) {
							if c, isC := st.Val.(*ssa.Call); isC && calleeFull(&c.Call) == "math/big.NewInt" {
								if k, isK := constInt(c.Call.Args[0]); isK {
									return atomS(fmt.Sprint(k))
								}
							}
						}
					}
				}
			}
		}
		return nil
	}
	undec := ""
	var snapshot map[string]ssa.Value // iterator field -> object pointer at the first Next call
	var snapVals map[string]*sym
	iterFields := func() map[string]ssa.Value {
		out := map[string]ssa.Value{}
		for _, e := range s.Events {
			if e.Kind == EvStore {
				if fa, ok := e.Addr.(*ssa.FieldAddr); ok {
					if pt, ok := fa.X.Type().Underlying().(*types.Pointer); ok && types.Identical(pt.Elem(), iterT) {
						out[fieldName(fa.X.Type(), fa.Field)] = obj(e.Val)
					}
				}
			}
		}
		return out
	}
	var nextCalls []*Event
	var postSet []*Event
	for _, e := range s.Events {
		if e.Kind != EvCall {
			continue
		}
		curOrd = e.Ord
		cf := calleeFull(e.Call)
		args := e.Call.Args
		switch {
		case cf == "math/big.NewInt":
			sv := intSym(args[0])
			if sv == nil {
				undec = "big.NewInt of an unrecognised integer expression at " + p.Pos(e.Instr.Pos())
			}
			state[e.Val] = sv
		case strings.HasPrefix(cf, "(*math/big.Int)."):
			m := strings.TrimPrefix(cf, "(*math/big.Int).")
			z := obj(args[0])
			if snapshot != nil {
				if m == "Set" {
					postSet = append(postSet, e)
				}
				continue
			}
			switch m {
			case "Exp":
				state[z] = &sym{op: "exp", args: []*sym{val(args[1]), val(args[2]), val(args[3])}}
			case "Add", "Mul":
				a, b := val(args[1]), val(args[2])
				if a.String() > b.String() {
					a, b = b, a
				}
				state[z] = &sym{op: strings.ToLower(m), args: []*sym{a, b}}
			case "Sub", "Mod":
				state[z] = &sym{op: strings.ToLower(m), args: []*sym{val(args[1]), val(args[2])}}
			case "Set":
				state[z] = val(args[1])
			case "SetInt64", "SetUint64":
				state[z] = intSym(args[1])
				if state[z] == nil {
					undec = "big.Int." + m + " of an unrecognised integer expression at " + p.Pos(e.Instr.Pos())
				}
			case "Cmp", "Int64", "String", "Sign", "IsInt64", "BitLen":
				continue
			default:
				undec = "unmodelled math/big call " + m + " at " + p.Pos(e.Instr.Pos())
			}
			alias[e.Val] = z
		case isMethodOf(e.Call, iterT, "") && returnsBool(e.Call):
			nextCalls = append(nextCalls, e)
			if snapshot == nil {
				snapshot = iterFields()
				snapVals = map[string]*sym{}
				for k, o := range snapshot {
					snapVals[k] = state[o]
				}
			}
		}
	}
	if undec != "" {
		r.Undecided("C04.R3", name, pos, "the constructor's math/big calls are within the modelled vocabulary", undec)
		return
	}
	if snapshot == nil {
		r.Viol("C04.R5", name+"/first-step", pos, "the constructor advances to the first in-range element (one Next call)", "no step call on the success path", s.Describe(p)...)
		snapshot = iterFields()
		snapVals = map[string]*sym{}
		for k, o := range snapshot {
			snapVals[k] = state[o]
		}
	}
	// identify iterator fields by role: modulus (== atom P), generator, limit (== atom n), current & start
	desc := func() string {
		var ks []string
		for k, v := range snapVals {
			ks = append(ks, k+"="+v.String())
		}
		sort.Strings(ks)
		return strings.Join(ks, "; ")
	}
	var fMod, fGen, fLim string
	var fWalk []string
	for k, v := range snapVals {
		switch {
		case isAtom(v, "P"):
			fMod = k
		case isAtom(v, "n"):
			fLim = k
		case isOp(v, "exp", 3) && isAtom(v.args[0], "G"):
			fGen = k
		case isOp(v, "exp", 3):
			fWalk = append(fWalk, k)
		}
	}
	sort.Strings(fWalk)
	r.Check(fMod != "", "C04.R3", name+"/modulus", pos, "the iterator's modulus is the selected row's P", desc())
	r.Check(fLim != "", "C04.R3", name+"/limit", pos, "the iterator's range limit is n", desc())
	genOK := false
	if fGen != "" {
		g := snapVals[fGen]
		// exp(G, exp(N, <any>, P-1), P)
		e := g.args[1]
		if isAtom(g.args[2], "P") && isOp(e, "exp", 3) && isAtom(e.args[0], "N") && e.args[1] != nil && isPminus1(e.args[2]) {
			genOK = true
		}
	}
	r.Check(genOK, "C04.R3", name+"/generator", pos, "generator = G^(N^r mod (P-1)) mod P (exponent a power of N reduced modulo the group order P-1)", desc())
	walkOK := len(fWalk) == 2
	if walkOK {
		a, b := snapVals[fWalk[0]], snapVals[fWalk[1]]
		walkOK = a.String() == b.String() && isAtom(a.args[2], "P") && a.args[1] != nil &&
			(isAtom(a.args[0], "G") || (fGen != "" && a.args[0].String() == snapVals[fGen].String())) &&
			snapshot[fWalk[0]] != snapshot[fWalk[1]] && snapshot[fWalk[0]] != snapshot[fGen]
	}
	r.Check(walkOK, "C04.R3", name+"/start", pos, "current and start are two distinct objects both holding generator^r2 mod P (an element of the group)", desc())
	if fGen != "" && walkOK {
		// the two random exponents are different draws
		g := snapVals[fGen].args[1].args[1].String()
		w := snapVals[fWalk[0]].args[1].String()
		r.Check(g != w || !strings.Contains(g, "rand"), "C04.R3", name+"/draws", pos, "generator exponent and start exponent come from different random draws", "both are "+g)
	}
	// R5: exactly one step before return, then start.Set(current)
	r.Check(len(nextCalls) == 1, "C04.R5", name+"/first-step", pos, "exactly one step call positions the iterator on its first in-range element", fmt.Sprintf("%d step calls", len(nextCalls)))
	setOK := false
	for _, e := range postSet {
		a0, a1 := s.Resolve(e.Call.Args[0]), s.Resolve(e.Call.Args[1])
		f0, f1 := iterFieldOfLoad(a0, iterT), iterFieldOfLoad(a1, iterT)
		if len(fWalk) == 2 && f0 != "" && f1 != "" && f0 != f1 && (f0 == fWalk[0] || f0 == fWalk[1]) && (f1 == fWalk[0] || f1 == fWalk[1]) {
			setOK = true
		}
	}
	r.Check(setOK, "C04.R5", name+"/start-reset", pos, "after the first step the start marker is set to the current element (so the walk ends where emission began)", "no start.Set(current) after the step call", s.Describe(p)...)
}

func isPminus1(s *sym) bool {
	if isOp(s, "-", 2) && isAtom(s.args[0], "P") && isAtom(s.args[1], "1") {
		return true
	}
	if isOp(s, "sub", 2) && isAtom(s.args[0], "P") && isAtom(s.args[1], "1") {
		return true
	}
	return false
}

func iterFieldOfLoad(v ssa.Value, iterT *types.Named) string {
	if u, ok := v.(*ssa.UnOp); ok && u.Op == token.MUL {
		if fa, ok := u.X.(*ssa.FieldAddr); ok {
			if pt, ok := fa.X.Type().Underlying().(*types.Pointer); ok && types.Identical(pt.Elem(), iterT) {
				return fieldName(fa.X.Type(), fa.Field)
			}
		}
	}
	return ""
}

// isSelectedRow: base is a local copy of table[idx] (or &table[idx] itself).
func isSelectedRow(s *Seg, base ssa.Value, tg *ssa.Global) bool {
	if ia, ok := base.(*ssa.IndexAddr); ok {
		return globalOfLoad(ia.X) == tg
	}
	if a, ok := base.(*ssa.Alloc); ok {
		n, good := 0, true
		for _, ref := range *a.Referrers() {
			if st, ok := ref.(*ssa.Store); ok && st.Addr == a {
				n++
				if !isSelectedRowValue(s, st.Val, tg) {
					good = false
				}
			}
		}
		return n == 1 && good
	}
	return false
}

func isSelectedRowValue(s *Seg, v ssa.Value, tg *ssa.Global) bool {
	if u, ok := v.(*ssa.UnOp); ok && u.Op == token.MUL {
		if ia, ok := u.X.(*ssa.IndexAddr); ok {
			return globalOfLoad(ia.X) == tg
		}
	}
	return false
}

// checkNext: R4 — the step function.
func checkNext(p *Prog, r *Report, iterT *types.Named) {
	// the step method: bool-returning pointer method of the iterator type containing a loop
	var next *ssa.Function
	for _, fn := range p.SrcFuncs() {
		if fn.Signature.Recv() == nil || fn.Signature.Results().Len() != 1 || len(LoopHeaders(fn)) == 0 {
			continue
		}
		rt := fn.Signature.Recv().Type()
		if pt, ok := rt.(*types.Pointer); ok && types.Identical(pt.Elem(), iterT) {
			next = fn
		}
	}
	if next == nil {
		r.Undecided("C04.R4", "step", "-", "the iterator has a looping bool step method", "not found")
		return
	}
	name := FuncName(next)
	pos := p.Pos(next.Pos())
	fp := Paths(next)
	heads := loopHeadersSorted(next)
	if len(heads) != 1 {
		r.Undecided("C04.R4", name, pos, "step method has one loop", fmt.Sprint(len(heads)))
		return
	}
	L := heads[0]
	recv := next.Params[0]
	var fieldOf func(s *Seg, v ssa.Value) string
	fieldOf = func(s *Seg, v ssa.Value) string {
		v = s.Resolve(v)
		// math/big methods return their receiver: x.Mul(..).Mod(..) operates on x
		if c, ok := v.(*ssa.Call); ok && strings.HasPrefix(calleeFull(&c.Call), "(*math/big.Int).") && len(c.Call.Args) > 0 {
			if _, isPtr := c.Type().(*types.Pointer); isPtr {
				return fieldOf(s, c.Call.Args[0])
			}
		}
		if u, ok := v.(*ssa.UnOp); ok && u.Op == token.MUL {
			if fa, ok := u.X.(*ssa.FieldAddr); ok && fa.X == ssa.Value(recv) {
				return fieldName(fa.X.Type(), fa.Field)
			}
		}
		return ""
	}
	// entry segments: a set stop flag returns false without stepping
	for i, s := range fp.From(next.Blocks[0]) {
		key := fmt.Sprintf("%s/entry-path#%d", name, i+1)
		muts := 0
		for _, e := range s.Events {
			if e.Kind == EvCall && strings.HasPrefix(calleeFull(e.Call), "(*math/big.Int).") {
				muts++
			}
		}
		if s.End == nil {
			ret, _ := s.Exit.(*ssa.Return)
			b, isC := false, false
			if ret != nil && len(ret.Results) == 1 {
				b, isC = constBool(s.Resolve(ret.Results[0]))
			}
			r.Check(ret != nil && isC && !b && muts == 0, "C04.R4", key, pos, "an exhausted iterator returns false without stepping", "entry exit is not `return false` without effects", s.Describe(p)...)
		} else {
			r.Check(muts == 0, "C04.R4", key, pos, "nothing is mutated before the step loop", "math/big call before the loop", s.Describe(p)...)
		}
	}
	var cur, gen, mod, start, limit string
	for i, s := range fp.From(L) {
		key := fmt.Sprintf("%s/step-path#%d", name, i+1)
		var bigs []*Event
		for _, e := range s.Events {
			if e.Kind == EvCall && strings.HasPrefix(calleeFull(e.Call), "(*math/big.Int).") {
				bigs = append(bigs, e)
			}
		}
		// expected prefix: Mul(cur,cur,gen); Mod(cur,cur,mod); Cmp(cur,start)
		if len(bigs) < 3 {
			r.Viol("C04.R4", key, pos, "each step is I <- I*G mod P via math/big Mul then Mod, then compared with the start marker", fmt.Sprintf("only %d math/big calls on this path", len(bigs)), s.Describe(p)...)
			continue
		}
		m := func(e *Event) string { return strings.TrimPrefix(calleeFull(e.Call), "(*math/big.Int).") }
		a := func(e *Event, i int) string { return fieldOf(s, e.Call.Args[i]) }
		ok := m(bigs[0]) == "Mul" && m(bigs[1]) == "Mod" && m(bigs[2]) == "Cmp"
		if ok {
			c := a(bigs[0], 0)
			ok = c != "" && a(bigs[0], 1) == c && a(bigs[0], 2) != "" && a(bigs[0], 2) != c &&
				a(bigs[1], 0) == c && a(bigs[1], 1) == c && a(bigs[1], 2) != "" && a(bigs[1], 2) != c && a(bigs[1], 2) != a(bigs[0], 2) &&
				a(bigs[2], 0) == c && a(bigs[2], 1) != "" && a(bigs[2], 1) != c
			if ok {
				cur, gen, mod, start = c, a(bigs[0], 2), a(bigs[1], 2), a(bigs[2], 1)
			}
		}
		if !ok {
			r.Viol("C04.R4", key, pos, "each step is exactly cur.Mul(cur, gen); cur.Mod(cur, mod); cur.Cmp(start)", "math/big call sequence differs", s.Describe(p)...)
			continue
		}
		// fold first guard over Cmp in {-1,0,1}
		cmp1 := bigs[2].Val
		type outcome struct{ feasible bool }
		feas := func(cmpVals map[ssa.Value]int64) bool {
			for _, f := range s.Facts {
				if b, ok := EvalCond(s, f.Cond, func(v ssa.Value) (int64, bool) { k, ok := cmpVals[v]; return k, ok }); ok && b != f.Truth {
					return false
				}
			}
			return true
		}
		retFalse, retTrue := false, false
		if s.End == nil {
			if ret, ok := s.Exit.(*ssa.Return); ok && len(ret.Results) == 1 {
				if b, isC := constBool(s.Resolve(ret.Results[0])); isC {
					retFalse, retTrue = !b, b
				}
			}
		}
		if len(bigs) == 3 {
			// the "back at start" exit: feasible exactly for Cmp == 0, sets stop, returns false
			f0, fm, fp1 := feas(map[ssa.Value]int64{cmp1: 0}), feas(map[ssa.Value]int64{cmp1: -1}), feas(map[ssa.Value]int64{cmp1: 1})
			stored := false
			for _, e := range s.Events {
				if e.Kind == EvStore {
					if fa, ok := e.Addr.(*ssa.FieldAddr); ok && fa.X == ssa.Value(recv) {
						if b, isC := constBool(e.Val); isC && b {
							stored = true
						}
					}
				}
			}
			r.Check(f0 && !fm && !fp1 && retFalse && stored, "C04.R4", key, pos, "cur == start (Cmp == 0, folded over {-1,0,1}) sets the stop flag and returns false", fmt.Sprintf("feasible for cmp=0:%v -1:%v 1:%v, returns false:%v, stop stored:%v", f0, fm, fp1, retFalse, stored), s.Describe(p)...)
			continue
		}
		if len(bigs) != 4 || m(bigs[3]) != "Cmp" || a(bigs[3], 0) != cur || a(bigs[3], 1) == "" || a(bigs[3], 1) == start || a(bigs[3], 1) == cur {
			r.Viol("C04.R4", key, pos, "after the start test the current value is compared with the range limit", "unexpected math/big calls after the start test", s.Describe(p)...)
			continue
		}
		limit = a(bigs[3], 1)
		cmp2 := bigs[3].Val
		// first guard must exclude 0 on these paths
		f0 := feas(map[ssa.Value]int64{cmp1: 0, cmp2: 0})
		var feasSet []string
		for _, c2 := range []int64{-1, 0, 1} {
			if feas(map[ssa.Value]int64{cmp1: 1, cmp2: c2}) && feas(map[ssa.Value]int64{cmp1: -1, cmp2: c2}) {
				feasSet = append(feasSet, fmt.Sprint(c2))
			}
		}
		fs := strings.Join(feasSet, ",")
		switch {
		case retTrue:
			r.Check(!f0 && fs == "-1,0", "C04.R4", key, pos, "returns true exactly when cur <= limit (Cmp in {-1,0}) and cur != start", "feasible limit comparisons: {"+fs+"}", s.Describe(p)...)
		case s.End == L:
			r.Check(!f0 && fs == "1", "C04.R4", key, pos, "keeps stepping exactly when cur > limit (Cmp == 1)", "feasible limit comparisons: {"+fs+"}", s.Describe(p)...)
		default:
			r.Viol("C04.R4", key, pos, "a step path either returns true, returns false at the start marker, or loops", "unexpected exit", s.Describe(p)...)
		}
	}
	_ = gen
	_ = mod
	_ = limit
}

// checkConsumers: R6 — loops driven by the iterator use the do-while idiom.
func checkConsumers(p *Prog, r *Report, ctor *ssa.Function, iterT *types.Named) {
	n := 0
	for _, fn := range p.SrcFuncs() {
		if fn == ctor {
			continue
		}
		usesNext := false
		for _, b := range fn.Blocks {
			for _, in := range b.Instrs {
				if c, ok := in.(*ssa.Call); ok && isMethodOf(&c.Call, iterT, "") && returnsBool(&c.Call) {
					usesNext = true
				}
			}
		}
		if !usesNext || fn.Signature.Recv() != nil && recvNamed(fn) == iterT {
			continue
		}
		n++
		name := FuncName(fn)
		fp := Paths(fn)
		// every segment that calls the step method has consumed the current value (a call to the
		// value accessor) before it, and continues the loop iff the step returned true
		ok := true
		detail := ""
		for _, s := range fp.Segs {
			var stepEv, valEv *Event
			for _, e := range s.Events {
				if e.Kind != EvCall {
					continue
				}
				if isMethodOf(e.Call, iterT, "") {
					if returnsBool(e.Call) {
						if stepEv != nil {
							ok, detail = false, "two steps on one path: an element is skipped"
						}
						stepEv = e
					} else if valEv == nil {
						valEv = e
					}
				}
			}
			if stepEv == nil {
				continue
			}
			if valEv == nil || valEv.Ord > stepEv.Ord {
				ok, detail = false, "step before the current value is consumed (the first element is skipped)"
			}
			if k, v := s.BoolFact(stepEv.Val); k {
				if v && s.End == nil {
					ok, detail = false, "leaves the loop although more elements remain"
				}
				if !v && s.End != nil && s.End == s.Start {
					ok, detail = false, "continues although the iterator is exhausted"
				}
			}
		}
		r.Check(ok, "C04.R6", name, p.Pos(fn.Pos()), "consumer uses the do-while idiom: consume Int(), then Next(); loop iff true", detail)
	}
	r.Count("iterator_consumers", n)
}

func recvNamed(fn *ssa.Function) *types.Named {
	t := fn.Signature.Recv().Type()
	if pt, ok := t.(*types.Pointer); ok {
		t = pt.Elem()
	}
	n, _ := t.(*types.Named)
	return n
}

// checkRangeWidth (R7): range sizes go up to 2^32 and group moduli beyond it, so the iterator keeps them in
// 64-bit integers or big.Int: no conversion of a 64-bit integer to a narrower integer type in the iterator
// or its constructor, no struct field of the iterator narrower than 64 bits that holds a count, and no
// multiplication of two non-constant int64 values (I*G exceeds 2^63 for the largest group).
func checkRangeWidth(p *Prog, r *Report) {
	var fns []*ssa.Function
	for _, fn := range p.SrcFuncs() {
		if fn.Pkg != p.SPkg("pkg/scan") {
			continue
		}
		if fn.Name() == "newRangeIterator" || (fn.Signature.Recv() != nil && strings.HasSuffix(types.TypeString(fn.Signature.Recv().Type(), nil), ".rangeIterator")) {
			fns = append(fns, fn)
		}
	}
	// same-package helpers they call (powMod and the like)
	seen := map[*ssa.Function]bool{}
	for _, fn := range fns {
		for g := range p.staticReach(fn) {
			if g.Pkg == fn.Pkg {
				seen[g] = true
			}
		}
	}
	is64 := func(t types.Type) bool {
		b, ok := t.Underlying().(*types.Basic)
		return ok && (b.Kind() == types.Int64 || b.Kind() == types.Uint64 || b.Kind() == types.Int || b.Kind() == types.Uint || b.Kind() == types.Uintptr)
	}
	narrow := func(t types.Type) bool {
		b, ok := t.Underlying().(*types.Basic)
		if !ok {
			return false
		}
		switch b.Kind() {
		case types.Int8, types.Int16, types.Int32, types.Uint8, types.Uint16, types.Uint32:
			return true
		}
		return false
	}
	var names []string
	for g := range seen {
		names = append(names, FuncName(g))
	}
	sort.Strings(names)
	for _, nm := range names {
		var g *ssa.Function
		for f := range seen {
			if FuncName(f) == nm {
				g = f
			}
		}
		var bad []string
		for _, b := range g.Blocks {
			for _, in := range b.Instrs {
				switch t := in.(type) {
				case *ssa.Convert:
					if is64(t.X.Type()) && narrow(t.Type()) {
						if _, isC := t.X.(*ssa.Const); !isC {
							bad = append(bad, fmt.Sprintf("64-bit value narrowed to %s at %s", t.Type(), p.Pos(t.Pos())))
						}
					}
				case *ssa.BinOp:
					if t.Op == token.MUL && is64(t.Type()) {
						_, cx := t.X.(*ssa.Const)
						_, cy := t.Y.(*ssa.Const)
						if !cx && !cy {
							bad = append(bad, "product of two 64-bit variables at "+p.Pos(t.Pos())+" (overflows for the largest group)")
						}
					}
				}
			}
		}
		r.Check(len(bad) == 0, "C04.R7", nm+"/width", p.Pos(g.Pos()), "range sizes and group elements stay in 64-bit integers or big.Int (no narrowing conversion, no int64 product)", strings.Join(bad, "; "))
	}
	if len(seen) < 2 {
		r.Viol("C04.R7", "iterator functions", "-", "the iterator constructor and its step method are found", fmt.Sprint(len(seen)))
	}
}
