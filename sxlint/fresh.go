package main

// Freshness of handed-over values.
//
// A value handed to another goroutine (sent on a channel, passed to a guarded-send helper, put on the
// result queue) must not share storage that the producer writes again: the consumer may look at it
// after the producer has moved on. The rule: every pointer-like component of the handed value has its
// storage either created in the same iteration (inside the loop body that performs the hand-over; for a
// loop-free function: inside the call), or is never written inside that region. Storage created before
// the loop, or belonging to the receiver / a captured variable / a package-level variable, that the region
// also writes (a store through it, or a call known to fill its argument) is reused storage.

import (
	"fmt"
	"go/token"
	"go/types"
	"sort"
	"strings"

	"golang.org/x/tools/go/ssa"
)

type accPath struct {
	root ssa.Value
	sel  string
}

func pointerLike(t types.Type) bool {
	switch u := t.Underlying().(type) {
	case *types.Pointer, *types.Slice, *types.Map:
		return true
	case *types.Interface:
		return true
	case *types.Struct:
		for i := 0; i < u.NumFields(); i++ {
			if pointerLike(u.Field(i).Type()) {
				return true
			}
		}
	}
	return false
}

// fillsArgument: calls known to write into (and possibly return) one of their arguments.
func fillsArgument(c *ssa.CallCommon) int {
	switch calleeFull(c) {
	case "(*math/big.Int).FillBytes":
		return 1
	case "io.ReadFull", "io.ReadAtLeast":
		return 1
	case "encoding/binary.Read":
		return 2
	}
	if bi, ok := c.Value.(*ssa.Builtin); ok && bi.Name() == "copy" {
		return 0
	}
	if n := calleeName(c); (n == "Read" || n == "ReadAt") && len(c.Args) >= 1 {
		if c.IsInvoke() {
			return 0
		}
		return 1
	}
	return -1
}

// returnsArgument: the result aliases that argument.
func returnsArgument(c *ssa.CallCommon) int {
	switch calleeFull(c) {
	case "(*math/big.Int).FillBytes":
		return 1
	}
	if bi, ok := c.Value.(*ssa.Builtin); ok && bi.Name() == "append" {
		return 0
	}
	return -1
}

func accessPath(v ssa.Value, d int) (accPath, bool) {
	if v == nil || d > 16 {
		return accPath{}, false
	}
	switch t := v.(type) {
	case *ssa.FieldAddr:
		p, ok := accessPath(t.X, d+1)
		p.sel += "." + fieldName(t.X.Type(), t.Field)
		return p, ok
	case *ssa.IndexAddr:
		p, ok := accessPath(t.X, d+1)
		p.sel += "[]"
		return p, ok
	case *ssa.Slice:
		return accessPath(t.X, d+1)
	case *ssa.UnOp:
		if t.Op == token.MUL {
			p, ok := accessPath(t.X, d+1)
			p.sel += "*"
			return p, ok
		}
	case *ssa.MakeInterface:
		return accessPath(t.X, d+1)
	case *ssa.ChangeType:
		return accessPath(t.X, d+1)
	case *ssa.Convert:
		return accessPath(t.X, d+1)
	case *ssa.Call:
		if i := returnsArgument(&t.Call); i >= 0 && i < len(t.Call.Args) {
			return accessPath(t.Call.Args[i], d+1)
		}
		return accPath{root: t}, true
	case *ssa.Alloc, *ssa.MakeSlice, *ssa.MakeMap, *ssa.Parameter, *ssa.FreeVar, *ssa.Global, *ssa.Extract, *ssa.Lookup, *ssa.Index, *ssa.Field:
		return accPath{root: v}, true
	}
	return accPath{}, false
}

// handedComponents collects the pointer-like values that travel with v.
func handedComponents(p *Prog, fn *ssa.Function, v ssa.Value) []ssa.Value {
	var out []ssa.Value
	seen := map[ssa.Value]bool{}
	var walk func(v ssa.Value, d int)
	walk = func(v ssa.Value, d int) {
		if v == nil || seen[v] || d > 12 || !pointerLike(v.Type()) {
			return
		}
		seen[v] = true
		switch t := v.(type) {
		case *ssa.MakeInterface:
			walk(t.X, d+1)
		case *ssa.ChangeType:
			walk(t.X, d+1)
		case *ssa.ChangeInterface:
			walk(t.X, d+1)
		case *ssa.Phi:
			for _, e := range t.Edges {
				walk(e, d+1)
			}
		case *ssa.Alloc:
			out = append(out, t)
			// composite literal: what is stored into its fields travels along
			for _, ref := range *t.Referrers() {
				switch r := ref.(type) {
				case *ssa.FieldAddr:
					for _, r2 := range *r.Referrers() {
						if st, ok := r2.(*ssa.Store); ok && st.Addr == ssa.Value(r) {
							walk(st.Val, d+1)
						}
					}
				case *ssa.Store:
					if r.Addr == ssa.Value(t) {
						walk(r.Val, d+1)
					}
				}
			}
		case *ssa.UnOp:
			if t.Op == token.MUL {
				// value loaded from a cell: what was stored there
				if a, ok := t.X.(*ssa.Alloc); ok {
					for _, sv := range p.StoresToAlloc(a) {
						walk(sv, d+1)
					}
					return
				}
				out = append(out, t)
			}
		case *ssa.Call:
			if i := returnsArgument(&t.Call); i >= 0 && i < len(t.Call.Args) {
				walk(t.Call.Args[i], d+1)
				return
			}
			if cal := StaticCallee(&t.Call); cal != nil && cal.Pkg != nil && IsRepoPkg(cal.Pkg.Pkg) && !t.Call.IsInvoke() {
				// a repository constructor / wrapper: its pointer-like arguments may travel inside the result
				for _, a := range t.Call.Args {
					walk(a, d+1)
				}
			}
			out = append(out, t)
		default:
			out = append(out, v)
		}
	}
	walk(v, 0)
	return out
}

// checkHandOverFreshness emits one obligation per function that hands values over.
func checkHandOverFreshness(p *Prog, r *Report, rule string, want func(fn *ssa.Function) bool) int {
	c12prog0 = p.SSA
	n := 0
	for _, fn := range p.SrcFuncs() {
		if !want(fn) {
			continue
		}
		type hand struct {
			instr ssa.Instruction
			val   ssa.Value
		}
		var hands []hand
		seenI := map[ssa.Instruction]bool{}
		for _, s := range Paths(fn).Segs {
			for _, em := range s.Emits() {
				if em.Ev == nil || em.Ev.Instr == nil || seenI[em.Ev.Instr] || em.Val == nil {
					continue
				}
				seenI[em.Ev.Instr] = true
				hands = append(hands, hand{em.Ev.Instr, em.Val})
			}
			for _, e := range s.Events {
				if e.Kind == EvCall && e.Call != nil && e.Call.IsInvoke() && e.Call.Method.Name() == "Put" && len(e.Call.Args) == 1 && !seenI[e.Instr] {
					seenI[e.Instr] = true
					hands = append(hands, hand{e.Instr, e.Call.Args[0]})
				}
			}
		}
		if len(hands) == 0 {
			continue
		}
		n++
		var bad []string
		heads := LoopHeaders(fn)
		for _, h := range hands {
			// region: the innermost loop containing the hand-over, else the whole function
			var region map[*ssa.BasicBlock]bool
			for hd := range heads {
				lb := loopBlocks(hd)
				if lb[h.instr.Block()] && (region == nil || len(lb) < len(region)) {
					region = lb
				}
			}
			inRegion := func(in ssa.Instruction) bool {
				if in == nil || in.Parent() != fn {
					return false
				}
				return region == nil || region[in.Block()]
			}
			for _, c := range handedComponents(p, fn, h.val) {
				ap, ok := accessPath(c, 0)
				if !ok || ap.root == nil {
					continue
				}
				outside := false
				switch rt := ap.root.(type) {
				case *ssa.Parameter, *ssa.FreeVar, *ssa.Global:
					outside = true
				case ssa.Instruction:
					outside = !inRegion(rt)
				}
				if !outside {
					continue
				}
				if w := writesStorage(fn, region, ap); w != "" {
					bad = append(bad, fmt.Sprintf("the value handed over at %s shares %s, which %s", p.Pos(h.instr.Pos()), describePath(ap), w))
				}
			}
		}
		sort.Strings(bad)
		bad = uniqStrings(bad)
		r.Check(len(bad) == 0, rule, FuncName(fn)+"/fresh-hand-over", p.Pos(fn.Pos()), "a value handed to another goroutine shares no storage that the producer writes again (created in the same iteration, or never written there)", strings.Join(bad, "; "))
	}
	return n
}

func describePath(ap accPath) string {
	name := ap.root.Name()
	if in, ok := ap.root.(ssa.Instruction); ok {
		name = fmt.Sprintf("storage created at line %d", c12prog0.Fset.Position(in.Pos()).Line)
	}
	return name + ap.sel
}

var c12prog0 *ssa.Program

func uniqStrings(in []string) []string {
	var out []string
	for i, s := range in {
		if i == 0 || s != in[i-1] {
			out = append(out, s)
		}
	}
	return out
}

// writesStorage: the region (nil = whole function) writes storage reachable through ap.
func writesStorage(fn *ssa.Function, region map[*ssa.BasicBlock]bool, ap accPath) string {
	covers := func(v ssa.Value) bool {
		q, ok := accessPath(v, 0)
		return ok && q.root == ap.root && strings.HasPrefix(strings.TrimRight(q.sel, "*"), strings.TrimRight(ap.sel, "*"))
	}
	for _, b := range fn.Blocks {
		if region != nil && !region[b] {
			continue
		}
		for _, in := range b.Instrs {
			switch t := in.(type) {
			case *ssa.Store:
				if _, isCell := t.Addr.(*ssa.Alloc); isCell && t.Addr != ap.root {
					continue
				}
				if t.Addr != ap.root && covers(t.Addr) {
					return fmt.Sprintf("is written at line %d in the same loop", c12prog0.Fset.Position(t.Pos()).Line)
				}
				if t.Addr == ap.root && ap.sel == "" {
					if _, isA := ap.root.(*ssa.Alloc); isA {
						continue // re-binding a local variable is not a write to shared storage
					}
				}
			case *ssa.Call:
				if i := fillsArgument(&t.Call); i >= 0 && i < len(t.Call.Args) && covers(t.Call.Args[i]) {
					return fmt.Sprintf("is filled by %s at line %d in the same loop", calleeName(&t.Call), c12prog0.Fset.Position(t.Pos()).Line)
				}
			case *ssa.MapUpdate:
				if covers(t.Map) {
					return fmt.Sprintf("is updated at line %d", c12prog0.Fset.Position(t.Pos()).Line)
				}
			}
		}
	}
	return ""
}

// checkNoGlobalWrites: the code that runs in several goroutines at once (workers, fillers, probes) keeps no
// mutable package-level state: outside package initialisers nothing stores through a package-level
// variable, fills one (Read / ReadFull / FillBytes / copy into it) or updates a package-level map.
func checkNoGlobalWrites(p *Prog, r *Report, rule string, rels ...string) {
	c12prog0 = p.SSA
	for _, rel := range rels {
		pk := p.SPkg(rel)
		if pk == nil {
			r.Undecided(rule, rel+"/no-global-writes", "-", "package is loaded", "missing")
			continue
		}
		var bad []string
		for _, fn := range p.SrcFuncs() {
			if fn.Pkg != pk || fn.Name() == "init" || strings.HasPrefix(fn.Name(), "init#") {
				continue
			}
			for _, b := range fn.Blocks {
				for _, in := range b.Instrs {
					var target ssa.Value
					switch t := in.(type) {
					case *ssa.Store:
						target = t.Addr
					case *ssa.MapUpdate:
						target = t.Map
					case *ssa.Call:
						if i := fillsArgument(&t.Call); i >= 0 && i < len(t.Call.Args) {
							target = t.Call.Args[i]
						}
					}
					if target == nil {
						continue
					}
					if ap, ok := accessPath(target, 0); ok {
						if g, isG := ap.root.(*ssa.Global); isG && g.Pkg != nil && IsRepoPkg(g.Pkg.Pkg) {
							bad = append(bad, fmt.Sprintf("%s writes package-level %s%s at %s", FuncName(fn), g.Name(), ap.sel, p.Pos(in.Pos())))
						}
					}
				}
			}
		}
		sort.Strings(bad)
		r.Check(len(bad) == 0, rule, rel+"/no-global-writes", "-", "no mutable package-level state: nothing outside the package initialiser writes through a package-level variable (the code runs in many goroutines at once)", strings.Join(bad, "; "))
	}
}
