package main

import (
	"fmt"
	"go/token"
	"go/types"
	"strings"

	"golang.org/x/tools/go/ssa"
)

func init() {
	register(&propDef{
		ID: "C13",
		Explanation: "Static conformance of the target-list stages: (R1) in both file generators every acyclic segment of the line loop emits exactly one item, and the emitted error is the sentinel of the first failing test (decode -> ErrJSON, address -> ErrIP, port range -> ErrPort with the port predicate folded to [1,65535]), a scanner error yields one error item; (R2) a decode target declared outside the loop has every field that is read afterwards reset on every path from the loop head to the decode; " +
			"(R5) a destination for which neither the cache nor a (nil-when-unknown) gateway MAC exists becomes an error request (C11.R4/R5 re-evaluated); (R3) in every request decorator (exclusion filter, ARP resolver, live wrapper) stores to a request and uses of its destination address are dominated by request.Err == nil, an error request is forwarded exactly once untouched, and every request is forwarded at most once; (R4) error requests never reach Fill/Scan (the builder and worker contracts of C07.R1/C08.R1 are re-evaluated).",
		NotDecided:  []string{"wording of third-party error strings", "net.ParseIP / easyjson decoding semantics"},
		Assumptions: []string{"bufio.Scanner delivers each line once"},
		Run:         runC13,
	})
}

const fnGenReq = modPath + "/pkg/scan.RequestGenerator.GenerateRequests"

func runC13(p *Prog, r *Report) {
	r.Min("C13.R1", 10)
	r.Min("C13.R2", 2)
	r.Min("C13.R3", 6)
	r.Min("C13.R4", 8)
	// file generators: goroutines with a loop driven by (*bufio.Scanner).Scan that call UnmarshalJSON
	n := 0
	for _, fn := range p.SrcFuncs() {
		if fn.Pkg != p.SPkg("pkg/scan") || fn.Parent() == nil {
			continue
		}
		if !callsNamed(fn, "(*bufio.Scanner).Scan") {
			continue
		}
		n++
		checkFileGenerator(p, r, fn)
	}
	r.Count("file_generators", n)
	if n < 2 {
		r.Viol("C13.R1", "file generators", "-", "both target-file readers (address file, address/port file) are bufio.Scanner loops", fmt.Sprintf("found %d", n))
	}
	// any other loop in pkg/scan that decodes target lines is outside the line-reading discipline this
	// rule models (bufio.Reader.ReadLine prefixes, hand-written splitting): undecided, never silently accepted
	for _, fn := range p.SrcFuncs() {
		if fn.Pkg != p.SPkg("pkg/scan") || callsNamed(fn, "(*bufio.Scanner).Scan") {
			continue
		}
		inLoop := false
		for h := range LoopHeaders(fn) {
			for b := range loopBlocks(h) {
				for _, in := range b.Instrs {
					if c, ok := in.(*ssa.Call); ok && isDecodeCall(&c.Call) {
						inLoop = true
					}
				}
			}
		}
		if inLoop {
			r.Undecided("C13.R1", FuncName(fn)+"/line-reader", p.Pos(fn.Pos()), "target lines are read with bufio.Scanner (one token per line, over-long lines end the scan with one error)", "a loop decodes target entries without a bufio.Scanner: its handling of over-long and partial lines is not modelled")
		}
	}
	// decode-in-loop sites anywhere in the repo (R2)
	for _, fn := range p.SrcFuncs() {
		checkStaleDecodeTarget(p, r, fn)
	}
	// decorators
	for _, fn := range p.Implementers(modPath+"/pkg/scan", "RequestGenerator", "GenerateRequests") {
		if !callsIface(fn, fnGenReq) && !staticReachesInvoke(fn, "GenerateRequests", 1) {
			continue // (the delegate's pass may be started in a small helper of the package)
		}
		for _, g := range GoClosures(fn) {
			checkDecorator(p, r, fn, g)
		}
	}
	// R1 (second half): the address x port generator turns each bad address entry into exactly one
	// error request per pass, built afresh (C01.R6 pair obligations re-evaluated: a request template
	// that outlives the iteration lets one entry's error leak into its neighbours)
	{
		sub := NewReport("C13", r.Tier)
		checkCrossProduct(p, sub)
		for _, o := range sub.Obs {
			if o.Rule == "C01.R6" {
				o2 := *o
				o2.Rule = "C13.R1"
				r.Obs = append(r.Obs, &o2)
			}
		}
	}
	// R1 (addition): an entry's record is its own: stages hand over freshly built requests / frames / error
	// carriers, never an object they rewrite for the next entry
	checkHandOverFreshness(p, r, "C13.R1", func(fn *ssa.Function) bool {
		return fn.Pkg == p.SPkg("pkg/scan") || fn.Pkg == p.SPkg("pkg/scan/arp") || fn.Pkg == p.SPkg("pkg/packet")
	})
	checkScannerBuffers(p, r, "C13.R1")
	// R3 (addition): the error record is not lost in the logger: no sampling (C08.R6 re-evaluated)
	checkErrorLogger(p, r, "C13.R3")
	// R4: import the builder and worker contracts
	sub := NewReport("C13", r.Tier)
	for _, fn := range p.LoopFuncsCalling(func(c *ssa.CallCommon) bool { return IsCallTo(c, fnFill) }) {
		if len(LoopHeaders(fn)) == 1 {
			checkBuilder(p, sub, fn)
		}
	}
	for _, fn := range p.LoopFuncsCalling(func(c *ssa.CallCommon) bool { return IsCallTo(c, fnScannerScan) }) {
		if len(LoopHeaders(fn)) > 0 {
			checkWorker(p, sub, fn)
		}
	}
	for _, o := range sub.Obs {
		o2 := *o
		o2.Rule = "C13.R4"
		o2.Text = "error requests never become probes: " + o.Text
		r.Obs = append(r.Obs, &o2)
	}
	// R5: an entry without any known MAC becomes an error, not a frame (resolver contract and the
	// nil-when-unknown gateway MAC of C11.R4/R5 re-evaluated)
	r.Min("C13.R5", 3)
	sub5 := NewReport("C13", r.Tier)
	checkResolver(p, sub5)
	checkResolverWiring(p, sub5)
	for _, o := range sub5.Obs {
		if o.Rule == "C11.R4" || strings.Contains(o.Construct, "getGatewayMAC") {
			o2 := *o
			o2.Rule = "C13.R5"
			o2.Text = "a destination without any known MAC yields an error record: " + o.Text
			r.Obs = append(r.Obs, &o2)
		}
	}
}

func callsNamed(fn *ssa.Function, full string) bool {
	for _, b := range fn.Blocks {
		for _, in := range b.Instrs {
			if c, ok := in.(*ssa.Call); ok && calleeFull(&c.Call) == full {
				return true
			}
		}
	}
	return false
}

func callsIface(fn *ssa.Function, full string) bool {
	for _, b := range fn.Blocks {
		for _, in := range b.Instrs {
			if c, ok := in.(*ssa.Call); ok && IsCallTo(&c.Call, full) {
				return true
			}
		}
	}
	return false
}

// emittedError returns the error value carried by an emitted item: field Err of a *Request
// literal, or the embedded error of an error-carrying getter literal; nil if the item carries none.
func emittedError(s *Seg, v ssa.Value) (errv ssa.Value, isLit bool) {
	v = s.Resolve(v)
	if mi, ok := v.(*ssa.MakeInterface); ok {
		v = s.Resolve(mi.X)
	}
	a, ok := v.(*ssa.Alloc)
	if !ok {
		return nil, false
	}
	lf := litFields(s, a)
	if e, ok := lf["Err"]; ok {
		return e, true
	}
	if e, ok := lf["error"]; ok {
		return e, true
	}
	return nil, true
}

func sentinelName(s *Seg, v ssa.Value) string {
	if v == nil {
		return ""
	}
	if g := globalOfLoad(s.Resolve(v)); g != nil {
		return g.Name()
	}
	return s.Term(v)
}

func checkFileGenerator(p *Prog, r *Report, fn *ssa.Function) {
	name := FuncName(fn)
	pos := p.Pos(fn.Pos())
	heads := loopHeadersSorted(fn)
	if len(heads) != 1 {
		r.Undecided("C13.R1", name, pos, "file generator is one line loop", fmt.Sprint(len(heads)))
		return
	}
	L := heads[0]
	fp := PathsInl(fn)
	i := 0
	for _, s := range fp.From(L) {
		if s.IsSelectPanicTail() {
			continue
		}
		i++
		key := segKey(fn, "line-path", i)
		path := s.Describe(p)
		var scanEv, decEv, parseEv, portEv, errEv *Event
		for _, e := range s.Events {
			if e.Kind != EvCall {
				continue
			}
			cf := calleeFull(e.Call)
			switch {
			case cf == "(*bufio.Scanner).Scan":
				scanEv = e
			case cf == "(*bufio.Scanner).Err":
				errEv = e
			case isDecodeCall(e.Call):
				decEv = e
			case cf == "net.ParseIP":
				parseEv = e
			default:
				if f := StaticCallee(e.Call); f != nil && f.Pkg != nil && IsRepoPkg(f.Pkg.Pkg) && returnsBool(e.Call) && len(e.Call.Args) == 1 && SummGuardedSend(f) == nil {
					if b, ok := e.Call.Args[0].Type().Underlying().(*types.Basic); ok && b.Info()&types.IsInteger != 0 {
						portEv = e
					}
				}
			}
		}
		emits := s.Emits()
		for _, em := range emits {
			if em.Raw || em.Lossy {
				r.Viol("C13.R1", key, pos, "items are emitted with a blocking guarded send", "raw or lossy send", path...)
			}
		}
		if scanEv == nil {
			r.Viol("C13.R1", key, pos, "each iteration is driven by scanner.Scan()", "no Scan call on the path", path...)
			continue
		}
		k, more := s.BoolFact(scanEv.Val)
		if !k {
			r.Viol("C13.R1", key, pos, "the loop tests scanner.Scan()", "Scan result not tested", path...)
			continue
		}
		if !more {
			// end of input: scanner.Err consulted; error => exactly one error item
			if errEv == nil {
				r.Viol("C13.R1", key, pos, "after the loop scanner.Err() is consulted (over-long line / read error is reported, not swallowed)", "no scanner.Err() on the exit path", path...)
				continue
			}
			ek, enil := s.NilFact(errEv.Val)
			if !ek {
				// Err stored to a cell then tested: resolve through the cell
				for _, f := range s.Facts {
					if bo, ok := f.Cond.(*ssa.BinOp); ok && (bo.Op == token.NEQ || bo.Op == token.EQL) && isNilConst(bo.Y) {
						if s.Resolve(bo.X) == errEv.Val {
							ek, enil = true, (bo.Op == token.EQL) == f.Truth
						}
					}
				}
			}
			switch {
			case !ek:
				r.Viol("C13.R1", key, pos, "the scanner error is tested", "scanner.Err() result not tested", path...)
			case enil:
				r.Check(len(emits) == 0 && s.Returns(), "C13.R1", key, pos, "clean end of input emits nothing and ends the stream", fmt.Sprintf("emits=%d", len(emits)), path...)
			default:
				ev, _ := emittedErrorOf(s, emits)
				r.Check(len(emits) == 1 && ev != nil && s.Resolve(ev) == errEv.Val && s.Returns(), "C13.R1", key, pos, "a scanner error yields exactly one error item carrying it", fmt.Sprintf("emits=%d", len(emits)), path...)
			}
			continue
		}
		if decEv == nil {
			r.Viol("C13.R1", key, pos, "each line is decoded", "no decode on the line path", path...)
			continue
		}
		if len(emits) != 1 {
			r.Viol("C13.R1", key, pos, "every line yields exactly one item (one probe or one error)", fmt.Sprintf("%d items emitted for one line", len(emits)), path...)
			continue
		}
		ev, isLit := emittedError(s, emits[0].Val)
		want := ""
		dk, dnil := s.NilFact(decEv.Val)
		switch {
		case !dk:
			r.Viol("C13.R1", key, pos, "the decode error is tested", "decode error ignored", path...)
			continue
		case !dnil:
			want = "ErrJSON"
		}
		if want == "" && parseEv != nil {
			if pk, pnil := s.NilFact(parseEv.Val); pk && pnil {
				want = "ErrIP"
			} else if !pk {
				r.Viol("C13.R1", key, pos, "the parsed address is tested for nil", "ParseIP result not tested", path...)
				continue
			}
		}
		if want == "" && parseEv == nil {
			r.Viol("C13.R1", key, pos, "the address is parsed", "no net.ParseIP on a decoded line", path...)
			continue
		}
		if want == "" && portEv != nil {
			if vk, valid := s.BoolFact(portEv.Val); vk && !valid {
				want = "ErrPort"
			}
		}
		if want != "" {
			got := sentinelName(s, ev)
			r.Check(isLit && got == want, "C13.R1", key, pos, "a bad line yields the error naming its cause ("+want+")", "emitted error is "+got, path...)
			continue
		}
		// good line: item carries the parsed address (and port), no error
		okItem := ev == nil || isNilConst(ev)
		detail := "good line emitted with an error"
		vv := s.Resolve(emits[0].Val)
		if mi, ok := vv.(*ssa.MakeInterface); ok {
			vv = s.Resolve(mi.X)
		}
		if a, ok := vv.(*ssa.Alloc); ok {
			lf := litFields(s, a)
			if d, has := lf["DstIP"]; has && s.Resolve(d) != parseEv.Val {
				okItem, detail = false, "DstIP is not the address parsed from this line"
			}
			if pv, has := lf["DstPort"]; has {
				_, f, isF := fieldLoad(stripConv(s.Resolve(pv)))
				if !isF || f != "Port" {
					okItem, detail = false, "DstPort is not this line's port"
				}
				if portEv == nil {
					okItem, detail = false, "port emitted without a range test"
				}
			}
		} else if stripConv(vv) != parseEv.Val {
			okItem, detail = false, "emitted address is not the one parsed from this line"
		}
		r.Check(okItem, "C13.R1", key, pos, "a good line yields exactly one item carrying that line's address/port", detail, path...)
	}
	// port predicate folded
	for _, b := range fn.Blocks {
		for _, in := range b.Instrs {
			c, ok := in.(*ssa.Call)
			if !ok {
				continue
			}
			f := StaticCallee(&c.Call)
			if f == nil || f.Pkg == nil || !IsRepoPkg(f.Pkg.Pkg) || !returnsBool(&c.Call) || len(c.Call.Args) != 1 || len(f.Params) != 1 {
				continue
			}
			if bt, ok := f.Params[0].Type().Underlying().(*types.Basic); !ok || bt.Info()&types.IsInteger == 0 {
				continue
			}
			want := map[int64]bool{-1: false, 0: false, 1: true, 2: true, 80: true, 65534: true, 65535: true, 65536: false, 65537: false, 1 << 31: false, -65535: false}
			okAll, detail := true, ""
			for v, w := range want {
				got, dec := FoldIntPredicate(f, v)
				if !dec {
					okAll, detail = false, "predicate not foldable"
					break
				}
				if got != w {
					okAll, detail = false, fmt.Sprintf("%s(%d) = %v", f.Name(), v, got)
				}
			}
			r.Check(okAll, "C13.R1", FuncName(f)+"/port-range", p.Pos(f.Pos()), "the port predicate is true exactly on [1,65535] (folded at the boundary values)", detail)
		}
	}
}

func emittedErrorOf(s *Seg, emits []Emit) (ssa.Value, bool) {
	if len(emits) != 1 {
		return nil, false
	}
	return emittedError(s, emits[0].Val)
}

// checkStaleDecodeTarget: R2.
func checkStaleDecodeTarget(p *Prog, r *Report, fn *ssa.Function) {
	heads := LoopHeaders(fn)
	if len(heads) == 0 {
		return
	}
	for _, b := range fn.Blocks {
		for _, in := range b.Instrs {
			c, ok := in.(*ssa.Call)
			if !ok {
				continue
			}
			// the decode may sit in a small per-line helper that gets the reused target as a pointer parameter
			var viaParam *ssa.Parameter
			if !isDecodeCall(&c.Call) {
				h := StaticCallee(&c.Call)
				if h == nil || h.Pkg != fn.Pkg || !inlineCandidate(h) {
					continue
				}
				var inner *ssa.Call
				for _, hb := range h.Blocks {
					for _, hi := range hb.Instrs {
						if hc, isC := hi.(*ssa.Call); isC && isDecodeCall(&hc.Call) {
							if prm, isP := decodeTarget(&hc.Call).(*ssa.Parameter); isP {
								inner, viaParam = hc, prm
							}
						}
					}
				}
				if inner == nil {
					continue
				}
				idx := paramIndex(h, viaParam)
				if idx < 0 || idx >= len(c.Call.Args) {
					continue
				}
				tgt, isA := c.Call.Args[idx].(*ssa.Alloc)
				if !isA {
					continue
				}
				checkStaleTargetAt(p, r, fn, heads, b, inner, tgt, viaParam)
				continue
			}
			target, ok := decodeTarget(&c.Call).(*ssa.Alloc)
			if !ok {
				continue
			}
			checkStaleTargetAt(p, r, fn, heads, b, c, target, nil)
		}
	}
}

// checkStaleTargetAt: c is the decode call (in fn, or in a helper expanded into fn whose parameter viaParam is
// bound to target), b the block of fn where the decode (or the helper call) sits.
func checkStaleTargetAt(p *Prog, r *Report, fn *ssa.Function, heads map[*ssa.BasicBlock]bool, b *ssa.BasicBlock, c *ssa.Call, target *ssa.Alloc, viaParam *ssa.Parameter) {
	isTarget := func(s *Seg, v ssa.Value) bool {
		if v == ssa.Value(target) {
			return true
		}
		if viaParam != nil && (v == ssa.Value(viaParam) || (s != nil && s.Resolve(v) == ssa.Value(target))) {
			return true
		}
		return false
	}
	{
		{
			// innermost loop containing the decode
			var L *ssa.BasicBlock
			for h := range heads {
				if loopBlocks(h)[b] && (L == nil || loopBlocks(L)[h]) {
					L = h
				}
			}
			if L == nil {
				return
			}
			key := FuncName(fn) + "/decode-target"
			pos := p.Pos(c.Pos())
			if loopBlocks(L)[target.Block()] {
				r.OK("C13.R2", key, pos, "the decode target is fresh per iteration or fully reset before each decode")
				return
			}
			// fields read in the loop
			read := map[string]bool{}
			for lb := range loopBlocks(L) {
				for _, li := range lb.Instrs {
					if fa, ok := li.(*ssa.FieldAddr); ok && fa.X == ssa.Value(target) {
						for _, ref := range *fa.Referrers() {
							if u, ok := ref.(*ssa.UnOp); ok && u.Op == token.MUL {
								read[fieldName(fa.X.Type(), fa.Field)] = true
							}
						}
					}
				}
			}
			if viaParam != nil {
				for _, hb := range viaParam.Parent().Blocks {
					for _, li := range hb.Instrs {
						if fa, ok := li.(*ssa.FieldAddr); ok && fa.X == ssa.Value(viaParam) {
							for _, ref := range *fa.Referrers() {
								if u, ok := ref.(*ssa.UnOp); ok && u.Op == token.MUL {
									read[fieldName(fa.X.Type(), fa.Field)] = true
								}
							}
						}
					}
				}
			}
			okAll, detail := true, ""
			for _, s := range PathsInl(fn).From(L) {
				if !s.Has(c) {
					continue
				}
				reset := map[string]bool{}
				whole := false
				for _, e := range s.Events {
					if e.Kind == EvStore && e.Ord < s.ord[c] {
						if fa, ok := e.Addr.(*ssa.FieldAddr); ok && isTarget(s, fa.X) {
							reset[fieldName(fa.X.Type(), fa.Field)] = true
						}
						if isTarget(s, e.Addr) {
							whole = true
						}
					}
				}
				for f := range read {
					if !reset[f] && !whole {
						okAll = false
						detail = "field " + f + " of the decode target is read after the decode but not reset on every path from the loop head to the decode: a line lacking it inherits the previous line's value"
					}
				}
			}
			r.Check(okAll, "C13.R2", key, pos, "the decode target is fresh per iteration or fully reset before each decode", detail)
		}
	}
}

// checkDecorator: R3 on the goroutine of a RequestGenerator that wraps a delegate.
func checkDecorator(p *Prog, r *Report, parent, g *ssa.Function) {
	heads := loopHeadersSorted(g)
	if len(heads) != 1 {
		r.Undecided("C13.R3", FuncName(g), p.Pos(g.Pos()), "decorator goroutine is one loop", fmt.Sprint(len(heads)))
		return
	}
	L := heads[0]
	fp := PathsInl(g)
	pos := p.Pos(g.Pos())
	reqT := "*" + modPath + "/pkg/scan.Request"
	i := 0
	for _, s := range fp.From(L) {
		if s.IsSelectPanicTail() {
			continue
		}
		i++
		key := segKey(g, "iteration-path", i)
		path := s.Describe(p)
		// the received request: direct receive or through a read helper returning (req, ok)
		var req ssa.Value
		for _, rc := range s.Recvs() {
			if chanElemIs(rc.Chan.Type(), reqT) {
				if rc.Ok == nil {
					req = rc.Val
				} else if k, v := s.BoolFact(rc.Ok); k && v {
					req = rc.Val
				}
			}
		}
		if req == nil {
			for _, e := range s.Events {
				if e.Kind != EvCall {
					continue
				}
				f := StaticCallee(e.Call)
				if f == nil || f.Pkg == nil || !IsRepoPkg(f.Pkg.Pkg) || e.Call.Signature().Results().Len() != 2 {
					continue
				}
				if types.TypeString(e.Call.Signature().Results().At(0).Type(), nil) != reqT {
					continue
				}
				var rv, okv ssa.Value
				for _, ref := range *e.Instr.(*ssa.Call).Referrers() {
					if ex, ok := ref.(*ssa.Extract); ok {
						if ex.Index == 0 {
							rv = ex
						} else {
							okv = ex
						}
					}
				}
				if okv != nil {
					// the value may be stored into a captured/local cell first
					if k, v := boolFactThroughCells(s, okv); k && v {
						req = rv
					}
				}
			}
		}
		if req == nil {
			continue
		}
		// forwards of the request
		fw := 0
		for _, em := range s.Emits() {
			if sameThroughCells(s, em.Val, req) {
				fw++
			}
		}
		if fw > 1 {
			r.Viol("C13.R3", key, pos, "a request is forwarded at most once (no duplicated neighbour)", fmt.Sprintf("forwarded %d times on one path", fw), path...)
			continue
		}
		known, isNil := fieldNilFactThroughCells(s, req, "Err")
		var touches []string
		for _, e := range s.Events {
			if e.Kind == EvStore {
				if fa, ok := e.Addr.(*ssa.FieldAddr); ok && sameThroughCells(s, fa.X, req) {
					touches = append(touches, "store to request."+fieldName(fa.X.Type(), fa.Field))
				}
			}
			if e.Kind == EvCall {
				for _, a := range e.Call.Args {
					if b, f, ok := fieldLoad(s.Resolve(a)); ok && f == "DstIP" && sameThroughCells(s, b, req) {
						if SummGuardedSend(StaticCallee(e.Call)) == nil {
							touches = append(touches, "use of request.DstIP by "+CalleeName(e.Call))
						}
					}
				}
			}
		}
		switch {
		case known && !isNil:
			r.Check(len(touches) == 0 && fw == 1, "C13.R3", key, pos, "an error request is forwarded exactly once, untouched", fmt.Sprintf("forwards=%d; %s", fw, strings.Join(touches, ", ")), path...)
		case known && isNil:
			r.OK("C13.R3", key, pos, "stores to a request and uses of its address happen only when request.Err == nil")
		default:
			r.Check(len(touches) == 0, "C13.R3", key, pos, "stores to a request and uses of its destination address are dominated by request.Err == nil", strings.Join(touches, ", ")+" on a path that never tested request.Err (an upstream error is overwritten or a nil address is used)", path...)
		}
	}
}

// sameThroughCells: a and b denote the same value, looking through local/captured cells that
// were assigned from b on this segment (`request, ok = readRequest(...)`).
func sameThroughCells(s *Seg, a, b ssa.Value) bool {
	if s.Same(a, b) {
		return true
	}
	ra := s.Resolve(a)
	if u, ok := ra.(*ssa.UnOp); ok && u.Op == token.MUL {
		// load of a cell: last store on the segment
		for i := len(s.Events) - 1; i >= 0; i-- {
			e := s.Events[i]
			if e.Kind == EvStore && e.Addr == u.X && e.Ord < s.ord[u] {
				return s.Same(e.Val, b)
			}
		}
	}
	return false
}

func boolFactThroughCells(s *Seg, v ssa.Value) (bool, bool) {
	if k, val := s.BoolFact(v); k {
		return k, val
	}
	// stored into a cell, the cell's load is tested
	for _, e := range s.Events {
		if e.Kind == EvStore && e.Val == v {
			for _, f := range s.Facts {
				c := f.Cond
				neg := false
				for {
					if u, ok := c.(*ssa.UnOp); ok && u.Op == token.NOT {
						c, neg = u.X, !neg
						continue
					}
					break
				}
				if u, ok := c.(*ssa.UnOp); ok && u.Op == token.MUL && u.X == e.Addr && f.Ord > e.Ord {
					return true, f.Truth != neg
				}
			}
		}
	}
	return false, false
}

func fieldNilFactThroughCells(s *Seg, base ssa.Value, field string) (bool, bool) {
	if k, v := fieldNilFact(s, base, field); k {
		return k, v
	}
	for _, f := range s.Facts {
		c := f.Cond
		neg := false
		for {
			if u, ok := c.(*ssa.UnOp); ok && u.Op == token.NOT {
				c, neg = u.X, !neg
				continue
			}
			break
		}
		bo, ok := c.(*ssa.BinOp)
		if !ok || (bo.Op != token.EQL && bo.Op != token.NEQ) || !isNilConst(bo.Y) {
			continue
		}
		b, fld, ok := fieldLoad(bo.X)
		if ok && fld == field && sameThroughCells(s, b, base) {
			return true, (bo.Op == token.EQL) == (f.Truth != neg)
		}
	}
	return false, false
}
