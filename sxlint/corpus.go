package main

// Self-validation of the checker: single-edit variants of /repo files are applied through
// packages.Config.Overlay (in memory; /repo is never touched) in fresh subprocesses and each
// must (a) still type-check and (b) make the property's check report a new failing obligation.
// The corpus is a fixture for the checker; the verdict on /repo never depends on it.

import (
	"bytes"
	"encoding/json"
	"fmt"
	"os"
	"os/exec"
	"path/filepath"
	"sort"
	"strings"
	"sync"
)

type Variant struct {
	Name   string `json:"name"`
	File   string `json:"file"`   // path relative to the repo root
	Old    string `json:"old"`    // text that must occur exactly once in the current file
	New    string `json:"new"`    // replacement
	Expect string `json:"expect"` // rule id prefix that must be among the new failures ("" = any)
	Patch  string `json:"patch"`  // alternatively: a unified diff file (seeded changes)
	Benign bool   `json:"benign"` // behaviour-preserving edit: the check must stay silent
	Edits  []struct {
		Old string `json:"old"`
		New string `json:"new"`
	} `json:"edits"` // further edits in the same file
}

func loadVariants(prop, verif string) []Variant {
	var out []Variant
	if b, err := os.ReadFile(filepath.Join(verif, "corpus", prop+".json")); err == nil {
		var vs []Variant
		if err := json.Unmarshal(b, &vs); err != nil {
			fmt.Println("corpus file unreadable:", err)
		}
		out = append(out, vs...)
	}
	// seeded changes written by independent agents: /verif/seeded/<name>/{meta.json,patch.diff}
	dirs, _ := filepath.Glob(filepath.Join(verif, "seeded", "*", "meta.json"))
	sort.Strings(dirs)
	for _, m := range dirs {
		b, err := os.ReadFile(m)
		if err != nil {
			continue
		}
		var meta struct {
			Property string   `json:"property"`
			Caught   []string `json:"caught_by"`
		}
		if json.Unmarshal(b, &meta) != nil {
			continue
		}
		hit := meta.Property == prop
		for _, c := range meta.Caught {
			if c == prop {
				hit = true
			}
		}
		if !hit {
			continue
		}
		out = append(out, Variant{Name: "seeded/" + filepath.Base(filepath.Dir(m)), Patch: filepath.Join(filepath.Dir(m), "patch.diff")})
	}
	// behaviour-preserving refactorings written by independent agents: every check must stay silent
	bdirs, _ := filepath.Glob(filepath.Join(verif, "benign", "*", "patch.diff"))
	sort.Strings(bdirs)
	for _, pd := range bdirs {
		out = append(out, Variant{Name: "benign/" + filepath.Base(filepath.Dir(pd)), Patch: pd, Benign: true})
	}
	return out
}

func runCorpus(prop, repo, verif string, seed int64) *CorpusResult {
	res := &CorpusResult{}
	vs := loadVariants(prop, verif)
	if len(vs) == 0 {
		return res
	}
	if seed != 0 && len(vs) > 1 { // the seed only rotates the order
		k := int(seed % int64(len(vs)))
		if k < 0 {
			k = -k
		}
		vs = append(vs[k:], vs[:k]...)
	}
	tmp, err := os.MkdirTemp("", "sxlint-corpus-")
	if err != nil {
		res.Detail = append(res.Detail, "cannot create temp dir: "+err.Error())
		return res
	}
	defer os.RemoveAll(tmp)
	self, _ := os.Executable()
	// baseline failing keys (known findings are failures before the findings file is applied)
	base := map[string]bool{}
	{
		cmd := exec.Command(self, "check", "-prop", prop, "-tier", "quick", "-repo", repo, "-verif", verif, "-no-evidence", "-fail-keys")
		out, _ := cmd.Output()
		for _, l := range strings.Split(string(out), "\n") {
			if strings.HasPrefix(l, "FAIL-KEY ") {
				base[strings.TrimPrefix(l, "FAIL-KEY ")] = true
			}
		}
	}
	type outcome struct {
		name, status, detail string
	}
	results := make([]outcome, len(vs))
	var wg sync.WaitGroup
	sem := make(chan struct{}, 8)
	for i, v := range vs {
		wg.Add(1)
		go func(i int, v Variant) {
			defer wg.Done()
			sem <- struct{}{}
			defer func() { <-sem }()
			dir := filepath.Join(tmp, fmt.Sprint(i))
			os.MkdirAll(dir, 0o755)
			overlays, why := materialise(v, repo, dir)
			if overlays == nil {
				results[i] = outcome{v.Name, "skipped", why}
				return
			}
			args := []string{"check", "-prop", prop, "-tier", "quick", "-repo", repo, "-verif", verif, "-no-evidence"}
			for tgt, f := range overlays {
				args = append(args, "-overlay", tgt+"="+f)
			}
			cmd := exec.Command(self, args...)
			var buf bytes.Buffer
			cmd.Stdout = &buf
			cmd.Stderr = &buf
			err := cmd.Run()
			code := 0
			if ee, ok := err.(*exec.ExitError); ok {
				code = ee.ExitCode()
			} else if err != nil {
				results[i] = outcome{v.Name, "invalid", err.Error()}
				return
			}
			if code == 3 {
				results[i] = outcome{v.Name, "invalid", firstLine(buf.String())}
				return
			}
			var fresh []string
			for _, l := range strings.Split(buf.String(), "\n") {
				if strings.HasPrefix(l, "FAIL-KEY ") {
					k := strings.TrimPrefix(l, "FAIL-KEY ")
					if !base[k] && (v.Expect == "" || strings.HasPrefix(k, v.Expect)) {
						fresh = append(fresh, k)
					}
				}
			}
			switch {
			case v.Benign && len(fresh) == 0:
				results[i] = outcome{v.Name, "killed", "benign edit: silent as required"}
			case v.Benign:
				results[i] = outcome{v.Name, "survived", "FALSE ALARM on benign edit: " + strings.Join(fresh, "; ")}
			case len(fresh) > 0:
				results[i] = outcome{v.Name, "killed", strings.Join(fresh, "; ")}
			default:
				results[i] = outcome{v.Name, "survived", fmt.Sprintf("exit %d, no new failing obligation (expect %q)", code, v.Expect)}
			}
		}(i, v)
	}
	wg.Wait()
	for _, o := range results {
		switch o.status {
		case "skipped":
			res.Skipped++
		case "invalid":
			res.Invalid++
		case "killed":
			res.Applied++
			res.Killed++
		case "survived":
			res.Applied++
			res.Survivors = append(res.Survivors, o.name)
		}
		res.Detail = append(res.Detail, fmt.Sprintf("%s: %s (%s)", o.name, o.status, o.detail))
	}
	sort.Strings(res.Detail)
	return res
}

func firstLine(s string) string {
	if i := strings.Index(s, "\n"); i >= 0 {
		return s[:i]
	}
	return s
}

// materialise writes the variant's replacement files under dir and returns target->file.
func materialise(v Variant, repo, dir string) (map[string]string, string) {
	if v.Patch != "" {
		return materialisePatch(v, repo, dir)
	}
	target := filepath.Join(repo, v.File)
	b, err := os.ReadFile(target)
	if err != nil {
		return nil, "file missing"
	}
	if n := strings.Count(string(b), v.Old); n != 1 {
		return nil, fmt.Sprintf("edit site occurs %d times in the current tree", n)
	}
	nb := strings.Replace(string(b), v.Old, v.New, 1)
	for _, e := range v.Edits {
		if n := strings.Count(nb, e.Old); n != 1 {
			return nil, fmt.Sprintf("secondary edit site occurs %d times", n)
		}
		nb = strings.Replace(nb, e.Old, e.New, 1)
	}
	f := filepath.Join(dir, "v.go")
	if err := os.WriteFile(f, []byte(nb), 0o644); err != nil {
		return nil, err.Error()
	}
	return map[string]string{target: f}, ""
}

func materialisePatch(v Variant, repo, dir string) (map[string]string, string) {
	pb, err := os.ReadFile(v.Patch)
	if err != nil {
		return nil, "patch missing"
	}
	var files []string
	for _, l := range strings.Split(string(pb), "\n") {
		if strings.HasPrefix(l, "+++ ") {
			f := strings.TrimSpace(strings.TrimPrefix(l, "+++ "))
			f = strings.TrimPrefix(f, "b/")
			if i := strings.IndexAny(f, "\t"); i >= 0 {
				f = f[:i]
			}
			if f != "/dev/null" && strings.HasSuffix(f, ".go") && !strings.HasSuffix(f, "_test.go") {
				files = append(files, f)
			}
		}
	}
	if len(files) == 0 {
		return nil, "patch touches no non-test Go file"
	}
	for _, f := range files {
		dst := filepath.Join(dir, "tree", f)
		os.MkdirAll(filepath.Dir(dst), 0o755)
		if b, err := os.ReadFile(filepath.Join(repo, f)); err == nil {
			os.WriteFile(dst, b, 0o644)
		}
	}
	cmd := exec.Command("patch", "-p1", "-s", "-f", "--no-backup-if-mismatch", "-d", filepath.Join(dir, "tree"))
	// only the hunks for non-test go files matter; patch ignores nothing, so filter the diff
	cmd.Stdin = bytes.NewReader(filterDiff(pb, files))
	if out, err := cmd.CombinedOutput(); err != nil {
		return nil, "patch does not apply to the current tree: " + firstLine(string(out))
	}
	m := map[string]string{}
	for _, f := range files {
		m[filepath.Join(repo, f)] = filepath.Join(dir, "tree", f)
	}
	return m, ""
}

// filterDiff keeps only the file sections of a unified diff that concern the given files.
func filterDiff(pb []byte, files []string) []byte {
	want := map[string]bool{}
	for _, f := range files {
		want[f] = true
	}
	var out bytes.Buffer
	lines := strings.SplitAfter(string(pb), "\n")
	keep := false
	for i := 0; i < len(lines); i++ {
		l := lines[i]
		if strings.HasPrefix(l, "diff --git ") {
			keep = false
			parts := strings.Fields(l)
			if len(parts) >= 4 {
				f := strings.TrimPrefix(parts[3], "b/")
				keep = want[f]
			}
		} else if strings.HasPrefix(l, "--- ") && i+1 < len(lines) && strings.HasPrefix(lines[i+1], "+++ ") {
			f := strings.TrimSpace(strings.TrimPrefix(lines[i+1], "+++ "))
			f = strings.TrimPrefix(f, "b/")
			if j := strings.IndexAny(f, "\t"); j >= 0 {
				f = f[:j]
			}
			keep = want[f]
		}
		if keep {
			out.WriteString(l)
		}
	}
	return out.Bytes()
}

// cmdMatrix: `sxlint matrix -kind seeded|benign` applies every stored change through
// packages.Overlay (the working tree of /repo is not touched) and runs all registered checks on
// it, in parallel. seeded: writes seeded/MATRIX.md and caught_by in each meta.json, exit 1 if a
// change is not reported by the check of its own property. benign: exit 1 on any alarm.
func cmdMatrix(args []string) int {
	kind, repo, verif, match := "seeded", "/repo", "/verif", ""
	for i := 0; i+1 < len(args); i += 2 {
		switch args[i] {
		case "-v":
			matrixVerbose = args[i+1] != "0"
		case "-match":
			match = args[i+1]
		case "-kind":
			kind = args[i+1]
		case "-repo":
			repo = args[i+1]
		case "-verif":
			verif = args[i+1]
		}
	}
	patches, _ := filepath.Glob(filepath.Join(verif, kind, "*", "patch.diff"))
	sort.Strings(patches)
	if match != "" {
		var sel []string
		for _, pf := range patches {
			if strings.Contains(filepath.Base(filepath.Dir(pf)), match) {
				sel = append(sel, pf)
			}
		}
		patches = sel
	}
	var ids []string
	for k := range props {
		ids = append(ids, k)
	}
	sort.Strings(ids)
	self, _ := os.Executable()
	tmp, err := os.MkdirTemp("", "sxlint-matrix-")
	if err != nil {
		fmt.Println(err)
		return 2
	}
	defer os.RemoveAll(tmp)
	base := map[string]map[string]bool{}
	for _, id := range ids {
		base[id] = map[string]bool{}
		out, _ := exec.Command(self, "check", "-prop", id, "-tier", "quick", "-repo", repo, "-verif", verif, "-no-evidence", "-fail-keys").Output()
		for _, l := range strings.Split(string(out), "\n") {
			if strings.HasPrefix(l, "FAIL-KEY ") {
				base[id][strings.TrimPrefix(l, "FAIL-KEY ")] = true
			}
		}
	}
	type cell struct {
		rules  []string
		status string
	}
	res := make([]map[string]cell, len(patches))
	var wg sync.WaitGroup
	sem := make(chan struct{}, 14)
	var mu sync.Mutex
	for i, pf := range patches {
		res[i] = map[string]cell{}
		dir := filepath.Join(tmp, fmt.Sprint(i))
		os.MkdirAll(dir, 0o755)
		overlays, why := materialisePatch(Variant{Patch: pf}, repo, dir)
		for _, id := range ids {
			if overlays == nil {
				res[i][id] = cell{status: "skipped: " + why}
				continue
			}
			wg.Add(1)
			go func(i int, id string) {
				defer wg.Done()
				sem <- struct{}{}
				defer func() { <-sem }()
				a := []string{"check", "-prop", id, "-tier", "quick", "-repo", repo, "-verif", verif, "-no-evidence"}
				for tgt, f := range overlays {
					a = append(a, "-overlay", tgt+"="+f)
				}
				out, _ := exec.Command(self, a...).CombinedOutput()
				c := cell{}
				if strings.Contains(string(out), "OVERLAY-INVALID") {
					c.status = "invalid"
				}
				seen := map[string]bool{}
				for _, l := range strings.Split(string(out), "\n") {
					if matrixVerbose && (strings.HasPrefix(l, "VIOLATION C") || strings.HasPrefix(l, "UNDECIDED C")) {
						fmt.Printf("  [%s] %s\n", id, l)
					}
					if strings.HasPrefix(l, "FAIL-KEY ") {
						k := strings.TrimPrefix(l, "FAIL-KEY ")
						if !base[id][k] {
							rule := k
							if j := strings.Index(k, "|"); j >= 0 {
								rule = k[:j]
							}
							if !seen[rule] {
								seen[rule] = true
								c.rules = append(c.rules, rule)
							}
						}
					}
				}
				mu.Lock()
				res[i][id] = c
				mu.Unlock()
			}(i, id)
		}
	}
	wg.Wait()
	exit := 0
	var md strings.Builder
	md.WriteString("| " + kind + " change | property | reported by (rules) |\n|---|---|---|\n")
	for i, pf := range patches {
		name := filepath.Base(filepath.Dir(pf))
		var caught, rules []string
		for _, id := range ids {
			c := res[i][id]
			if strings.HasPrefix(c.status, "skipped") || c.status == "invalid" {
				rules = []string{c.status}
				break
			}
			if len(c.rules) > 0 {
				caught = append(caught, id)
				rules = append(rules, c.rules...)
			}
		}
		prop := ""
		mf := filepath.Join(filepath.Dir(pf), "meta.json")
		var meta map[string]interface{}
		if b, err := os.ReadFile(mf); err == nil && json.Unmarshal(b, &meta) == nil {
			if s, ok := meta["property"].(string); ok {
				prop = s
			} else if s, ok := meta["written_for_property"].(string); ok {
				prop = s
			}
		}
		switch kind {
		case "seeded":
			own := false
			for _, c := range caught {
				if c == prop {
					own = true
				}
			}
			if !own {
				exit = 1
				fmt.Printf("MISSED %s (property %s): reported only by %v\n", name, prop, caught)
			}
			if meta != nil {
				if caught == nil {
					caught = []string{}
				}
				meta["caught_by"] = caught
				if b, err := json.MarshalIndent(meta, "", " "); err == nil {
					os.WriteFile(mf, b, 0o644)
				}
			}
		default:
			if len(caught) > 0 {
				exit = 1
				fmt.Printf("FALSE-ALARM %s: %v\n", name, rules)
			}
		}
		r := strings.Join(rules, " ")
		if r == "" {
			r = "—"
		}
		fmt.Fprintf(&md, "| %s | %s | %s |\n", name, prop, r)
		fmt.Printf("%s: %s\n", name, r)
	}
	if match == "" {
		os.WriteFile(filepath.Join(verif, kind, "MATRIX.md"), []byte(md.String()), 0o644)
	}
	fmt.Printf("%d %s changes x %d checks\n", len(patches), kind, len(ids))
	return exit
}

var matrixVerbose bool
