package main

import (
	"fmt"
	"go/token"
	"go/types"
	"strings"

	"golang.org/x/tools/go/callgraph"
	"golang.org/x/tools/go/ssa"
)

func init() {
	register(&propDef{
		ID: "C15",
		Explanation: "Static conformance of the rate-limit wiring: (R1/R2) in both limiter wrappers every path performs exactly one Take() that precedes exactly one call of the wrapped operation with unchanged arguments whose result is returned; (R3) Take is called only by those wrappers, the writer wrapper declares no read method, and Take is unreachable from the receive path (repo-level reachability; VTA call graph in the thorough tier); " +
			"(R4) in every function that builds an engine, on the paths where rateCount >= 1 (guard folded at 0 and 1) the writer/scanner reaching the engine is the wrapper around ratelimit.New(rateCount, ratelimit.Per(rateWindow)) with both values from the same configuration; (R5) every packet-scan configuration site passes rateCount/rateWindow from the same-named option fields, which are written only from parseRateLimit of --rate; (R6) the --rate parser returns the written count and the written window (the C18 index/strconv/window-prefix obligations of parseRateLimit and its helpers re-evaluated).",
		NotDecided:  []string{"the spacing bound itself (go.uber.org/ratelimit, scheduler)", "the limiter's start-up burst allowance"},
		Assumptions: []string{"go.uber.org/ratelimit.New(n, Per(w)) spaces Take() calls by w/n"},
		Run:         runC15,
		Whole:       true,
	})
}

func isTakeCall(c *ssa.CallCommon) bool {
	m := IfaceMethod(c)
	return m != nil && m.Name() == "Take" && c.Signature().Params().Len() == 0
}

// chargeHelpers: functions that do nothing but charge the limiter once - one block whose only call is
// limiter.Take(), no result, no other effect (e.g. a `wait()` method of an embedded gate). A call of such a
// helper is a Take for the wrapper rules; the helper itself is not a wrapper.
var chargeHelpers map[*ssa.Function]bool

func computeChargeHelpers(p *Prog) {
	chargeHelpers = map[*ssa.Function]bool{}
	for _, fn := range p.SrcFuncs() {
		if len(fn.Blocks) != 1 || fn.Signature.Results().Len() != 0 || fn.Parent() != nil {
			continue
		}
		nTake, pure := 0, true
		for _, in := range fn.Blocks[0].Instrs {
			switch t := in.(type) {
			case *ssa.Call:
				if isTakeCall(&t.Call) {
					nTake++
				} else {
					pure = false
				}
			case *ssa.Store, *ssa.Go, *ssa.Defer, *ssa.Send, *ssa.MapUpdate:
				pure = false
			}
		}
		if nTake == 1 && pure {
			chargeHelpers[fn] = true
		}
	}
}

// takeLike: a Take call, or a call of a charge helper.
func takeLike(c *ssa.CallCommon) bool {
	if isTakeCall(c) {
		return true
	}
	f := StaticCallee(c)
	return f != nil && chargeHelpers[f]
}

func runC15(p *Prog, r *Report) {
	r.Min("C15.R6", 5)
	r.Min("C15.R7", 3)
	checkOneProbePerScan(p, r)
	// R6: the configured rate is the written rate - the C18 obligations of the --rate parser re-evaluated
	// (a window read too short or a count read too large makes probes leave faster than asked)
	{
		sub := NewReport("C15", r.Tier)
		for _, fn := range parserSet(p) {
			if fn.Name() != "parseRateLimit" && !staticReachedFrom(p, "parseRateLimit", fn) {
				continue
			}
			checkIndexObligations(p, sub, fn, "C15.R6")
			checkDerefObligations(p, sub, fn, "C15.R6")
			checkStrconv(p, sub, fn)
			checkWindowPrefix(p, sub, fn)
		}
		nWindow := 0
		for _, o := range sub.Obs {
			if o.Rule == "C18.R7" {
				nWindow++
			}
			o2 := *o
			o2.Rule = "C15.R6"
			r.Obs = append(r.Obs, &o2)
		}
		if nWindow == 0 {
			r.Viol("C15.R6", "rate window/prefix-fold", "-", "the window of --rate is the written duration: the count-less form gets exactly the count 1 in front (fold over the first byte)", "the window is not read through the folded prefix idiom (a unit table or another conversion is not modelled)")
		}
	}
	// ... and --rate is parsed on every option combination: both option families derive the rate fields
	// (and delegate to the embedded parse step) on every non-failing path of parseRawOptions
	if checkEveryOptionParsed(p, r, "C15.R6", func(f string) bool { return f == "rateCount" || f == "rateWindow" }) < 4 {
		r.Viol("C15.R6", "rate-parsed/sites", "-", "both option families derive rateCount and rateWindow", "fewer than 4 derivations")
	}
	r.Min("C15.R1", 2)
	r.Min("C15.R3", 3)
	r.Min("C15.R4", 4)
	r.Min("C15.R5", 16)
	// wrappers: repo methods calling Take
	var wrappers []*ssa.Function
	var takeCallers []string
	computeChargeHelpers(p)
	for _, fn := range p.SrcFuncs() {
		if chargeHelpers[fn] {
			continue // represented by its callers
		}
		calls := false
		for _, b := range fn.Blocks {
			for _, in := range b.Instrs {
				if ci, ok := in.(ssa.CallInstruction); ok && takeLike(ci.Common()) {
					calls = true
				}
			}
		}
		if calls {
			takeCallers = append(takeCallers, FuncName(fn))
			wrappers = append(wrappers, fn)
		}
	}
	wrapperTypes := map[string]*ssa.Function{}
	for _, w := range wrappers {
		checkLimiterWrapper(p, r, w)
		if w.Signature.Recv() != nil {
			wrapperTypes[recvTypeName(w)] = w
		}
	}
	// R3
	okCallers := len(wrappers) == 2
	for _, w := range wrappers {
		if w.Signature.Recv() == nil || w.Parent() != nil {
			okCallers = false
		}
	}
	r.Check(okCallers, "C15.R3", "who-may-call/Take", "-", "Limiter.Take is called exactly by the two wrapper methods (one per engine kind)", "callers: "+strings.Join(takeCallers, ", "))
	for tn, w := range wrapperTypes {
		if w.Name() != "WritePacketData" {
			continue
		}
		// the wrapper type declares only the write method
		var extra []string
		for _, m := range p.SrcFuncs() {
			if m.Signature.Recv() != nil && m.Parent() == nil && recvTypeName(m) == tn && m.Pkg == w.Pkg && m != w {
				// any other method must be a pure pass-through: exactly one call, of the delegate's
				// same-named method, and no limiter call
				pure := len(LoopHeaders(m)) == 0
				for _, s := range Paths(m).Segs {
					n := 0
					for _, e := range s.Events {
						if e.Kind == EvGo || e.Kind == EvDefer {
							pure = false
						}
						if e.Kind != EvCall {
							continue
						}
						n++
						im := IfaceMethod(e.Call)
						if im == nil || im.Name() != m.Name() || isTakeCall(e.Call) {
							pure = false
						}
					}
					if n != 1 {
						pure = false
					}
				}
				if !pure {
					extra = append(extra, m.Name())
				}
			}
		}
		r.Check(len(extra) == 0, "C15.R3", tn+"/methods", p.Pos(w.Pos()), "besides WritePacketData the writer wrapper has only pure pass-through methods (reading is delegated untouched, never charged)", "methods that are not pure pass-throughs: "+strings.Join(extra, ", "))
	}
	var rcvRoots []*ssa.Function
	rcvRoots = append(rcvRoots, p.Implementers(modPath+"/pkg/packet", "Receiver", "ReceivePackets")...)
	rcvRoots = append(rcvRoots, p.Implementers(modPath+"/pkg/packet", "Processor", "ProcessPacketData")...)
	for _, m := range p.methodsNamed("ReadPacketData") {
		rcvRoots = append(rcvRoots, m)
	}
	reach := p.Reachable(rcvRoots...)
	var hit []string
	for _, w := range wrappers {
		if reach[w] {
			hit = append(hit, FuncName(w))
		}
	}
	r.Check(len(hit) == 0 && len(rcvRoots) >= 5, "C15.R3", "receive-path-unreachable", "-", "no Take caller is reachable from ReceivePackets / ProcessPacketData / ReadPacketData (receiving is never slowed)", "reachable: "+strings.Join(hit, ", "))
	r.Count("receive_path_functions", len(reach))
	if p.Whole {
		// thorough: the same question on the VTA call graph of the whole program
		cg := p.CallGraph()
		seen := map[*callgraph.Node]bool{}
		var work []*callgraph.Node
		for _, f := range rcvRoots {
			if n := cg.Nodes[f]; n != nil {
				work = append(work, n)
			}
		}
		takeReached := ""
		for len(work) > 0 {
			n := work[len(work)-1]
			work = work[:len(work)-1]
			if seen[n] {
				continue
			}
			seen[n] = true
			for _, e := range n.Out {
				if e.Site != nil && isTakeCall(e.Site.Common()) {
					takeReached = FuncName(n.Func)
				}
				if e.Callee.Func != nil && e.Callee.Func.Name() == "Take" && strings.Contains(e.Callee.Func.String(), "ratelimit") {
					takeReached = FuncName(n.Func)
				}
				work = append(work, e.Callee)
			}
		}
		r.Count("vta_receive_path_nodes", len(seen))
		r.Check(takeReached == "", "C15.R3", "receive-path-unreachable/vta", "-", "on the VTA call graph of the whole program no limiter Take is reachable from the receive path", "reached through "+takeReached)
	}
	checkLimiterWiring(p, r, wrapperTypes)
	checkRateOptions(p, r)
}

func checkLimiterWrapper(p *Prog, r *Report, fn *ssa.Function) {
	name := FuncName(fn)
	pos := p.Pos(fn.Pos())
	fp := Paths(fn)
	if len(fp.Headers) > 0 {
		r.Undecided("C15.R1", name, pos, "wrapper is loop-free", "loop in a limiter wrapper")
		return
	}
	ok, detail := true, ""
	n := 0
	for _, s := range fp.Segs {
		if !s.Returns() {
			continue
		}
		n++
		var takes, dels []*Event
		for _, e := range s.Events {
			if (e.Kind == EvDefer || e.Kind == EvGo) && takeLike(e.Call) {
				ok, detail = false, "Take is deferred/asynchronous: the probe leaves before it is charged"
			}
			if e.Kind != EvCall {
				continue
			}
			if takeLike(e.Call) {
				takes = append(takes, e)
			} else if m := IfaceMethod(e.Call); m != nil && m.Name() == fn.Name() {
				dels = append(dels, e)
			}
		}
		if len(takes) != 1 {
			ok, detail = false, fmt.Sprintf("%d Take calls on a path (every probe is charged exactly once)", len(takes))
			continue
		}
		if len(dels) != 1 {
			ok, detail = false, fmt.Sprintf("%d delegate calls on a path", len(dels))
			continue
		}
		if takes[0].Ord > dels[0].Ord {
			ok, detail = false, "Take after the delegate call: the probe leaves before it is charged"
		}
		// arguments unchanged
		for i, a := range dels[0].Call.Args {
			if i+1 < len(fn.Params) && s.Resolve(a) != ssa.Value(fn.Params[i+1]) {
				ok, detail = false, "delegate receives modified arguments"
			}
		}
		// delegate is a field of the receiver
		if b, _, isF := fieldLoad(s.Resolve(dels[0].Call.Value)); !isF || b != ssa.Value(fn.Params[0]) {
			ok, detail = false, "delegate is not the wrapped value"
		}
		// result returned
		ret := s.Exit.(*ssa.Return)
		for i, rv := range ret.Results {
			v := s.Resolve(rv)
			if ex, isEx := v.(*ssa.Extract); isEx {
				if ex.Tuple != dels[0].Val || ex.Index != i {
					ok, detail = false, "returned value is not the delegate's result"
				}
			} else if v != dels[0].Val {
				ok, detail = false, "returned value is not the delegate's result"
			}
		}
	}
	r.Check(ok && n > 0, "C15.R1", name, pos, "on every path exactly one Take() precedes exactly one call of the wrapped operation with unchanged arguments, whose result is returned", detail)
}

// checkLimiterWiring: R4.
func checkLimiterWiring(p *Prog, r *Report, wrapperTypes map[string]*ssa.Function) {
	// wrapper constructors: functions returning an interface whose body builds a wrapper type literal
	isWrapperCtor := func(f *ssa.Function) bool {
		if f == nil || f.Blocks == nil {
			return false
		}
		for _, b := range f.Blocks {
			for _, in := range b.Instrs {
				if a, ok := in.(*ssa.Alloc); ok {
					if n, ok := a.Type().(*types.Pointer).Elem().(*types.Named); ok {
						if _, hit := wrapperTypes[n.Obj().Name()]; hit {
							return true
						}
					}
				}
			}
		}
		return false
	}
	sinks := []string{modPath + "/pkg/scan.SetupPacketEngine", modPath + "/pkg/scan.NewScanEngine"}
	argIdx := map[string]int{sinks[0]: 0, sinks[1]: 1}
	for _, fn := range p.SrcFuncs() {
		for _, b := range fn.Blocks {
			for _, in := range b.Instrs {
				c, ok := in.(*ssa.Call)
				if !ok {
					continue
				}
				cf := calleeFull(&c.Call)
				ai, isSink := argIdx[cf]
				if !isSink {
					continue
				}
				k := 0
				for _, s := range PathsInl(fn).Segs {
					if !s.Has(c) {
						continue
					}
					k++
					key := fmt.Sprintf("%s/%s-path#%d", FuncName(fn), cf[strings.LastIndex(cf, ".")+1:], k)
					pos := p.Pos(c.Pos())
					arg := s.Resolve(c.Call.Args[ai])
					if mi, ok := arg.(*ssa.MakeInterface); ok {
						arg = s.Resolve(mi.X)
					}
					// rate guard on this path
					var guard *Fact
					for i := range s.Facts {
						f := s.Facts[i]
						if bo, ok := f.Cond.(*ssa.BinOp); ok {
							if _, fld, isF := fieldLoad(s.Resolve(bo.X)); isF && fld == "rateCount" {
								guard = &s.Facts[i]
							}
						}
					}
					wc, isCall := arg.(*ssa.Call)
					wrapped := isCall && isWrapperCtor(StaticCallee(&wc.Call))
					if guard == nil {
						// unconditional: must be wrapped, or the function has no rate option at all
						r.Check(wrapped, "C15.R4", key, pos, "the engine receives the rate-limit wrapper on paths where a rate is configured", "no rateCount guard and no wrapper on this path", s.Describe(p)...)
						if !wrapped {
							continue
						}
					} else {
						bo := guard.Cond.(*ssa.BinOp)
						at := func(v int64) (bool, bool) {
							return EvalCond(s, bo, func(x ssa.Value) (int64, bool) {
								if _, fld, isF := fieldLoad(s.Resolve(x)); isF && fld == "rateCount" {
									return v, true
								}
								return 0, false
							})
						}
						g0, ok0 := at(0)
						g1, ok1 := at(1)
						if !ok0 || !ok1 {
							r.Undecided("C15.R4", key, pos, "the rate guard is foldable", "guard not an integer comparison on rateCount")
							continue
						}
						limited := (g1 == guard.Truth) // path taken when rateCount == 1
						unlimited := (g0 == guard.Truth)
						if limited && unlimited {
							r.Viol("C15.R4", key, pos, "the guard separates rateCount >= 1 from rateCount == 0", "guard true for both 0 and 1", s.Describe(p)...)
							continue
						}
						if unlimited {
							r.Check(!wrapped, "C15.R4", key, pos, "without a configured rate the engine gets the unwrapped writer/scanner", "wrapper on the rateCount == 0 path (ratelimit.New(0) panics / blocks)", s.Describe(p)...)
							continue
						}
						if !wrapped {
							r.Viol("C15.R4", key, pos, "with rateCount >= 1 the engine receives the rate-limit wrapper", "unwrapped writer/scanner reaches the engine although a rate is configured", s.Describe(p)...)
							continue
						}
					}
					// wrapper arguments: delegate, limiter = ratelimit.New(conf.rateCount, ratelimit.Per(conf.rateWindow))
					lim := s.Resolve(wc.Call.Args[1])
					lc, isLC := lim.(*ssa.Call)
					if !isLC || calleeFull(&lc.Call) != "go.uber.org/ratelimit.New" {
						r.Viol("C15.R4", key, pos, "the limiter is ratelimit.New(rateCount, ratelimit.Per(rateWindow))", "limiter built by "+s.Term(lim), s.Describe(p)...)
						continue
					}
					b0, f0, ok0 := fieldLoad(stripConv(s.Resolve(lc.Call.Args[0])))
					elems, okv := VariadicElems(lc.Call.Args[1])
					perOK := false
					var b1 ssa.Value
					if okv {
						for _, e := range elems {
							if pc, ok := e.(*ssa.Call); ok && calleeFull(&pc.Call) == "go.uber.org/ratelimit.Per" {
								if bb, ff, ok := fieldLoad(stripConv(s.Resolve(pc.Call.Args[0]))); ok && ff == "rateWindow" {
									perOK, b1 = true, bb
								}
							}
						}
					}
					// no other limiter option: WithSlack(n) lets up to n unspent probes leave back to back after a stall
					extraOpt := ""
					if okv {
						for _, e := range elems {
							if pc, ok := e.(*ssa.Call); ok {
								switch calleeFull(&pc.Call) {
								case "go.uber.org/ratelimit.Per", "go.uber.org/ratelimit.WithoutSlack":
								default:
									extraOpt = calleeFull(&pc.Call)
								}
							} else {
								extraOpt = s.Term(e)
							}
						}
						if len(elems) > 2 {
							extraOpt = fmt.Sprintf("%d options", len(elems))
						}
					}
					if extraOpt != "" {
						r.Viol("C15.R4", key+"/options", pos, "the limiter takes no option besides Per(window) (and optionally WithoutSlack): the burst allowance stays the library's fixed default", "extra limiter option: "+extraOpt, s.Describe(p)...)
					}
					r.Check(ok0 && f0 == "rateCount" && perOK && s.Same(b0, b1), "C15.R4", key, pos, "the limiter is ratelimit.New(X.rateCount, ratelimit.Per(X.rateWindow)) with both values from the same configuration X",
						"limiter arguments: count="+s.Term(lc.Call.Args[0])+fmt.Sprintf(" per-option present=%v", perOK), s.Describe(p)...)
				}
			}
		}
	}
}

// checkRateOptions: R5.
func checkRateOptions(p *Prog, r *Report) {
	cmd := p.SPkg("command")
	// the packet scan configuration constructor: returns *T where T has fields rateCount, rateWindow
	var ctor *ssa.Function
	for _, fn := range p.SrcFuncs() {
		if fn.Pkg != cmd || fn.Parent() != nil || fn.Signature.Results().Len() != 1 || !fn.Signature.Variadic() {
			continue
		}
		pt, ok := fn.Signature.Results().At(0).Type().(*types.Pointer)
		if !ok {
			continue
		}
		st, ok := pt.Elem().Underlying().(*types.Struct)
		if !ok {
			continue
		}
		has := 0
		for i := 0; i < st.NumFields(); i++ {
			if st.Field(i).Name() == "rateCount" || st.Field(i).Name() == "rateWindow" {
				has++
			}
		}
		if has == 2 {
			ctor = fn
		}
	}
	if ctor == nil {
		r.Undecided("C15.R5", "packet scan configuration", "-", "a variadic-options constructor of a struct with rateCount/rateWindow exists", "not found")
		return
	}
	sites := p.CallSites(ctor)
	r.Count("newPacketScanConfig_sites", len(sites))
	for i, cs := range sites {
		key := fmt.Sprintf("%s/newPacketScanConfig-site#%d", FuncName(cs.Parent()), siteOrdinal(sites, i))
		pos := p.Pos(cs.Pos())
		elems, ok := VariadicElems(cs.Common().Args[len(cs.Common().Args)-1])
		if !ok {
			r.Undecided("C15.R5", key, pos, "options passed in place", "variadic built elsewhere")
			continue
		}
		uses, _ := OptionUses(elems)
		var bases []ssa.Value
		for _, want := range []string{"rateCount", "rateWindow"} {
			found := false
			for _, u := range uses {
				if u.Field != want {
					continue
				}
				found = true
				b, f, isF := fieldLoad(u.Arg)
				r.Check(isF && f == want, "C15.R5", key+"/"+want, pos, "the "+want+" option receives the options field of the same name", "argument is "+(*Seg)(nil).term(u.Arg, 0))
				if isF {
					bases = append(bases, b)
				}
			}
			if !found {
				r.Viol("C15.R5", key+"/"+want, pos, "the configuration site passes the "+want+" option (else --rate is ignored by this command)", "option missing")
			}
		}
		if len(bases) == 2 && (*Seg)(nil).term(bases[0], 0) != (*Seg)(nil).term(bases[1], 0) {
			r.Viol("C15.R5", key+"/same-options", pos, "count and window come from the same options value", "different bases")
		}
	}
	// who writes opts.rateCount / rateWindow: only from parseRateLimit results
	n := 0
	for _, fn := range p.SrcFuncs() {
		if fn.Pkg != cmd {
			continue
		}
		for _, b := range fn.Blocks {
			for _, in := range b.Instrs {
				st, ok := in.(*ssa.Store)
				if !ok {
					continue
				}
				fa, ok := st.Addr.(*ssa.FieldAddr)
				if !ok {
					continue
				}
				fnm := fieldName(fa.X.Type(), fa.Field)
				if fnm != "rateCount" && fnm != "rateWindow" {
					continue
				}
				if fn.Parent() != nil && SummOption(fn.Parent()) != nil {
					continue // the option closures of the configuration
				}
				n++
				key := FuncName(fn) + "/writes-" + fnm
				ex, isEx := st.Val.(*ssa.Extract)
				good := false
				detail := "value is not a result of the rate parser"
				if isEx {
					if c, ok := ex.Tuple.(*ssa.Call); ok {
						if f := StaticCallee(&c.Call); f != nil && f.Pkg == cmd && f.Signature.Results().Len() == 3 {
							want := 0
							if fnm == "rateWindow" {
								want = 1
							}
							good = ex.Index == want
							if !good {
								detail = "wrong result of the rate parser stored"
							}
							// the parser's input is the field bound to --rate
							fv := fieldVarOfLoad(c.Call.Args[0])
							regs := p.FlagsOfField(fv)
							if len(regs) == 0 || regs[0].Name != "rate" {
								good, detail = false, "rate parser input is not the field bound to --rate"
							}
						}
					}
				}
				r.Check(good, "C15.R5", key, p.Pos(st.Pos()), "options.rateCount/rateWindow are written only from parseRateLimit(--rate) results (count=#0, window=#1)", detail)
			}
		}
	}
	r.Count("rate_option_writes", n)
}

var _ = token.ADD

// staticReachedFrom: fn is statically called (depth <= 3) from the command-package function of that name.
func staticReachedFrom(p *Prog, root string, fn *ssa.Function) bool {
	var start *ssa.Function
	for _, f := range p.SrcFuncs() {
		if f.Pkg == p.SPkg("command") && f.Parent() == nil && f.Name() == root {
			start = f
		}
	}
	if start == nil {
		return false
	}
	seen := map[*ssa.Function]bool{}
	var walk func(f *ssa.Function, d int) bool
	walk = func(f *ssa.Function, d int) bool {
		if f == fn {
			return true
		}
		if d == 0 || seen[f] || f.Blocks == nil {
			return false
		}
		seen[f] = true
		for _, b := range f.Blocks {
			for _, in := range b.Instrs {
				if ci, ok := in.(ssa.CallInstruction); ok {
					if c := StaticCallee(ci.Common()); c != nil && c.Pkg == f.Pkg && walk(c, d-1) {
						return true
					}
				}
			}
		}
		return false
	}
	return walk(start, 3)
}

// checkOneProbePerScan (R7): the limiter is charged once per Scan call, so a Scan must not open more
// connections than its protocol needs: no dial / HTTP request inside a loop, and the SOCKS5 probe dials at
// most once on every path (a silent retry behind one charge doubles the rate towards targets that drop).
func checkOneProbePerScan(p *Prog, r *Report) {
	isDial := func(c *ssa.CallCommon) bool {
		n := calleeName(c)
		if n == "DialContext" || n == "Dial" || n == "DialTimeout" {
			return true
		}
		if f := StaticCallee(c); f != nil && f.Pkg != nil && f.Pkg.Pkg.Path() == "net/http" && (n == "Do" || n == "Get") {
			return true
		}
		return false
	}
	reach := map[*ssa.Function]bool{}
	var reaches func(f *ssa.Function, d int) bool
	reaches = func(f *ssa.Function, d int) bool {
		if f == nil || f.Blocks == nil || d > 4 {
			return false
		}
		if v, ok := reach[f]; ok {
			return v
		}
		reach[f] = false
		for _, b := range f.Blocks {
			for _, in := range b.Instrs {
				if ci, ok := in.(ssa.CallInstruction); ok {
					if isDial(ci.Common()) {
						reach[f] = true
						return true
					}
					if cal := StaticCallee(ci.Common()); cal != nil && cal.Pkg == f.Pkg && reaches(cal, d+1) {
						reach[f] = true
						return true
					}
				}
			}
		}
		return false
	}
	for _, fn := range p.Implementers(modPath+"/pkg/scan", "Scanner", "Scan") {
		pk := lastElem(fn.Pkg.Pkg.Path())
		if pk != "socks5" && pk != "elastic" && pk != "docker" {
			continue
		}
		name := FuncName(fn)
		pos := p.Pos(fn.Pos())
		ok, why := true, ""
		// connection-opening calls (direct or through same-package helpers) in loops
		for g := range p.staticReach(fn) {
			if g.Pkg != fn.Pkg {
				continue
			}
			for h := range LoopHeaders(g) {
				for b := range loopBlocks(h) {
					for _, in := range b.Instrs {
						if ci, isCI := in.(ssa.CallInstruction); isCI {
							if isDial(ci.Common()) || (StaticCallee(ci.Common()) != nil && StaticCallee(ci.Common()).Pkg == fn.Pkg && reaches(StaticCallee(ci.Common()), 0)) {
								ok, why = false, "a connection is opened inside a loop in "+FuncName(g)
							}
						}
					}
				}
			}
		}
		if pk == "socks5" {
			for _, s := range Paths(fn).Segs {
				k := 0
				for _, e := range s.Events {
					if e.Kind != EvCall || e.Call == nil {
						continue
					}
					if isDial(e.Call) || (StaticCallee(e.Call) != nil && StaticCallee(e.Call).Pkg == fn.Pkg && reaches(StaticCallee(e.Call), 0)) {
						k++
					}
				}
				if k > 1 {
					ok, why = false, fmt.Sprintf("a path of Scan opens %d connections for one limiter charge", k)
				}
			}
		}
		r.Check(ok, "C15.R7", name+"/one-probe-per-charge", pos, "one Scan call (one limiter charge) opens no connection in a loop, and the SOCKS5 probe dials at most once", why)
	}
}
