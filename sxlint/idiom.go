package main

// Idiom helpers shared by the parser / wiring rules (C01, C02, C17, C18):
// classification of return paths by their error result, folding of len()-facts,
// static reachability over resolved callees, constant lookup in dependency packages.

import (
	"fmt"
	"go/constant"
	"go/token"
	"go/types"
	"sort"
	"strings"

	"golang.org/x/tools/go/ssa"
)

type retKind int

const (
	retOK retKind = iota
	retFail
	retUnknown
	retNoErr // function has no error result
)

func (k retKind) String() string {
	return [...]string{"success", "failure", "unknown", "no-error-result"}[k]
}

func isErrorType(t types.Type) bool {
	n, ok := t.(*types.Named)
	return ok && n.Obj().Pkg() == nil && n.Obj().Name() == "error"
}

// errResultIndex returns the index of fn's trailing error result, -1 if none.
func errResultIndex(fn *ssa.Function) int {
	rs := fn.Signature.Results()
	if rs.Len() == 0 || !isErrorType(rs.At(rs.Len()-1).Type()) {
		return -1
	}
	return rs.Len() - 1
}

// errValueKind classifies an error-typed value as seen on segment s.
func errValueKind(s *Seg, v ssa.Value) retKind {
	v = s.Resolve(v)
	if isNilConst(v) {
		return retOK
	}
	if known, isNil := s.NilFact(v); known {
		if isNil {
			return retOK
		}
		return retFail
	}
	switch t := v.(type) {
	case *ssa.MakeInterface:
		return retFail
	case *ssa.UnOp:
		if t.Op == token.MUL {
			if _, ok := t.X.(*ssa.Global); ok {
				return retFail // package-level sentinel errors are non-nil (trusted: never assigned nil)
			}
		}
	case *ssa.Call:
		switch calleeFull(&t.Call) {
		case "errors.New", "fmt.Errorf":
			return retFail
		}
	}
	return retUnknown
}

// retClass classifies a returning segment by its trailing error result.
func retClass(s *Seg) retKind {
	ret, ok := s.Exit.(*ssa.Return)
	if !ok || s.End != nil {
		return retUnknown
	}
	i := errResultIndex(s.Fn)
	if i < 0 {
		return retNoErr
	}
	if i >= len(ret.Results) {
		return retUnknown
	}
	return errValueKind(s, ret.Results[i])
}

// isLenOf reports whether v is `len(x)` with x resolving (on s) to base.
func isLenOfVal(s *Seg, v ssa.Value, base ssa.Value) bool {
	c, ok := v.(*ssa.Call)
	if !ok {
		return false
	}
	b, ok := c.Call.Value.(*ssa.Builtin)
	if !ok || b.Name() != "len" || len(c.Call.Args) != 1 {
		return false
	}
	return s.Resolve(c.Call.Args[0]) == base
}

// lenFactsAllow reports whether every fact of s established before instruction `before`
// (all facts when before == nil) that compares len(base) with constants is satisfied by
// len(base) == n. Facts that do not mention len(base) are ignored (kept = over-approximation).
func lenFactsAllow(s *Seg, base ssa.Value, n int64, before ssa.Instruction) bool {
	limit := int(^uint(0) >> 1)
	if before != nil {
		if o, ok := s.ord[before]; ok {
			limit = o
		}
	}
	bind := func(v ssa.Value) (int64, bool) {
		if isLenOfVal(s, v, base) {
			return n, true
		}
		return 0, false
	}
	for _, f := range s.Facts {
		if f.Ord >= limit {
			continue
		}
		if !mentionsLenOf(s, f.Cond, base, 0) {
			continue
		}
		b, ok := EvalCond(s, f.Cond, bind)
		if ok && b != f.Truth {
			return false
		}
	}
	return true
}

func mentionsLenOf(s *Seg, v ssa.Value, base ssa.Value, d int) bool {
	if d > 6 || v == nil {
		return false
	}
	if isLenOfVal(s, v, base) {
		return true
	}
	switch t := v.(type) {
	case *ssa.BinOp:
		return mentionsLenOf(s, t.X, base, d+1) || mentionsLenOf(s, t.Y, base, d+1)
	case *ssa.UnOp:
		return mentionsLenOf(s, t.X, base, d+1)
	case *ssa.Convert:
		return mentionsLenOf(s, t.X, base, d+1)
	}
	return false
}

// valueFactsAllow: as lenFactsAllow for an integer SSA value itself.
func valueFactsAllow(s *Seg, val ssa.Value, n int64, before ssa.Instruction) bool {
	limit := int(^uint(0) >> 1)
	if before != nil {
		if o, ok := s.ord[before]; ok {
			limit = o
		}
	}
	bind := func(v ssa.Value) (int64, bool) {
		if v == val || s.Resolve(v) == val {
			return n, true
		}
		return 0, false
	}
	for _, f := range s.Facts {
		if f.Ord >= limit {
			continue
		}
		if !mentionsValue(s, f.Cond, val, 0) {
			continue
		}
		b, ok := EvalCond(s, f.Cond, bind)
		if ok && b != f.Truth {
			return false
		}
	}
	return true
}

func mentionsValue(s *Seg, v ssa.Value, val ssa.Value, d int) bool {
	if d > 6 || v == nil {
		return false
	}
	if v == val || s.Resolve(v) == val {
		return true
	}
	switch t := v.(type) {
	case *ssa.BinOp:
		return mentionsValue(s, t.X, val, d+1) || mentionsValue(s, t.Y, val, d+1)
	case *ssa.UnOp:
		if t.Op == token.MUL {
			return false
		}
		return mentionsValue(s, t.X, val, d+1)
	case *ssa.Convert:
		return mentionsValue(s, t.X, val, d+1)
	}
	return false
}

// staticReach returns the repo functions reachable from roots through static calls, go/defer
// and closures created on the way (no interface dispatch).
func (p *Prog) staticReach(roots ...*ssa.Function) map[*ssa.Function]bool {
	seen := map[*ssa.Function]bool{}
	work := append([]*ssa.Function(nil), roots...)
	for len(work) > 0 {
		f := work[len(work)-1]
		work = work[:len(work)-1]
		if f == nil || seen[f] || f.Blocks == nil || f.Pkg == nil || !IsRepoPkg(f.Pkg.Pkg) {
			continue
		}
		seen[f] = true
		for _, b := range f.Blocks {
			for _, in := range b.Instrs {
				if mc, ok := in.(*ssa.MakeClosure); ok {
					if g, ok := mc.Fn.(*ssa.Function); ok {
						work = append(work, g)
					}
				}
				if ci, ok := in.(ssa.CallInstruction); ok {
					if g := StaticCallee(ci.Common()); g != nil {
						work = append(work, g)
					}
				}
			}
		}
	}
	return seen
}

func sortedFuncs(m map[*ssa.Function]bool) []*ssa.Function {
	var out []*ssa.Function
	for f := range m {
		out = append(out, f)
	}
	sort.Slice(out, func(i, j int) bool { return FuncName(out[i]) < FuncName(out[j]) })
	return out
}

// LookupConst finds a package-level constant by import path and name among the packages
// imported (directly) by repo packages.
func (p *Prog) LookupConst(pkgPath, name string) constant.Value {
	for _, pk := range p.All {
		if pk.PkgPath == pkgPath {
			if c, ok := pk.Types.Scope().Lookup(name).(*types.Const); ok {
				return c.Val()
			}
		}
		for ip, imp := range pk.Imports {
			if ip == pkgPath && imp.Types != nil {
				if c, ok := imp.Types.Scope().Lookup(name).(*types.Const); ok {
					return c.Val()
				}
			}
		}
	}
	return nil
}

// methodsByName returns the repo methods (not closures) with the given name.
func (p *Prog) methodsByName(pkgRel, name string) []*ssa.Function {
	var out []*ssa.Function
	for _, fn := range p.SrcFuncs() {
		if fn.Parent() == nil && fn.Signature.Recv() != nil && fn.Name() == name && (pkgRel == "" || fn.Pkg == p.SPkg(pkgRel)) {
			out = append(out, fn)
		}
	}
	return out
}

// callInstrs lists the call-mode instructions of fn whose callee full name is `full`.
func callInstrs(fn *ssa.Function, full string) []*ssa.Call {
	var out []*ssa.Call
	for _, b := range fn.Blocks {
		for _, in := range b.Instrs {
			if c, ok := in.(*ssa.Call); ok && calleeFull(&c.Call) == full {
				out = append(out, c)
			}
		}
	}
	return out
}

// extractOf returns `extract call #i` if present among the referrers.
func extractOf(c *ssa.Call, i int) *ssa.Extract {
	for _, ref := range *c.Referrers() {
		if ex, ok := ref.(*ssa.Extract); ok && ex.Index == i {
			return ex
		}
	}
	return nil
}

// isStringsSplit reports whether v is strings.Split(x, sep) with a constant non-empty sep.
func isStringsSplit(v ssa.Value) (*ssa.Call, bool) {
	c, ok := v.(*ssa.Call)
	if !ok || calleeFull(&c.Call) != "strings.Split" {
		return nil, false
	}
	sep, ok := constString(c.Call.Args[1])
	return c, ok && sep != ""
}

// derivedThrough reports whether v is computed from a call of `full` through loads, index
// addressing, Split, slicing, Trim-like string functions and phis (bounded depth).
func derivedThrough(s *Seg, v ssa.Value, full string, d int) bool {
	if d > 10 || v == nil {
		return false
	}
	if s != nil {
		v = s.Resolve(v)
	}
	switch t := v.(type) {
	case *ssa.Call:
		cf := calleeFull(&t.Call)
		if cf == full {
			return true
		}
		if strings.HasPrefix(cf, "strings.") && len(t.Call.Args) > 0 {
			return derivedThrough(s, t.Call.Args[0], full, d+1)
		}
	case *ssa.UnOp:
		return derivedThrough(s, t.X, full, d+1)
	case *ssa.IndexAddr:
		return derivedThrough(s, t.X, full, d+1)
	case *ssa.Index:
		return derivedThrough(s, t.X, full, d+1)
	case *ssa.Slice:
		return derivedThrough(s, t.X, full, d+1)
	case *ssa.Phi:
		for _, e := range t.Edges {
			if !derivedThrough(s, e, full, d+1) {
				return false
			}
		}
		return len(t.Edges) > 0
	}
	return false
}

// deferClobbersError reports the deferred closure literals of fn that assign the function's error result
// on a path that has not established that the result is still nil: `defer func() { err = f.Close() }()`
// replaces the error the body returned (a read fault, a parse error) by the nil result of Close.
func deferClobbersError(p *Prog, fn *ssa.Function) []string {
	// result cells: allocs loaded by a return
	cells := map[*ssa.Alloc]bool{}
	for _, b := range fn.Blocks {
		for _, in := range b.Instrs {
			if ret, ok := in.(*ssa.Return); ok {
				for _, rv := range ret.Results {
					if u, isU := rv.(*ssa.UnOp); isU && u.Op == token.MUL {
						if a, isA := u.X.(*ssa.Alloc); isA && isErrorType(a.Type().Underlying().(*types.Pointer).Elem()) {
							cells[a] = true
						}
					}
				}
			}
		}
	}
	if len(cells) == 0 {
		return nil
	}
	var out []string
	for _, d := range Deferred(fn) {
		cl := StaticCallee(&d.Call)
		if cl == nil || cl.Parent() != fn {
			continue
		}
		for _, s := range Paths(cl).Segs {
			for _, e := range s.Events {
				if e.Kind != EvStore {
					continue
				}
				fv, isFV := e.Addr.(*ssa.FreeVar)
				if !isFV {
					continue
				}
				a, isA := BindingOf(fv).(*ssa.Alloc)
				if !isA || !cells[a] {
					continue
				}
				// is the cell known to be nil before this store on the path?
				known := false
				for _, f := range s.Facts {
					bo, isB := f.Cond.(*ssa.BinOp)
					if !isB || f.Ord > e.Ord {
						continue
					}
					for _, pair := range [][2]ssa.Value{{bo.X, bo.Y}, {bo.Y, bo.X}} {
						if u, isU := pair[0].(*ssa.UnOp); isU && u.X == ssa.Value(fv) && isNilConst(pair[1]) {
							if (bo.Op == token.EQL) == f.Truth {
								known = true
							}
						}
					}
				}
				if !known {
					out = append(out, "deferred literal assigns "+fv.Name()+" at "+p.Pos(e.Instr.Pos())+" without testing that it is still nil")
				}
			}
		}
	}
	return out
}

// checkScannerBuffers: no line reader of the repository lowers bufio.Scanner's token limit below its
// default (64 KiB): a smaller limit refuses lines the documented formats legitimately produce (a cache line
// with a long vendor name, a target line with extra fields). Raising it is fine.
func checkScannerBuffers(p *Prog, r *Report, rule string) {
	var bad []string
	n := 0
	for _, fn := range p.SrcFuncs() {
		for _, b := range fn.Blocks {
			for _, in := range b.Instrs {
				c, ok := in.(*ssa.Call)
				if !ok {
					continue
				}
				switch calleeFull(&c.Call) {
				case "bufio.NewScanner":
					n++
				case "(*bufio.Scanner).Buffer":
					if k, isK := constInt(c.Call.Args[2]); !isK || k < 64*1024 {
						bad = append(bad, fmt.Sprintf("%s limits lines to %s bytes at %s", FuncName(fn), (*Seg)(nil).term(c.Call.Args[2], 0), p.Pos(c.Pos())))
					}
				}
			}
		}
	}
	sort.Strings(bad)
	r.Check(len(bad) == 0 && n >= 4, rule, "line-readers/token-limit", "-", "no bufio.Scanner of the repository lowers the line limit below the 64 KiB default", strings.Join(bad, "; "))
}

// isDecodeCall: a call that decodes one JSON line into a value through the type's generated decoder:
// `v.UnmarshalJSON(data)` or `easyjson.Unmarshal(data, &v)` (which builds the same lexer over data, runs
// v.UnmarshalEasyJSON and returns the lexer's error). encoding/json.Unmarshal is not in this class (it
// validates the whole input first and so fails on other inputs).
func isDecodeCall(c *ssa.CallCommon) bool {
	cf := calleeFull(c)
	if strings.HasSuffix(cf, ".UnmarshalJSON") && len(c.Args) == 2 {
		return true
	}
	return cf == "github.com/mailru/easyjson.Unmarshal" && len(c.Args) == 2
}

// decodeTarget returns the pointer the decode call writes through.
func decodeTarget(c *ssa.CallCommon) ssa.Value {
	if calleeFull(c) == "github.com/mailru/easyjson.Unmarshal" {
		if mi, ok := c.Args[1].(*ssa.MakeInterface); ok {
			return mi.X
		}
		return c.Args[1]
	}
	return c.Args[0]
}
