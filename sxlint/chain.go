package main

// Decoding of constructor chains such as live(filter(ipReq(ipgen))) from SSA values.

import (
	"go/types"
	"strings"

	"golang.org/x/tools/go/ssa"
)

type chainLink struct {
	Ctor *ssa.Function
	Call *ssa.Call
	Name string
}

// ctorChain follows v (resolved on s) through constructor calls whose first argument of an
// interface type from pkg/scan is the wrapped delegate. Outermost first.
func ctorChain(s *Seg, v ssa.Value) []chainLink {
	var out []chainLink
	for d := 0; d < 10; d++ {
		v = s.Resolve(v)
		if mi, ok := v.(*ssa.MakeInterface); ok {
			v = s.Resolve(mi.X)
		}
		c, ok := v.(*ssa.Call)
		if !ok {
			break
		}
		f := StaticCallee(&c.Call)
		if f == nil {
			break
		}
		out = append(out, chainLink{Ctor: f, Call: c, Name: f.Name()})
		var next ssa.Value
		for _, a := range c.Call.Args {
			if n, ok := a.Type().(*types.Named); ok {
				if _, isI := n.Underlying().(*types.Interface); isI && n.Obj().Pkg() != nil && strings.HasSuffix(n.Obj().Pkg().Path(), "/pkg/scan") {
					next = a
					break
				}
			}
		}
		if next == nil {
			break
		}
		v = next
	}
	return out
}

func chainNames(c []chainLink) string {
	var n []string
	for _, l := range c {
		n = append(n, l.Name)
	}
	return strings.Join(n, "(") + strings.Repeat(")", max0(len(n)-1))
}

func max0(a int) int {
	if a < 0 {
		return 0
	}
	return a
}

// ctorOfType finds the repo constructor(s) that allocate the named struct type and return it as an interface/pointer.
func (p *Prog) ctorsOfType(typeName string, pkg *ssa.Package) []*ssa.Function {
	var out []*ssa.Function
	for _, fn := range p.SrcFuncs() {
		if fn.Parent() != nil || fn.Pkg != pkg || fn.Signature.Recv() != nil {
			continue
		}
		for _, b := range fn.Blocks {
			for _, in := range b.Instrs {
				if a, ok := in.(*ssa.Alloc); ok {
					if n, ok := a.Type().(*types.Pointer).Elem().(*types.Named); ok && n.Obj().Name() == typeName {
						out = append(out, fn)
					}
				}
			}
		}
	}
	return out
}
