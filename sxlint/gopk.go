package main

// Facts about gopacket/layers extracted from the source the build uses (typed AST):
// which LayerType each decoding layer decodes and which layer types it can name as next layer.

import (
	"fmt"
	"go/ast"
	"go/types"
	"sort"
	"strings"
)

type layerFacts struct {
	CanDecode map[string]string          // struct name -> LayerTypeX
	Next      map[string]map[string]bool // struct name -> set of LayerTypeX it may return from NextLayerType
	Unknown   map[string]string          // struct name -> reason the successor set could not be extracted
	Tables    map[string]map[string]bool
}

var layerFactsCache *layerFacts

func (p *Prog) LayerFacts() (*layerFacts, error) {
	if layerFactsCache != nil {
		return layerFactsCache, nil
	}
	lp, err := p.LoadLayers()
	if err != nil {
		return nil, err
	}
	lf := &layerFacts{CanDecode: map[string]string{}, Next: map[string]map[string]bool{}, Unknown: map[string]string{}, Tables: map[string]map[string]bool{}}
	ltName := func(e ast.Expr) string {
		switch t := e.(type) {
		case *ast.Ident:
			if strings.HasPrefix(t.Name, "LayerType") {
				return t.Name
			}
		case *ast.SelectorExpr:
			if strings.HasPrefix(t.Sel.Name, "LayerType") {
				return t.Sel.Name
			}
		}
		return ""
	}
	addTable := func(tbl, l string) {
		if lf.Tables[tbl] == nil {
			lf.Tables[tbl] = map[string]bool{}
		}
		lf.Tables[tbl][l] = true
	}
	// tables
	for _, f := range lp.Syntax {
		ast.Inspect(f, func(n ast.Node) bool {
			switch t := n.(type) {
			case *ast.AssignStmt:
				if len(t.Lhs) == 1 && len(t.Rhs) == 1 {
					if ix, ok := t.Lhs[0].(*ast.IndexExpr); ok {
						if id, ok := ix.X.(*ast.Ident); ok {
							if cl, ok := t.Rhs[0].(*ast.CompositeLit); ok {
								for _, el := range cl.Elts {
									if kv, ok := el.(*ast.KeyValueExpr); ok {
										if k, ok := kv.Key.(*ast.Ident); ok && k.Name == "LayerType" {
											if l := ltName(kv.Value); l != "" {
												addTable(id.Name, l)
											}
										}
									}
								}
							} else if l := ltName(t.Rhs[0]); l != "" {
								addTable(id.Name, l)
							} else if id2, ok := t.Rhs[0].(*ast.Ident); ok && strings.HasSuffix(id.Name, "LayerType") {
								// tcpPortLayerType[port] = layerType (registration function): open-ended
								_ = id2
								addTable(id.Name, "*registered")
							}
						}
					}
				}
			case *ast.ValueSpec:
				for i, nm := range t.Names {
					if i < len(t.Values) {
						if cl, ok := t.Values[i].(*ast.CompositeLit); ok && strings.HasSuffix(nm.Name, "LayerType") {
							for _, el := range cl.Elts {
								if kv, ok := el.(*ast.KeyValueExpr); ok {
									if l := ltName(kv.Value); l != "" {
										addTable(nm.Name, l)
									}
								}
							}
						}
					}
				}
			}
			return true
		})
	}
	// methods
	for _, f := range lp.Syntax {
		for _, d := range f.Decls {
			fd, ok := d.(*ast.FuncDecl)
			if !ok || fd.Recv == nil || len(fd.Recv.List) != 1 || fd.Body == nil {
				continue
			}
			rt := fd.Recv.List[0].Type
			if st, ok := rt.(*ast.StarExpr); ok {
				rt = st.X
			}
			rid, ok := rt.(*ast.Ident)
			if !ok {
				continue
			}
			switch fd.Name.Name {
			case "CanDecode":
				if len(fd.Body.List) == 1 {
					if rs, ok := fd.Body.List[0].(*ast.ReturnStmt); ok && len(rs.Results) == 1 {
						if l := ltName(rs.Results[0]); l != "" {
							lf.CanDecode[rid.Name] = l
						}
					}
				}
			case "NextLayerType":
				set := map[string]bool{}
				ast.Inspect(fd.Body, func(n ast.Node) bool {
					switch t := n.(type) {
					case *ast.Ident, *ast.SelectorExpr:
						if l := ltName(t.(ast.Expr)); l != "" {
							set[l] = true
						}
					case *ast.CallExpr:
						if sel, ok := t.Fun.(*ast.SelectorExpr); ok && sel.Sel.Name == "LayerType" {
							tv := lp.TypesInfo.Types[sel.X]
							if n, ok := tv.Type.(*types.Named); ok {
								en := n.Obj().Name()
								found := false
								for tbl, vals := range lf.Tables {
									if strings.EqualFold(tbl, en+"Metadata") || strings.EqualFold(tbl, en+"LayerType") {
										found = true
										for v := range vals {
											set[v] = true
										}
									}
								}
								if !found {
									lf.Unknown[rid.Name] = "no metadata table found for enum " + en
								}
							} else {
								lf.Unknown[rid.Name] = "LayerType() on a non-named type"
							}
						}
					}
					return true
				})
				lf.Next[rid.Name] = set
			}
		}
	}
	layerFactsCache = lf
	return lf, nil
}

// Successors returns the layer types among `supported` that decoder struct T may name as next.
func (lf *layerFacts) Successors(T string, supported map[string]bool) ([]string, error) {
	if why, bad := lf.Unknown[T]; bad {
		return nil, fmt.Errorf("%s: %s", T, why)
	}
	nx, ok := lf.Next[T]
	if !ok {
		return nil, fmt.Errorf("no NextLayerType method found for %s", T)
	}
	var out []string
	for l := range nx {
		if supported[l] {
			out = append(out, l)
		}
	}
	sort.Strings(out)
	return out, nil
}
