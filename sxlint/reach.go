package main

// WG — repository-level reachability over resolved callees: static calls, go/defer, closures
// created in a function, interface calls to every repo implementation, and (conservatively)
// dynamic calls to any repo function value whose address is taken with an identical signature.

import (
	"go/types"

	"golang.org/x/tools/go/ssa"
)

type reachIndex struct {
	p         *Prog
	addrTaken map[string][]*ssa.Function // signature string -> functions used as values
	implCache map[string][]*ssa.Function
}

var reachIdx *reachIndex

func (p *Prog) reach() *reachIndex {
	if reachIdx != nil && reachIdx.p == p {
		return reachIdx
	}
	ri := &reachIndex{p: p, addrTaken: map[string][]*ssa.Function{}, implCache: map[string][]*ssa.Function{}}
	for _, fn := range p.SrcFuncs() {
		for _, b := range fn.Blocks {
			for _, in := range b.Instrs {
				for _, op := range in.Operands(nil) {
					if op == nil || *op == nil {
						continue
					}
					var f *ssa.Function
					switch t := (*op).(type) {
					case *ssa.Function:
						f = t
					case *ssa.MakeClosure:
						f, _ = t.Fn.(*ssa.Function)
					}
					if f == nil {
						continue
					}
					// skip the callee operand of a direct call
					if ci, ok := in.(ssa.CallInstruction); ok && ci.Common().Value == *op {
						continue
					}
					k := types.TypeString(f.Signature, nil)
					ri.addrTaken[k] = append(ri.addrTaken[k], f)
				}
			}
		}
	}
	reachIdx = ri
	return ri
}

// Callees returns the repo functions fn may call directly.
func (p *Prog) Callees(fn *ssa.Function) []*ssa.Function {
	ri := p.reach()
	var out []*ssa.Function
	for _, b := range fn.Blocks {
		for _, in := range b.Instrs {
			if mc, ok := in.(*ssa.MakeClosure); ok {
				if f, ok := mc.Fn.(*ssa.Function); ok {
					out = append(out, f)
				}
			}
			ci, ok := in.(ssa.CallInstruction)
			if !ok {
				continue
			}
			c := ci.Common()
			if m := IfaceMethod(c); m != nil {
				it, ok := c.Value.Type().Underlying().(*types.Interface)
				if !ok {
					continue
				}
				for _, impl := range p.methodsNamed(m.Name()) {
					if types.Implements(impl.Signature.Recv().Type(), it) {
						out = append(out, impl)
					}
				}
				continue
			}
			if f := StaticCallee(c); f != nil {
				out = append(out, f)
				continue
			}
			if _, isBuiltin := c.Value.(*ssa.Builtin); isBuiltin {
				continue
			}
			// dynamic call of a function value
			k := types.TypeString(c.Signature(), nil)
			out = append(out, ri.addrTaken[k]...)
		}
	}
	return out
}

// Reachable returns the set of repo functions reachable from the roots.
func (p *Prog) Reachable(roots ...*ssa.Function) map[*ssa.Function]bool {
	seen := map[*ssa.Function]bool{}
	work := append([]*ssa.Function(nil), roots...)
	for len(work) > 0 {
		f := work[len(work)-1]
		work = work[:len(work)-1]
		if f == nil || seen[f] || f.Blocks == nil || f.Pkg == nil || !IsRepoPkg(f.Pkg.Pkg) {
			continue
		}
		seen[f] = true
		work = append(work, p.Callees(f)...)
	}
	return seen
}
