package main

import (
	"fmt"
	"go/token"
	"go/types"
	"strings"

	"golang.org/x/tools/go/ssa"
)

func init() {
	register(&propDef{
		ID: "C07",
		Explanation: "Static conformance of the packet pipeline stages: every acyclic segment of the packet builder, the two merge multiplexers and the sender loop is checked for conservation (per received item exactly one forward, or exactly one error in its place; error requests are never filled; every send is blocking); " +
			"the buffer lifetime on the write path (Bytes -> synchronous WritePacketData -> FreeSerializeBuffer exactly once, after the write; pool and free primitives callable only from their owners); completion (close(done) only by defer of the writing goroutine, and that channel is what the engine returns); " +
			"fan-out/fan-in wiring (every worker gets the same input and every worker output reaches the merger; Add(len) before the spawns; close after Wait); and the absence of writes through receivers shared by the NumCPU workers (Fill implementations, the packet generator).",
		NotDecided:  []string{"scheduler fairness/liveness", "byte equality inside gopacket serialize buffers (the aliasing half is decided)", "what the race detector would observe"},
		Assumptions: []string{"gopacket SerializeBuffer.Bytes returns the frame built by Fill", "sync.Pool semantics"},
		Run:         runC07,
	})
}

const (
	fnFill        = modPath + "/pkg/scan.PacketFiller.Fill"
	fnWritePkt    = modPath + "/pkg/packet.Writer.WritePacketData"
	fnFreeBuf     = modPath + "/pkg/packet.FreeSerializeBuffer"
	fnNewBuf      = modPath + "/pkg/packet.NewSerializeBuffer"
	tBufferData   = "*" + modPath + "/pkg/packet.BufferData"
	fnSendPackets = modPath + "/pkg/packet.Sender.SendPackets"
)

func runC07(p *Prog, r *Report) {
	r.Min("C07.R1", 12)
	r.Min("C07.R2", 4)
	r.Min("C07.R3", 2)
	r.Min("C07.R4", 6)
	r.Min("C07.R5", 5)
	r.Min("C07.R6", 1)
	// R4 (addition): the number of builders is the number asked for: constructors of the pipeline stages
	// store their integer parameters unchanged (a count reduced by one starts no builder at all for 1)
	{
		n := 0
		for _, fn := range p.SrcFuncs() {
			if (fn.Pkg != p.SPkg("pkg/scan") && fn.Pkg != p.SPkg("pkg/packet")) || fn.Parent() != nil || fn.Signature.Recv() != nil || !strings.HasPrefix(fn.Name(), "New") {
				continue
			}
			for _, b := range fn.Blocks {
				for _, in := range b.Instrs {
					st, ok := in.(*ssa.Store)
					if !ok {
						continue
					}
					fa, isFA := st.Addr.(*ssa.FieldAddr)
					if !isFA {
						continue
					}
					if bt, isB := st.Val.Type().Underlying().(*types.Basic); !isB || bt.Info()&types.IsInteger == 0 {
						continue
					}
					// derives from a parameter?
					var prm *ssa.Parameter
					var walk func(v ssa.Value, d int) bool
					walk = func(v ssa.Value, d int) bool {
						if d > 6 {
							return false
						}
						switch t := v.(type) {
						case *ssa.Parameter:
							prm = t
							return true
						case *ssa.BinOp:
							return walk(t.X, d+1) || walk(t.Y, d+1)
						case *ssa.Convert:
							return walk(t.X, d+1)
						case *ssa.UnOp:
							return walk(t.X, d+1)
						}
						return false
					}
					if !walk(st.Val, 0) {
						continue
					}
					n++
					_, direct := st.Val.(*ssa.Parameter)
					r.Check(direct, "C07.R4", FuncName(fn)+"/stores-"+fieldName(fa.X.Type(), fa.Field)+"-unchanged", p.Pos(st.Pos()), "the constructor stores its integer parameter "+prm.Name()+" unchanged", "stored value is "+(*Seg)(nil).term(st.Val, 0))
				}
			}
		}
		if n == 0 {
			r.Viol("C07.R4", "constructor parameters", "-", "the multi-generator constructor stores its worker count", "no integer parameter stored by a New* constructor")
		}
	}
	checkNoGlobalWrites(p, r, "C07.R5", "pkg/scan", "pkg/packet", "pkg/scan/tcp", "pkg/scan/udp", "pkg/scan/icmp", "pkg/scan/arp")
	// (a) packet builder: goroutine with a loop calling PacketFiller.Fill
	var builders []*ssa.Function
	for _, fn := range p.LoopFuncsCalling(func(c *ssa.CallCommon) bool { return IsCallTo(c, fnFill) }) {
		if len(LoopHeaders(fn)) == 1 {
			builders = append(builders, fn)
		}
	}
	if len(builders) == 0 {
		r.Undecided("C07.R1", "packet builder", "-", "a looping function calls PacketFiller.Fill", "none")
	}
	for _, b := range builders {
		checkBuilder(p, r, b)
	}
	checkMultiplexers(p, r, "C07.R1", "C07.R4")
	for _, snd := range p.Implementers(modPath+"/pkg/packet", "Sender", "SendPackets") {
		checkSender(p, r, snd)
	}
	checkWhoMayCall(p, r)
	checkFanOut(p, r)
	checkSharedWrites(p, r)
	checkGeneratorFailure(p, r)
	// R7: the stages between the generator and the builders (exclusion filter, live wrapper, ARP-cache
	// resolver) forward each request - failed ones included - exactly once, so "every failed request yields
	// exactly one error" (C13.R3 decorator clauses re-evaluated)
	r.Min("C07.R7", 6)
	{
		sub13 := NewReport("C07x", "quick")
		runC13(p, sub13)
		for _, o := range sub13.Obs {
			if o.Rule == "C13.R3" && strings.Contains(o.Construct, "/iteration-path#") {
				o2 := *o
				o2.Rule = "C07.R7"
				r.Obs = append(r.Obs, &o2)
			}
		}
	}
}

func checkBuilder(p *Prog, r *Report, fn *ssa.Function) {
	L := loopHeadersSorted(fn)[0]
	pos := p.Pos(fn.Pos())
	fp := PathsInl(fn)
	i := 0
	for _, s := range fp.From(L) {
		if s.IsSelectPanicTail() {
			continue
		}
		i++
		key := segKey(fn, "iteration-path", i)
		path := s.Describe(p)
		var req ssa.Value
		for _, rc := range s.Recvs() {
			if chanElemIs(rc.Chan.Type(), "*"+modPath+"/pkg/scan.Request") {
				if rc.Ok == nil {
					req = rc.Val
				} else if k, v := s.BoolFact(rc.Ok); k && v {
					req = rc.Val
				}
			}
		}
		fills := s.CallsTo(fnFill)
		news := s.CallsTo(fnNewBuf)
		emits := s.Emits()
		bad := ""
		for _, em := range emits {
			if em.Raw {
				bad = "unguarded send"
			}
			if em.Lossy {
				bad = "send with default case drops frames"
			}
		}
		if bad != "" {
			r.Viol("C07.R1", key, pos, "every forward is a blocking send guarded by ctx.Done()", bad, path...)
			continue
		}
		if req == nil {
			ok := (selectDoneChosen(s) || recvClosed(s)) && s.Returns() && len(fills) == 0 && len(emits) == 0
			r.Check(ok, "C07.R1", key, pos, "a path without a request is the cancel/closed exit with no effects", "effects without a request", path...)
			continue
		}
		if s.End != L {
			r.Viol("C07.R1", key, pos, "the builder keeps serving after any request", "loop left after a request", path...)
			continue
		}
		known, isNil := fieldNilFact(s, req, "Err")
		if !known {
			r.Viol("C07.R1", key, pos, "the request's error is examined before building", "request.Err not tested", path...)
			continue
		}
		if len(emits) != 1 {
			r.Viol("C07.R1", key, pos, "exactly one item leaves the builder per request", fmt.Sprintf("%d sends", len(emits)), path...)
			continue
		}
		lf := litFields(s, emits[0].Val)
		if !isNil {
			ok := len(fills) == 0 && lf["Err"] != nil && isFieldOf(s, lf["Err"], req, "Err") && lf["Buf"] == nil
			r.Check(ok, "C07.R1", key, pos, "an error request becomes exactly one error item carrying its error, and is never filled", fmt.Sprintf("fills=%d", len(fills)), path...)
			continue
		}
		if len(fills) != 1 || len(news) != 1 {
			r.Viol("C07.R1", key, pos, "a request is built exactly once into a fresh buffer", fmt.Sprintf("fills=%d buffers=%d", len(fills), len(news)), path...)
			continue
		}
		fc := fills[0]
		if !s.Same(fc.Call.Args[0], news[0].Val) || !s.Same(fc.Call.Args[1], req) {
			r.Viol("C07.R1", key, pos, "Fill receives the fresh buffer and the received request", "Fill arguments differ", path...)
			continue
		}
		ek, enil := s.NilFact(fc.Val)
		switch {
		case !ek:
			r.Viol("C07.R1", key, pos, "the build error is examined", "Fill error not tested", path...)
		case !enil:
			r.Check(lf["Err"] != nil && s.Same(lf["Err"], fc.Val) && lf["Buf"] == nil, "C07.R1", key, pos, "a failed build becomes exactly one error item", "error item does not carry the Fill error", path...)
		default:
			r.Check(lf["Buf"] != nil && s.Same(lf["Buf"], news[0].Val) && lf["Err"] == nil, "C07.R1", key, pos, "a built frame is forwarded exactly once in the buffer it was built in", "forwarded item does not carry the built buffer", path...)
		}
	}
}

// checkMultiplexers: closures with one loop that receive from a channel parameter and forward to a captured channel,
// spawned once per input channel; plus the closer goroutine (Wait then close).
func checkMultiplexers(p *Prog, r *Report, rule, ruleWiring string) {
	n := 0
	for _, fn := range p.SrcFuncs() {
		if fn.Parent() != nil || fn.Pkg != p.SPkg("pkg/scan") || !fn.Signature.Variadic() {
			continue
		}
		last := fn.Signature.Params().At(fn.Signature.Params().Len() - 1).Type()
		sl, ok := last.(*types.Slice)
		if !ok {
			continue
		}
		if _, isChan := sl.Elem().Underlying().(*types.Chan); !isChan {
			continue
		}
		n++
		checkMerger(p, r, fn, rule, ruleWiring)
	}
	r.Count("mergers", n)
}

func checkMerger(p *Prog, r *Report, fn *ssa.Function, rule, ruleWiring string) {
	name := FuncName(fn)
	pos := p.Pos(fn.Pos())
	chans := fn.Params[len(fn.Params)-1]
	var out *ssa.MakeChan
	for _, b := range fn.Blocks {
		for _, in := range b.Instrs {
			if mc, ok := in.(*ssa.MakeChan); ok {
				out = mc
			}
		}
	}
	if out == nil {
		r.Undecided(rule, name, pos, "merger creates its output channel", "no make(chan)")
		return
	}
	var mux, closer *ssa.Function
	var muxIn ssa.Value
	heads0 := LoopHeaders(fn)
	for _, b := range fn.Blocks {
		for _, in := range b.Instrs {
			gi, isGo := in.(*ssa.Go)
			if !isGo {
				continue
			}
			g := StaticCallee(&gi.Call)
			if g == nil {
				continue
			}
			inLoop := false
			for h := range heads0 {
				if loopBlocks(h)[b] {
					inLoop = true
				}
			}
			if !inLoop {
				closer = g
				continue
			}
			// one multiplexer per input: its input is the channel parameter that is not the merger's output
			mux = g
			for i, prm := range g.Params {
				if _, isChan := prm.Type().Underlying().(*types.Chan); !isChan || i >= len(gi.Call.Args) {
					continue
				}
				fromOut := false
				for _, o := range p.Origins(gi.Call.Args[i]) {
					if o == ssa.Value(out) {
						fromOut = true
					}
				}
				if !fromOut {
					muxIn = prm
				}
			}
		}
	}
	if mux != nil && muxIn == nil && len(mux.Params) == 1 {
		muxIn = mux.Params[0]
	}
	if muxIn == nil {
		mux = nil
	}
	if mux == nil || closer == nil {
		r.Undecided(rule, name, pos, "merger spawns per-input multiplexers and one closer", "goroutine shapes not recognised")
		return
	}
	// multiplexer contract
	heads := loopHeadersSorted(mux)
	if len(heads) != 1 {
		r.Undecided(rule, FuncName(mux), pos, "multiplexer is one loop", fmt.Sprint(len(heads)))
		return
	}
	fp := PathsInl(mux)
	i := 0
	for _, s := range fp.From(heads[0]) {
		if s.IsSelectPanicTail() {
			continue
		}
		i++
		key := segKey(mux, "iteration-path", i)
		var got ssa.Value
		for _, rc := range s.Recvs() {
			if s.Resolve(rc.Chan) == muxIn {
				if rc.Ok == nil {
					got = rc.Val
				} else if k, v := s.BoolFact(rc.Ok); k && v {
					got = rc.Val
				}
			}
		}
		em := s.Emits()
		ok, detail := true, ""
		for _, e := range em {
			if e.Raw || e.Lossy {
				ok, detail = false, "raw or lossy forward (blocks after cancel / drops items)"
			}
			toOut := p.SameOrigin(e.Chan, out)
			for _, o := range p.OriginsIP(e.Chan) {
				if o == ssa.Value(out) {
					toOut = true
				}
			}
			if !toOut {
				ok, detail = false, "forward to a channel other than the merger's output"
			}
		}
		switch {
		case !ok:
		case got == nil:
			if !(s.Returns() && len(em) == 0) {
				ok, detail = false, "path without an item has effects or continues"
			}
		case len(em) == 1:
			if !s.Same(em[0].Val, got) || s.End != heads[0] {
				ok, detail = false, "forwarded item is not the received one, or loop left"
			}
		case len(em) == 0:
			if !(selectDoneChosen(s) && s.Returns()) {
				ok, detail = false, "received item dropped"
			}
		default:
			ok, detail = false, fmt.Sprintf("%d forwards for one item", len(em))
		}
		r.Check(ok, rule, key, p.Pos(mux.Pos()), "the multiplexer forwards each received item exactly once (or exits on cancel)", detail, s.Describe(p)...)
	}
	// Done deferred in the multiplexer
	ds := Deferred(mux)
	okDone := false
	if len(ds) > 0 {
		if m, _ := waitGroupCall(&ds[0].Call); m == "Done" {
			okDone = true
		}
	}
	r.Check(okDone, ruleWiring, FuncName(mux)+"/done-deferred", p.Pos(mux.Pos()), "each multiplexer defers wg.Done()", "no deferred WaitGroup.Done")
	// wiring in the parent: Add(len(channels)) before any go; one go per element of channels; closer waits then closes out
	pp := PathsInl(fn)
	addOK := false
	for _, s := range pp.From(fn.Blocks[0]) {
		for _, e := range s.Events {
			if e.Kind == EvCall {
				if m, _ := waitGroupCall(e.Call); m == "Add" {
					if c, ok := stripConv(e.Call.Args[1]).(*ssa.Call); ok {
						if b, ok := c.Call.Value.(*ssa.Builtin); ok && b.Name() == "len" && c.Call.Args[0] == ssa.Value(chans) {
							addOK = true
						}
					}
				}
			}
			if e.Kind == EvGo && !addOK {
				addOK = false
			}
		}
	}
	r.Check(addOK, ruleWiring, name+"/add-len", pos, "wg.Add(len(channels)) precedes the spawns", "WaitGroup is not armed with the number of input channels before spawning")
	// the spawn loop ranges over the whole slice and passes the element
	spawnOK := false
	for _, b := range fn.Blocks {
		for _, in := range b.Instrs {
			g, ok := in.(*ssa.Go)
			if !ok || StaticCallee(&g.Call) != mux {
				continue
			}
			// the input argument = *(&channels[i]) with i the range index phi compared to len(channels)
			for ai, arg := range g.Call.Args {
				if ai < len(mux.Params) && ssa.Value(mux.Params[ai]) != muxIn && len(g.Call.Args) != 1 {
					continue
				}
				if u, ok := arg.(*ssa.UnOp); ok {
					if ia, ok := u.X.(*ssa.IndexAddr); ok && ia.X == ssa.Value(chans) {
						if isFullRangeIndex(ia.Index, chans) {
							spawnOK = true
						}
					}
				}
			}
		}
	}
	r.Check(spawnOK, ruleWiring, name+"/spawn-each", pos, "one multiplexer is spawned for every input channel (range over the whole slice)", "spawn loop does not cover channels[0..len)")
	cp := PathsInl(closer)
	closeOK := len(cp.Headers) == 0
	for _, s := range cp.Segs {
		if !s.Returns() {
			continue
		}
		w, c := -1, -1
		for _, e := range s.Events {
			if e.Kind == EvCall {
				if m, _ := waitGroupCall(e.Call); m == "Wait" {
					w = e.Ord
				}
			}
			if e.Kind == EvClose && p.SameOrigin(e.Chan, out) {
				c = e.Ord
			}
		}
		if w < 0 || c < 0 || c < w {
			closeOK = false
		}
	}
	r.Check(closeOK, ruleWiring, name+"/close-after-wait", pos, "the output is closed only after wg.Wait()", "closer does not wait for all multiplexers before closing")
}

// isFullRangeIndex: idx is the `for i := range s` / `for i:=0;i<len(s);i++` induction variable.
func isFullRangeIndex(idx ssa.Value, s ssa.Value) bool {
	phi, ok := idx.(*ssa.Phi)
	if !ok {
		// rangeindex loops use `t = phi + 1` as the index
		if bo, ok := idx.(*ssa.BinOp); ok {
			if ph, ok := bo.X.(*ssa.Phi); ok {
				phi = ph
			}
		}
		if phi == nil {
			return false
		}
	}
	initOK := false
	for _, e := range phi.Edges {
		if k, ok := constInt(e); ok && (k == 0 || k == -1) {
			initOK = true
		}
	}
	// some comparison of the induction value with len(s) guards the loop
	boundOK := false
	var uses []ssa.Instruction
	uses = append(uses, *phi.Referrers()...)
	if v, ok := idx.(ssa.Instruction); ok && idx != ssa.Value(phi) {
		if rf := v.(ssa.Value).Referrers(); rf != nil {
			uses = append(uses, *rf...)
		}
	}
	for _, u := range uses {
		if bo, ok := u.(*ssa.BinOp); ok {
			if c, ok := stripConv(bo.Y).(*ssa.Call); ok {
				if b, ok := c.Call.Value.(*ssa.Builtin); ok && b.Name() == "len" && c.Call.Args[0] == s {
					boundOK = true
				}
			}
		}
	}
	return initOK && boundOK
}

func checkSender(p *Prog, r *Report, fn *ssa.Function) {
	name := FuncName(fn)
	pos := p.Pos(fn.Pos())
	var loopFn *ssa.Function
	for _, g := range GoClosures(fn) {
		if len(LoopHeaders(g)) == 1 {
			loopFn = g
		}
	}
	if loopFn == nil {
		r.Undecided("C07.R1", name, pos, "sender runs one loop in a goroutine", "not found")
		return
	}
	L := loopHeadersSorted(loopFn)[0]
	fp := PathsInl(loopFn)
	// channels returned: done (chan interface{}), errc (chan error)
	var doneV, errV ssa.Value
	for _, b := range fn.Blocks {
		for _, in := range b.Instrs {
			if ret, ok := in.(*ssa.Return); ok && len(ret.Results) == 2 {
				doneV, errV = ret.Results[0], ret.Results[1]
			}
		}
	}
	i := 0
	for _, s := range fp.From(L) {
		if s.IsSelectPanicTail() {
			continue
		}
		i++
		key := segKey(loopFn, "iteration-path", i)
		path := s.Describe(p)
		var pkt ssa.Value
		for _, rc := range s.Recvs() {
			if chanElemIs(rc.Chan.Type(), tBufferData) {
				if rc.Ok == nil {
					pkt = rc.Val
				} else if k, v := s.BoolFact(rc.Ok); k && v {
					pkt = rc.Val
				}
			}
		}
		writes := s.CallsTo(fnWritePkt)
		frees := s.CallsTo(fnFreeBuf)
		emits := s.Emits()
		for _, e := range s.Events {
			if (e.Kind == EvGo || e.Kind == EvDefer) && (IsCallTo(e.Call, fnWritePkt) || IsCallTo(e.Call, fnFreeBuf)) {
				r.Viol("C07.R2", key, pos, "write and free are synchronous calls in the sender loop", "asynchronous write/free: the buffer can be reused while it is being written", path...)
			}
		}
		for _, em := range emits {
			if em.Lossy {
				r.Viol("C07.R1", key, pos, "error reports are never dropped", "send with default case", path...)
			}
			if errV != nil && !p.SameOrigin(em.Chan, errV) {
				r.Viol("C07.R1", key, pos, "errors go to the returned error channel", "send to another channel", path...)
			}
		}
		if pkt == nil {
			ok := (selectDoneChosen(s) || recvClosed(s)) && s.Returns() && len(writes) == 0 && len(frees) == 0 && len(emits) == 0
			r.Check(ok, "C07.R1", key, pos, "a path without an item is the cancel/closed exit with no effects", "effects without an item", path...)
			continue
		}
		if s.End != L {
			r.Viol("C07.R1", key, pos, "the sender keeps serving after any item", "loop left after an item", path...)
			continue
		}
		known, isNil := fieldNilFact(s, pkt, "Err")
		if !known {
			r.Viol("C07.R1", key, pos, "the item's error is examined before writing", "item.Err not tested", path...)
			continue
		}
		if !isNil {
			ok := len(writes) == 0 && len(frees) == 0 && len(emits) == 1 && isFieldOf(s, emits[0].Val, pkt, "Err")
			r.Check(ok, "C07.R1", key, pos, "an error item yields exactly one error on the error stream and no write", fmt.Sprintf("writes=%d frees=%d reports=%d", len(writes), len(frees), len(emits)), path...)
			continue
		}
		if len(writes) != 1 {
			r.Viol("C07.R1", key, pos, "each frame is written exactly once", fmt.Sprintf("%d writes", len(writes)), path...)
			continue
		}
		w := writes[0]
		// argument: pkt.Buf.Bytes()
		var bytesCall *ssa.Call
		if c, ok := s.Resolve(w.Call.Args[0]).(*ssa.Call); ok && c.Call.IsInvoke() && c.Call.Method.Name() == "Bytes" && isFieldOf(s, c.Call.Value, pkt, "Buf") {
			bytesCall = c
		}
		if bytesCall == nil {
			r.Viol("C07.R2", key, pos, "the bytes written are item.Buf.Bytes() of this very item", "write argument is "+s.Term(w.Call.Args[0]), path...)
			continue
		}
		if len(frees) != 1 || !isFieldOf(s, frees[0].Call.Args[0], pkt, "Buf") {
			r.Viol("C07.R2", key, pos, "the item's buffer is returned to the pool exactly once", fmt.Sprintf("%d frees (or not this item's buffer)", len(frees)), path...)
			continue
		}
		fr := frees[0]
		order := s.ord[bytesCall] < w.Ord && w.Ord < fr.Ord
		r.Check(order, "C07.R2", key, pos, "Bytes() -> WritePacketData -> FreeSerializeBuffer, in that order (no free before the write returned)", "buffer freed before the write (a builder can reuse it while it is on its way to the wire)", path...)
		// error accounting
		want := 0
		wk, wnil := s.NilFact(w.Val)
		fk, fnil := s.NilFact(fr.Val)
		if !wk || !fk {
			r.Viol("C07.R1", key, pos, "write and free errors are examined", "an error result is not tested", path...)
			continue
		}
		if !wnil {
			want++
		}
		if !fnil {
			want++
		}
		okVals := len(emits) == want
		for _, em := range emits {
			if !(s.Same(em.Val, w.Val) || s.Same(em.Val, fr.Val)) {
				okVals = false
			}
		}
		r.Check(okVals, "C07.R1", key, pos, "every failed write/free yields exactly one error; successes yield none", fmt.Sprintf("reports=%d want=%d", len(emits), want), path...)
	}
	// R3 completion: done closed only by defer of the writing goroutine, once; inline closes absent
	dc := deferredCloses(loopFn)
	nDone, nErr := 0, 0
	for _, c := range dc {
		if doneV != nil && p.SameOrigin(c, doneV) {
			nDone++
		}
		if errV != nil && p.SameOrigin(c, errV) {
			nErr++
		}
	}
	inline := 0
	for _, s := range fp.Segs {
		for _, e := range s.Events {
			if e.Kind == EvClose {
				inline++
			}
		}
	}
	r.Check(nDone == 1 && nErr == 1 && inline == 0, "C07.R3", name+"/completion", pos, "done and errc are closed exactly once, by defer of the goroutine that performs the writes (completion after the last write)", fmt.Sprintf("deferred done=%d errc=%d inline=%d", nDone, nErr, inline))
	// the engine returns the sender's done
	for _, st := range p.Implementers(modPath+"/pkg/scan", "Engine", "Start") {
		var sp *ssa.Call
		for _, b := range st.Blocks {
			for _, in := range b.Instrs {
				if c, ok := in.(*ssa.Call); ok && IsCallTo(&c.Call, fnSendPackets) {
					sp = c
				}
			}
		}
		if sp == nil {
			continue
		}
		ok := false
		for _, b := range st.Blocks {
			for _, in := range b.Instrs {
				if ret, ok2 := in.(*ssa.Return); ok2 && len(ret.Results) == 2 {
					if ex, ok3 := ret.Results[0].(*ssa.Extract); ok3 && ex.Tuple == ssa.Value(sp) && ex.Index == 0 {
						ok = true
					}
				}
			}
		}
		r.Check(ok, "C07.R3", FuncName(st)+"/done", p.Pos(st.Pos()), "the packet engine's completion signal is the sender's done channel", "Start returns another channel as done")
	}
}

func checkWhoMayCall(p *Prog, r *Report) {
	senders := map[*ssa.Function]bool{}
	for _, f := range p.Implementers(modPath+"/pkg/packet", "Sender", "SendPackets") {
		senders[f] = true
	}
	builders := map[*ssa.Function]bool{}
	for _, f := range p.FuncsCalling(func(c *ssa.CallCommon) bool { return IsCallTo(c, fnFill) }) {
		builders[f] = true
	}
	root := func(f *ssa.Function) *ssa.Function {
		for f.Parent() != nil {
			f = f.Parent()
		}
		return f
	}
	var badFree, badNew []string
	nFree, nNew := 0, 0
	for _, fn := range p.SrcFuncs() {
		for _, b := range fn.Blocks {
			for _, in := range b.Instrs {
				ci, ok := in.(ssa.CallInstruction)
				if !ok {
					continue
				}
				if IsCallTo(ci.Common(), fnFreeBuf) {
					nFree++
					if !senders[root(fn)] {
						badFree = append(badFree, FuncName(fn))
					}
				}
				if IsCallTo(ci.Common(), fnNewBuf) {
					nNew++
					if !builders[fn] && !builders[root(fn)] {
						badNew = append(badNew, FuncName(fn))
					}
				}
			}
		}
	}
	r.Check(len(badFree) == 0 && nFree > 0, "C07.R2", "who-may-call/FreeSerializeBuffer", "-", "buffers are returned to the pool only by packet.Sender implementations", "also called from "+strings.Join(badFree, ", "))
	r.Check(len(badNew) == 0 && nNew > 0, "C07.R2", "who-may-call/NewSerializeBuffer", "-", "buffers are taken from the pool only by the packet builder", "also called from "+strings.Join(badNew, ", "))
	// the pool global is touched only by those two functions
	pk := p.SPkg("pkg/packet")
	var badPool []string
	for _, fn := range p.SrcFuncs() {
		for _, b := range fn.Blocks {
			for _, in := range b.Instrs {
				if u, ok := in.(*ssa.UnOp); ok {
					if g, ok := u.X.(*ssa.Global); ok && g.Pkg == pk && strings.Contains(g.Type().String(), "sync.Pool") {
						n := root(fn).Name()
						if n != "NewSerializeBuffer" && n != "FreeSerializeBuffer" && n != "init" {
							badPool = append(badPool, FuncName(fn))
						}
					}
				}
			}
		}
	}
	r.Check(len(badPool) == 0, "C07.R2", "who-may-touch/bufferPool", "-", "the buffer pool is accessed only by NewSerializeBuffer/FreeSerializeBuffer", "also accessed from "+strings.Join(badPool, ", "))
}

func checkFanOut(p *Prog, r *Report) {
	// PacketGenerator implementations that call another generator's Packets in a loop
	for _, fn := range p.Implementers(modPath+"/pkg/scan", "PacketGenerator", "Packets") {
		heads := loopHeadersSorted(fn)
		if len(heads) != 1 {
			continue
		}
		name := FuncName(fn)
		pos := p.Pos(fn.Pos())
		in := fn.Params[2]
		// slice made with len numWorkers; loop i=0; i<numWorkers; stores Packets(ctx,in) at workers[i]; merge(ctx, workers...)
		var mk *ssa.MakeSlice
		var inner *ssa.Call
		var merge *ssa.Call
		for _, b := range fn.Blocks {
			for _, ins := range b.Instrs {
				switch t := ins.(type) {
				case *ssa.MakeSlice:
					mk = t
				case *ssa.Call:
					if f := StaticCallee(&t.Call); f != nil && f.Name() == "Packets" && loopBlocks(heads[0])[b] {
						inner = t
					} else if f != nil && f.Signature.Variadic() {
						merge = t
					}
				}
			}
		}
		if mk == nil || inner == nil || merge == nil {
			r.Undecided("C07.R4", name, pos, "fan-out builds a slice of worker outputs and merges it", "shape not recognised")
			continue
		}
		r.Check(len(inner.Call.Args) >= 3 && inner.Call.Args[len(inner.Call.Args)-1] == ssa.Value(in), "C07.R4", name+"/same-input", pos, "every worker reads the same input channel", "a worker gets a different input")
		// stored at workers[i], i induction from 0, bound = len of make
		storeOK := false
		for _, ref := range *inner.Referrers() {
			if st, ok := ref.(*ssa.Store); ok {
				if ia, ok := st.Addr.(*ssa.IndexAddr); ok && ia.X == ssa.Value(mk) {
					storeOK = inductionCoversSlice(ia.Index, mk)
				}
			}
		}
		r.Check(storeOK, "C07.R4", name+"/all-workers", pos, "the worker slice is filled over its whole length (i from 0 while i < len)", "some worker output never reaches the merger (its frames are lost)")
		mOK := false
		if sl, ok := merge.Call.Args[len(merge.Call.Args)-1].(*ssa.MakeSlice); ok && sl == mk {
			mOK = true
		} else if merge.Call.Args[len(merge.Call.Args)-1] == ssa.Value(mk) {
			mOK = true
		}
		r.Check(mOK, "C07.R4", name+"/merge-all", pos, "the whole worker slice is handed to the merger", "merger receives something else than the full slice")
	}
}

func checkSharedWrites(p *Prog, r *Report) {
	for _, fn := range p.Implementers(modPath+"/pkg/scan", "PacketFiller", "Fill") {
		ws := writesThrough(p, fn, fn.Params[0])
		r.Check(len(ws) == 0, "C07.R5", FuncName(fn), p.Pos(fn.Pos()), "Fill (shared by NumCPU workers) writes nothing reachable from its receiver", strings.Join(ws, "; "))
	}
	for _, fn := range p.Implementers(modPath+"/pkg/scan", "PacketGenerator", "Packets") {
		ws := writesThrough(p, fn, fn.Params[0])
		r.Check(len(ws) == 0, "C07.R5", FuncName(fn), p.Pos(fn.Pos()), "the packet generator (one instance serves all workers) keeps no mutable state in its receiver", strings.Join(ws, "; "))
	}
}

func checkGeneratorFailure(p *Prog, r *Report) {
	for _, fn := range p.Implementers(modPath+"/pkg/scan", "PacketSource", "Packets") {
		if fn.Pkg != p.SPkg("pkg/scan") {
			continue
		}
		fp := PathsInl(fn)
		for i, s := range fp.Segs {
			gens := s.CallsWhere(func(c *ssa.CallCommon) bool {
				return IsCallTo(c, modPath+"/pkg/scan.RequestGenerator.GenerateRequests")
			})
			if len(gens) != 1 || !s.Returns() {
				continue
			}
			var gerr ssa.Value
			for _, ref := range *gens[0].Instr.(*ssa.Call).Referrers() {
				if ex, ok := ref.(*ssa.Extract); ok && ex.Index == 1 {
					gerr = ex
				}
			}
			if gerr == nil {
				continue
			}
			k, isNil := s.NilFact(gerr)
			if !k || isNil {
				continue
			}
			key := segKey(fn, "generator-error-path", i+1)
			sends, closes := 0, 0
			okVal := false
			var ch ssa.Value
			for _, e := range s.Events {
				if e.Kind == EvSend {
					sends++
					ch = e.Chan
					if lf := litFields(s, e.Val); lf["Err"] != nil && s.Same(lf["Err"], gerr) {
						okVal = true
					}
				}
				if e.Kind == EvClose {
					closes++
				}
			}
			buffered := false
			if ch != nil {
				if mc := p.MakeChans(ch); len(mc) == 1 {
					if c, ok := constInt(mc[0].Size); ok && c >= 1 {
						buffered = true
					}
				}
			}
			ret := s.Exit.(*ssa.Return)
			same := ch != nil && len(ret.Results) == 1 && p.SameOrigin(ret.Results[0], ch)
			r.Check(sends == 1 && closes == 1 && okVal && buffered && same, "C07.R6", key, p.Pos(fn.Pos()), "a request-generator failure yields exactly one error item on a closed (buffered) channel", fmt.Sprintf("sends=%d closes=%d carriesErr=%v buffered=%v returned=%v", sends, closes, okVal, buffered, same), s.Describe(p)...)
		}
	}
}

// inductionCoversSlice: idx runs over 0 .. len-1 of the slice made by mk, in steps of one.
// Classic form: idx = phi(0, idx+1), loop guarded by idx < L. Range form (go/ssa rotates `for i := range s`):
// idx = phi(-1, idx) + 1, guarded by idx < len(s). L is the make's length operand or len(slice).
func inductionCoversSlice(idx ssa.Value, mk *ssa.MakeSlice) bool {
	isLen := func(b ssa.Value) bool {
		if (*Seg)(nil).term(b, 0) == (*Seg)(nil).term(mk.Len, 0) {
			return true
		}
		if c, ok := b.(*ssa.Call); ok {
			if bi, isB := c.Call.Value.(*ssa.Builtin); isB && bi.Name() == "len" && c.Call.Args[0] == ssa.Value(mk) {
				return true
			}
		}
		return false
	}
	guarded := func(v ssa.Value) bool {
		for _, u := range *v.Referrers() {
			if bo, ok := u.(*ssa.BinOp); ok && bo.Op == token.LSS && bo.X == v && isLen(bo.Y) {
				return true
			}
		}
		return false
	}
	plus1 := func(v ssa.Value, base ssa.Value) bool {
		bo, ok := v.(*ssa.BinOp)
		if !ok || bo.Op != token.ADD || bo.X != base {
			return false
		}
		k, isK := constInt(bo.Y)
		return isK && k == 1
	}
	if phi, ok := idx.(*ssa.Phi); ok && len(phi.Edges) == 2 {
		init0, step := false, false
		for _, e := range phi.Edges {
			if k, isK := constInt(e); isK && k == 0 {
				init0 = true
			} else if plus1(e, phi) {
				step = true
			}
		}
		return init0 && step && guarded(phi)
	}
	if bo, ok := idx.(*ssa.BinOp); ok {
		if phi, isP := bo.X.(*ssa.Phi); isP && plus1(bo, phi) && len(phi.Edges) == 2 {
			initM1, back := false, false
			for _, e := range phi.Edges {
				if k, isK := constInt(e); isK && k == -1 {
					initM1 = true
				} else if e == ssa.Value(bo) {
					back = true
				}
			}
			return initM1 && back && guarded(bo)
		}
	}
	return false
}
