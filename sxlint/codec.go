package main

// TB — extraction of generated (easyjson) codecs from SSA: the encoder's effect sequence per
// path and the decoder's key switch, compared with the struct's tags.

import (
	"fmt"
	"go/constant"
	"go/token"
	"go/types"
	"reflect"
	"sort"
	"strings"

	"golang.org/x/tools/go/ssa"
)

type tagInfo struct {
	Field     string
	Key       string
	OmitEmpty bool
	Type      types.Type
}

// structTags parses the json tags of a struct type (fields without tag use their name; "-" skipped).
func structTags(st *types.Struct) []tagInfo {
	var out []tagInfo
	for i := 0; i < st.NumFields(); i++ {
		f := st.Field(i)
		if !f.Exported() {
			continue
		}
		tag := reflect.StructTag(st.Tag(i)).Get("json")
		key, omit := f.Name(), false
		if tag != "" {
			parts := strings.Split(tag, ",")
			if parts[0] == "-" {
				continue
			}
			if parts[0] != "" {
				key = parts[0]
			}
			for _, o := range parts[1:] {
				if o == "omitempty" {
					omit = true
				}
			}
		}
		out = append(out, tagInfo{Field: f.Name(), Key: key, OmitEmpty: omit, Type: f.Type()})
	}
	return out
}

type encItem struct {
	Raw    string // raw text written (for RawByte/RawString)
	Field  string // field whose value is written (for typed writers / nested encoders)
	Writer string // writer method or nested encoder name
}

// constStringOf evaluates constant strings and constant-string slices `"..."[k:]`.
func constStringOf(v ssa.Value) (string, bool) {
	if s, ok := constString(v); ok {
		return s, true
	}
	if sl, ok := v.(*ssa.Slice); ok {
		base, ok := constString(sl.X)
		if !ok {
			return "", false
		}
		lo, hi := int64(0), int64(len(base))
		if sl.Low != nil {
			k, ok := constInt(sl.Low)
			if !ok {
				return "", false
			}
			lo = k
		}
		if sl.High != nil {
			k, ok := constInt(sl.High)
			if !ok {
				return "", false
			}
			hi = k
		}
		if lo < 0 || hi > int64(len(base)) || lo > hi {
			return "", false
		}
		return base[lo:hi], true
	}
	return "", false
}

// encoderPaths returns, for every path of an easyjson encoder func(out *jwriter.Writer, in T),
// the ordered items written.
func encoderPaths(fn *ssa.Function) ([][]encItem, string) {
	fp := Paths(fn)
	if len(fp.Headers) > 0 || fp.Truncated {
		return nil, "encoder has loops"
	}
	var out [][]encItem
	for _, s := range fp.Segs {
		if !s.Returns() {
			continue
		}
		var items []encItem
		for _, e := range s.Events {
			if e.Kind != EvCall {
				continue
			}
			f := StaticCallee(e.Call)
			if f == nil {
				return nil, "dynamic call in encoder"
			}
			isWriter := f.Signature.Recv() != nil && strings.HasSuffix(types.TypeString(f.Signature.Recv().Type(), nil), "jwriter.Writer")
			switch {
			case isWriter && f.Name() == "RawByte":
				k, ok := constInt(e.Call.Args[1])
				if !ok {
					return nil, "non-constant RawByte"
				}
				items = append(items, encItem{Raw: string(rune(k))})
			case isWriter && f.Name() == "RawString":
				str, ok := constStringOf(s.Resolve(e.Call.Args[1]))
				if !ok {
					// a field written raw (unescaped)
					if _, fld, isF := fieldLoad(s.Resolve(stripConvAll(e.Call.Args[1]))); isF {
						items = append(items, encItem{Field: fld, Writer: "RawString"})
						continue
					}
					return nil, "non-constant RawString"
				}
				items = append(items, encItem{Raw: str})
			case isWriter:
				_, fld, isF := fieldLoad(s.Resolve(stripConvAll(e.Call.Args[1])))
				if !isF {
					return nil, "writer argument is not a field of the value"
				}
				items = append(items, encItem{Field: fld, Writer: f.Name()})
			case f.Pkg == fn.Pkg && len(e.Call.Args) == 2:
				// nested encoder(out, *in.F)
				arg := s.Resolve(e.Call.Args[1])
				if u, ok := arg.(*ssa.UnOp); ok && u.Op == token.MUL {
					arg = s.Resolve(u.X)
				}
				_, fld, isF := fieldLoad(arg)
				if !isF {
					return nil, "nested encoder argument is not a field"
				}
				items = append(items, encItem{Field: fld, Writer: "nested:" + f.Name()})
			default:
				return nil, "unexpected call " + CalleeName(e.Call)
			}
		}
		out = append(out, items)
	}
	return out, ""
}

// skeletonOf validates one encoder path as a JSON object skeleton and returns key -> item.
func skeletonOf(items []encItem) (map[string]encItem, []string, string) {
	text := ""
	var vals []encItem
	for _, it := range items {
		if it.Writer != "" {
			text += "\x00"
			vals = append(vals, it)
		} else {
			text += it.Raw
		}
	}
	if !strings.HasPrefix(text, "{") || !strings.HasSuffix(text, "}") {
		return nil, nil, "object braces missing"
	}
	body := text[1 : len(text)-1]
	keys := map[string]encItem{}
	var order []string
	if body == "" {
		return keys, order, ""
	}
	vi := 0
	for i, part := range strings.Split(body, ",") {
		_ = i
		// "key":V   where V is \x00 or a raw literal (null)
		if !strings.HasPrefix(part, "\"") {
			return nil, nil, "member does not start with a quoted key: " + fmt.Sprintf("%q", part)
		}
		j := strings.Index(part[1:], "\"")
		if j < 0 {
			return nil, nil, "unterminated key"
		}
		key := part[1 : 1+j]
		rest := part[2+j:]
		if !strings.HasPrefix(rest, ":") {
			return nil, nil, "missing colon after key " + key
		}
		val := rest[1:]
		switch val {
		case "\x00":
			if vi >= len(vals) {
				return nil, nil, "value count mismatch"
			}
			keys[key] = vals[vi]
			vi++
		case "null":
			keys[key] = encItem{Writer: "null"}
		default:
			return nil, nil, "member value of " + key + " is neither a written value nor null: " + fmt.Sprintf("%q", val)
		}
		if _, dup := indexOf(order, key); dup {
			return nil, nil, "duplicate key " + key
		}
		order = append(order, key)
	}
	if vi != len(vals) {
		return nil, nil, "a value is written outside a member"
	}
	return keys, order, ""
}

func indexOf(xs []string, x string) (int, bool) {
	for i, y := range xs {
		if y == x {
			return i, true
		}
	}
	return -1, false
}

// writerFor returns the jwriter method expected for a field type.
func writerFor(t types.Type) string {
	switch u := t.Underlying().(type) {
	case *types.Basic:
		switch u.Kind() {
		case types.String:
			return "String"
		case types.Bool:
			return "Bool"
		case types.Int:
			return "Int"
		case types.Int8:
			return "Int8"
		case types.Int16:
			return "Int16"
		case types.Int32:
			return "Int32"
		case types.Int64:
			return "Int64"
		case types.Uint:
			return "Uint"
		case types.Uint8:
			return "Uint8"
		case types.Uint16:
			return "Uint16"
		case types.Uint32:
			return "Uint32"
		case types.Uint64:
			return "Uint64"
		case types.Float32:
			return "Float32"
		case types.Float64:
			return "Float64"
		}
	case *types.Pointer:
		return "nested"
	case *types.Struct:
		return "nested"
	}
	return "?"
}

// decoderCases extracts key -> assigned field from an easyjson decoder's key switch and whether
// unknown keys are skipped.
func decoderCases(fn *ssa.Function) (map[string]string, bool, string) {
	cases := map[string]string{}
	skips := false
	fp := Paths(fn)
	if fp.Truncated {
		return nil, false, "too many paths"
	}
	for _, s := range fp.Segs {
		trueKey := ""
		nEq := 0
		for _, f := range s.Facts {
			bo, ok := f.Cond.(*ssa.BinOp)
			if !ok || bo.Op != token.EQL {
				continue
			}
			cs, ok := constString(bo.Y)
			if !ok {
				continue
			}
			nEq++
			if f.Truth {
				trueKey = cs
			}
		}
		if nEq == 0 {
			continue
		}
		if trueKey == "" {
			for _, e := range s.Events {
				if e.Kind == EvCall {
					if f := StaticCallee(e.Call); f != nil && f.Name() == "SkipRecursive" {
						skips = true
					}
				}
			}
			continue
		}
		// the field assigned on this path
		field := ""
		for _, e := range s.Events {
			if e.Kind == EvStore {
				if fa, ok := e.Addr.(*ssa.FieldAddr); ok {
					if _, isP := fa.X.(*ssa.Parameter); isP {
						field = fieldName(fa.X.Type(), fa.Field)
					}
				}
			}
			if e.Kind == EvCall && field == "" {
				// nested decoder(in, out.F)
				if f := StaticCallee(e.Call); f != nil && f.Pkg == fn.Pkg && len(e.Call.Args) == 2 {
					if _, fld, isF := fieldLoad(s.Resolve(e.Call.Args[1])); isF {
						field = fld
					}
				}
			}
		}
		if old, had := cases[trueKey]; had && old != field && field != "" {
			return nil, false, "key " + trueKey + " assigns different fields on different paths"
		}
		if field != "" || cases[trueKey] == "" {
			cases[trueKey] = field
		}
	}
	return cases, skips, ""
}

// easyjsonCodec finds the encoder/decoder functions of named type T in its package.
func (p *Prog) easyjsonCodec(T *types.Named) (enc, dec *ssa.Function) {
	for _, fn := range p.SrcFuncs() {
		if fn.Pkg == nil || fn.Pkg.Pkg != T.Obj().Pkg() || fn.Parent() != nil || fn.Signature.Recv() != nil || fn.Signature.Params().Len() != 2 {
			continue
		}
		p0 := types.TypeString(fn.Signature.Params().At(0).Type(), nil)
		p1 := fn.Signature.Params().At(1).Type()
		if strings.HasSuffix(p0, "jwriter.Writer") && types.Identical(p1, T) {
			enc = fn
		}
		if strings.HasSuffix(p0, "jlexer.Lexer") {
			if pt, ok := p1.(*types.Pointer); ok && types.Identical(pt.Elem(), T) {
				dec = fn
			}
		}
	}
	return
}

// checkCodec evaluates the codec-agreement obligations for named struct type T.
func checkCodec(p *Prog, r *Report, rule string, T *types.Named, needDecoder bool) {
	name := T.Obj().Pkg().Name() + "." + T.Obj().Name()
	pos := p.Pos(T.Obj().Pos())
	st, ok := T.Underlying().(*types.Struct)
	if !ok {
		r.Undecided(rule, name, pos, "a struct type", "not a struct")
		return
	}
	tags := structTags(st)
	enc, dec := p.easyjsonCodec(T)
	if enc == nil {
		r.Undecided(rule, name+"/encoder", pos, "the generated encoder of the type is found", "no func(*jwriter.Writer, T) in the package")
		return
	}
	paths, why := encoderPaths(enc)
	if why != "" {
		r.Undecided(rule, name+"/encoder", pos, "the encoder is a straight-line sequence of writer calls", why)
		return
	}
	okS, whyS := true, ""
	seenWith := map[string]bool{}
	seenWithout := map[string]bool{}
	for _, items := range paths {
		keys, order, bad := skeletonOf(items)
		if bad != "" {
			okS, whyS = false, bad
			continue
		}
		// order follows the struct, every non-omitempty key present
		for _, t := range tags {
			it, has := keys[t.Key]
			if has {
				seenWith[t.Key] = true
			} else {
				seenWithout[t.Key] = true
				if !t.OmitEmpty {
					okS, whyS = false, "key "+t.Key+" is missing on an encoder path although it is not omitempty"
				}
				continue
			}
			if it.Writer == "null" {
				if _, isPtr := t.Type.Underlying().(*types.Pointer); !isPtr {
					okS, whyS = false, "null written for non-pointer field "+t.Field
				}
				continue
			}
			if it.Field != t.Field {
				okS, whyS = false, fmt.Sprintf("key %q carries field %s, its tag belongs to field %s", t.Key, it.Field, t.Field)
			}
			want := writerFor(t.Type)
			if want == "nested" {
				if !strings.HasPrefix(it.Writer, "nested:") {
					okS, whyS = false, "field "+t.Field+" is not encoded by its nested encoder"
				}
			} else if it.Writer != want {
				okS, whyS = false, fmt.Sprintf("field %s (%s) is written with %s, expected the escaping/typed writer %s", t.Field, t.Type, it.Writer, want)
			}
		}
		for _, k := range order {
			known := false
			for _, t := range tags {
				if t.Key == k {
					known = true
				}
			}
			if !known {
				okS, whyS = false, "encoder writes key "+k+" that no struct tag declares"
			}
		}
	}
	for _, t := range tags {
		if t.OmitEmpty && !(seenWith[t.Key] && seenWithout[t.Key]) {
			okS, whyS = false, "omitempty key "+t.Key+" is not both present and absent across encoder paths"
		}
	}
	r.Check(okS && len(paths) > 0, rule, name+"/encoder", p.Pos(enc.Pos()), "on every path the encoder emits a complete JSON object whose keys are the struct tags, each carrying its own field through the escaping / typed writer", whyS)
	r.Count("encoder_paths", len(paths))
	if !needDecoder {
		return
	}
	if dec == nil {
		r.Undecided(rule, name+"/decoder", pos, "the generated decoder of the type is found", "no func(*jlexer.Lexer, *T)")
		return
	}
	cases, skips, bad := decoderCases(dec)
	okD, whyD := bad == "", bad
	for _, t := range tags {
		if cases[t.Key] != t.Field {
			okD, whyD = false, fmt.Sprintf("decoder key %q assigns %q, the tag belongs to field %s", t.Key, cases[t.Key], t.Field)
		}
	}
	var ks []string
	for k := range cases {
		ks = append(ks, k)
	}
	sort.Strings(ks)
	for _, k := range ks {
		known := false
		for _, t := range tags {
			if t.Key == k {
				known = true
			}
		}
		if !known {
			okD, whyD = false, "decoder accepts key "+k+" that no struct tag declares"
		}
	}
	r.Check(okD, rule, name+"/decoder", p.Pos(dec.Pos()), "the decoder's key switch assigns each tagged key to its own field", whyD)
	r.Check(skips, rule, name+"/decoder-unknown-keys", p.Pos(dec.Pos()), "unknown keys are skipped (lines with extra fields still load)", "default case does not skip")
}

var _ = constant.MakeBool
