package main

// Loading of /repo's current working tree into typed syntax + SSA.
// Nothing here executes repo code; go/packages type-checks it, go/ssa builds the IR.

import (
	"fmt"
	"go/ast"
	"go/token"
	"go/types"
	"os"
	"path/filepath"
	"sort"
	"strings"

	"golang.org/x/tools/go/callgraph"
	"golang.org/x/tools/go/callgraph/cha"
	"golang.org/x/tools/go/callgraph/vta"
	"golang.org/x/tools/go/packages"
	"golang.org/x/tools/go/ssa"
	"golang.org/x/tools/go/ssa/ssautil"
)

const modPath = "github.com/v-byte-cpu/sx"

// Prog is the loaded repository.
type Prog struct {
	Repo   string
	Fset   *token.FileSet
	Pkgs   map[string]*packages.Package // import path -> package (repo packages only)
	All    []*packages.Package          // root packages, sorted
	SSA    *ssa.Program
	SSAPkg map[string]*ssa.Package
	Whole  bool              // dependencies loaded with syntax (thorough)
	Layers *packages.Package // gopacket/layers with syntax (for C06 tables), lazily loaded

	srcFuncs []*ssa.Function
	cg       *callgraph.Graph
	Env      []string
}

func loadEnv(extra ...string) []string {
	env := []string{}
	for _, e := range os.Environ() {
		if strings.HasPrefix(e, "GOWORK=") || strings.HasPrefix(e, "GOFLAGS=") ||
			strings.HasPrefix(e, "GOPROXY=") || strings.HasPrefix(e, "GOSUMDB=") || strings.HasPrefix(e, "GOTOOLCHAIN=") {
			continue
		}
		env = append(env, e)
	}
	env = append(env, "GOWORK=off", "GOFLAGS=-mod=mod", "GOPROXY=off", "GOSUMDB=off", "GOTOOLCHAIN=local")
	env = append(env, extra...)
	return env
}

// Load type-checks the repository. overlay maps absolute file names to replacement contents
// (used only for the checker's self-validation corpus; never for the verdict on /repo).
func Load(repo string, whole bool, overlay map[string][]byte, extraEnv ...string) (*Prog, error) {
	mode := packages.LoadSyntax
	if whole {
		mode = packages.LoadAllSyntax
	}
	fset := token.NewFileSet()
	cfg := &packages.Config{Mode: mode, Dir: repo, Fset: fset, Tests: false, Overlay: overlay, Env: loadEnv(extraEnv...)}
	pkgs, err := packages.Load(cfg, "./...")
	if err != nil {
		return nil, fmt.Errorf("load: %w", err)
	}
	if len(pkgs) == 0 {
		return nil, fmt.Errorf("load: zero packages under %s", repo)
	}
	var errs []string
	for _, p := range pkgs {
		for _, e := range p.Errors {
			errs = append(errs, e.Error())
		}
		if p.Types == nil || p.TypesInfo == nil {
			errs = append(errs, p.PkgPath+": no type information")
		}
	}
	if len(errs) > 0 {
		sort.Strings(errs)
		if len(errs) > 8 {
			errs = errs[:8]
		}
		return nil, fmt.Errorf("package errors: %s", strings.Join(errs, "; "))
	}
	sort.Slice(pkgs, func(i, j int) bool { return pkgs[i].PkgPath < pkgs[j].PkgPath })
	p := &Prog{Repo: repo, Fset: fset, Pkgs: map[string]*packages.Package{}, All: pkgs, SSAPkg: map[string]*ssa.Package{}, Whole: whole, Env: cfg.Env}
	theProg = p
	var prog *ssa.Program
	var spkgs []*ssa.Package
	if whole {
		prog, spkgs = ssautil.AllPackages(pkgs, ssa.InstantiateGenerics)
	} else {
		prog, spkgs = ssautil.Packages(pkgs, ssa.InstantiateGenerics)
	}
	prog.Build()
	p.SSA = prog
	for i, pk := range pkgs {
		p.Pkgs[pk.PkgPath] = pk
		if spkgs[i] == nil {
			return nil, fmt.Errorf("no SSA for %s", pk.PkgPath)
		}
		p.SSAPkg[pk.PkgPath] = spkgs[i]
	}
	return p, nil
}

// Pkg returns a repo package by path relative to the module ("" = root, "pkg/scan", "command").
func (p *Prog) Pkg(rel string) *packages.Package {
	path := modPath
	if rel != "" {
		path += "/" + rel
	}
	return p.Pkgs[path]
}

func (p *Prog) SPkg(rel string) *ssa.Package {
	path := modPath
	if rel != "" {
		path += "/" + rel
	}
	return p.SSAPkg[path]
}

// IsRepoPkg reports whether a types.Package belongs to the repository.
func IsRepoPkg(tp *types.Package) bool {
	return tp != nil && (tp.Path() == modPath || strings.HasPrefix(tp.Path(), modPath+"/"))
}

// SrcFuncs returns every function with a body defined in the repository (including
// anonymous functions and methods), in deterministic order.
func (p *Prog) SrcFuncs() []*ssa.Function {
	if p.srcFuncs != nil {
		return p.srcFuncs
	}
	seen := map[*ssa.Function]bool{}
	var out []*ssa.Function
	var add func(f *ssa.Function)
	add = func(f *ssa.Function) {
		if f == nil || seen[f] || f.Blocks == nil {
			return
		}
		if f.Synthetic != "" && !strings.HasPrefix(f.Synthetic, "package initializer") {
			// wrappers, bound methods, thunks: no source of their own
			return
		}
		seen[f] = true
		out = append(out, f)
		for _, a := range f.AnonFuncs {
			add(a)
		}
	}
	for _, path := range p.pkgPaths() {
		sp := p.SSAPkg[path]
		var names []string
		for n := range sp.Members {
			names = append(names, n)
		}
		sort.Strings(names)
		for _, n := range names {
			switch m := sp.Members[n].(type) {
			case *ssa.Function:
				add(m)
			case *ssa.Type:
				for _, T := range []types.Type{m.Type(), types.NewPointer(m.Type())} {
					ms := p.SSA.MethodSets.MethodSet(T)
					for i := 0; i < ms.Len(); i++ {
						fn := p.SSA.MethodValue(ms.At(i))
						if fn != nil && fn.Pkg == sp {
							add(fn)
						}
					}
				}
			}
		}
	}
	p.srcFuncs = out
	return out
}

func (p *Prog) pkgPaths() []string {
	var ps []string
	for k := range p.SSAPkg {
		ps = append(ps, k)
	}
	sort.Strings(ps)
	return ps
}

// Func finds a package-level function or a method "T.m" / "(*T).m" by name in a repo package.
func (p *Prog) Func(rel, name string) *ssa.Function {
	sp := p.SPkg(rel)
	if sp == nil {
		return nil
	}
	if i := strings.Index(name, "."); i >= 0 {
		tn, mn := strings.Trim(name[:i], "(*)"), name[i+1:]
		t := sp.Type(tn)
		if t == nil {
			return nil
		}
		for _, T := range []types.Type{types.NewPointer(t.Type()), t.Type()} {
			if sel := p.SSA.MethodSets.MethodSet(T).Lookup(sp.Pkg, mn); sel != nil {
				if fn := p.SSA.MethodValue(sel); fn != nil {
					// unwrap promoted-method wrappers to keep only real source methods
					if fn.Synthetic == "" {
						return fn
					}
				}
			}
		}
		return nil
	}
	return sp.Func(name)
}

// Pos renders a position relative to the repo root.
func (p *Prog) Pos(pos token.Pos) string {
	if !pos.IsValid() {
		return "-"
	}
	ps := p.Fset.Position(pos)
	rel, err := filepath.Rel(p.Repo, ps.Filename)
	if err != nil {
		rel = ps.Filename
	}
	return fmt.Sprintf("%s:%d", rel, ps.Line)
}

// FuncName is a stable, line-free name of an SSA function: pkg.Func, pkg.(*T).M, pkg.Func$1.
func FuncName(f *ssa.Function) string {
	if f == nil {
		return "<nil>"
	}
	s := f.String()
	s = strings.ReplaceAll(s, modPath+"/", "")
	s = strings.ReplaceAll(s, modPath, "sx")
	return s
}

// FileOf returns the syntax file containing pos.
func (p *Prog) FileOf(pos token.Pos) (*packages.Package, *ast.File) {
	for _, pk := range p.All {
		for _, f := range pk.Syntax {
			if f.Pos() <= pos && pos <= f.End() {
				return pk, f
			}
		}
	}
	return nil, nil
}

// CallGraph builds (once) a call graph: VTA over CHA when the whole program is loaded.
func (p *Prog) CallGraph() *callgraph.Graph {
	if p.cg != nil {
		return p.cg
	}
	if p.Whole {
		all := ssautil.AllFunctions(p.SSA)
		p.cg = vta.CallGraph(all, cha.CallGraph(p.SSA))
	} else {
		p.cg = cha.CallGraph(p.SSA)
	}
	return p.cg
}

// LoadLayers loads github.com/google/gopacket/layers (the version the build uses) with syntax.
func (p *Prog) LoadLayers() (*packages.Package, error) {
	if p.Layers != nil {
		return p.Layers, nil
	}
	cfg := &packages.Config{Mode: packages.NeedName | packages.NeedFiles | packages.NeedSyntax | packages.NeedTypes | packages.NeedTypesInfo | packages.NeedImports | packages.NeedDeps,
		Dir: p.Repo, Fset: p.Fset, Env: p.Env}
	pkgs, err := packages.Load(cfg, "github.com/google/gopacket/layers")
	if err != nil {
		return nil, err
	}
	if len(pkgs) != 1 || len(pkgs[0].Errors) > 0 || len(pkgs[0].Syntax) == 0 {
		return nil, fmt.Errorf("cannot load gopacket/layers with syntax")
	}
	p.Layers = pkgs[0]
	return p.Layers, nil
}

// theProg: the program under analysis (for value classifiers that need whole-program facts).
var theProg *Prog
