package main

import (
	"fmt"
	"go/constant"
	"go/token"
	"go/types"
	"sort"
	"strings"

	"golang.org/x/tools/go/ssa"
)

func init() {
	register(&propDef{
		ID: "C05",
		Explanation: "Static conformance of probe construction: (R1) field provenance in the four fillers — addresses, MACs and ports of every header literal come from the same-named request fields, header TTL/flags/protocol/length/type/code/payload and the nine TCP flags from the same-named filler fields (argument order of CreateICMPv4TypeCode included), ARP fields from the request with sizes 6/4 and the request opcode; " +
			"(R2) every filler option writes exactly the one filler field its parameter names, from that parameter (payload copied); (R3) CLI chain — each cobra flag reaches the header field it documents (ttl, ipproto, ipflags, iplen, type, code, payload through their parsers; the TCP flag names through the option table; fixed option sets of the fin/null/xmas scans); " +
			"(R4) serialisation wiring — the checksum pseudo-header is the IPv4 layer that is serialised, ComputeChecksums is on, FixLengths is on unless the length override is non-zero, layer order is [Ethernet,] IPv4, transport[, payload], the Ethernet layer is present exactly when the filler is not in VPN mode, and filler, method, socket and configuration take the VPN flag from the same options field; " +
			"(R5) spoofed fields stay in their advertised ranges (interval evaluation of c+rand.Intn(k)); (R6) Fill never writes through its receiver (it is shared by all packet workers).",
		NotDecided:  []string{"checksum, length and padding bytes computed inside gopacket", "TCP option encoding inside gopacket"},
		Assumptions: []string{"gopacket serialises the layer structs it is given, in order, computing checksums and lengths as the options say", "math/rand.Intn(k) returns a value in [0,k)"},
		Run:         runC05,
	})
}

func runC05(p *Prog, r *Report) {
	r.Min("C05.R1", 4*3)
	r.Min("C05.R2", 12)
	r.Min("C05.R3", 11+18+3)
	r.Min("C05.R4", 4*3)
	r.Min("C05.R5", 6)
	r.Min("C05.R6", 4)
	fillers := p.Implementers(modPath+"/pkg/scan", "PacketFiller", "Fill")
	if len(fillers) < 4 {
		r.Viol("C05.R1", "fillers", "-", "four packet fillers exist (arp, icmp, tcp, udp)", fmt.Sprint(len(fillers)))
	}
	for _, f := range fillers {
		checkFillProvenance(p, r, f)
		checkSerialisation(p, r, f)
		checkSpoofRanges(p, r, f)
		ws := writesThrough(p, f, f.Params[0])
		r.Check(len(ws) == 0, "C05.R6", FuncName(f), p.Pos(f.Pos()), "Fill performs no store through its receiver (the filler is shared by all packet-building goroutines)", strings.Join(ws, "; "))
	}
	checkFillerOptions(p, r)
	checkCLIChain(p, r)
	checkTCPFlagTable(p, r, "C05.R3")
	for _, fn := range parserSet(p) {
		checkPayload(p, r, fn, "C05.R3")
	}
	checkFixedFlagSets(p, r)
	checkVPNWiring(p, r)
	checkFillerCtors(p, r)
	// the raw option strings reach their parsers as written (no trimming / rewriting on the way)
	checkFlagFieldsReadOnly(p, r, "C05.R3", func(fr FlagReg) bool {
		switch fr.Name {
		case "ttl", "ipproto", "ipflags", "iplen", "type", "code", "payload", "flags", "srcip", "srcmac":
			return true
		}
		return false
	})
	// the source address handed to the fillers is a 4-byte address (C17.R1 re-evaluated): the ARP
	// filler writes it verbatim into a frame that announces 4-byte protocol addresses
	sub := NewReport("C05", r.Tier)
	checkRangeTypestate(p, sub)
	for _, o := range sub.Obs {
		if o.Rule == "C17.R1" {
			o2 := *o
			o2.Rule = "C05.R1"
			o2.Text = "probe source addresses are 4-byte IPv4: " + o.Text
			r.Obs = append(r.Obs, &o2)
		}
	}
}

// checkFillerCtors: in a filler constructor the defaults are installed before the options are
// applied; nothing is written to the filler after the option loop (an explicitly requested value,
// e.g. an empty payload, is never replaced by a default).
func checkFillerCtors(p *Prog, r *Report) {
	n := 0
	for _, fn := range p.SrcFuncs() {
		if fn.Parent() != nil || !fn.Signature.Variadic() || fn.Signature.Results().Len() != 1 {
			continue
		}
		if !strings.HasSuffix(types.TypeString(fn.Signature.Results().At(0).Type(), nil), ".PacketFiller") {
			continue
		}
		heads := loopHeadersSorted(fn)
		if len(heads) != 1 {
			continue
		}
		n++
		// the fields an option of this package can set
		optField := map[string]bool{}
		for _, m := range fn.Pkg.Members {
			if of, isF := m.(*ssa.Function); isF {
				if sm := SummOption(of); sm != nil {
					for _, w := range sm.Writes {
						optField[w.Field] = true
					}
				}
			}
		}
		ok, why := true, ""
		for _, s := range PathsInl(fn).From(heads[0]) {
			if s.End != nil {
				continue
			}
			// the loop-exit path
			ret, isRet := s.Exit.(*ssa.Return)
			if !isRet {
				continue
			}
			filler := s.Resolve(ret.Results[0])
			for _, e := range s.Events {
				if e.Kind != EvStore || !derivesFromParam(e.Addr, filler, 0) {
					continue
				}
				if fa, isFA := e.Addr.(*ssa.FieldAddr); isFA && !optField[fieldName(fa.X.Type(), fa.Field)] {
					continue // no option sets this field: nothing an option asked for can be lost
				}
				{
					ok, why = false, "field "+s.Term(e.Addr)+" is written after the options were applied: a value requested through an option can be replaced by a default"
				}
			}
		}
		r.Check(ok, "C05.R2", FuncName(fn)+"/options-last", p.Pos(fn.Pos()), "a filler constructor installs its defaults before the option loop and afterwards writes no field an option can set", why)
	}
	if n < 3 {
		r.Viol("C05.R2", "filler constructors", "-", "the option-taking filler constructors are found (icmp, tcp, udp)", fmt.Sprint(n))
	}
}

func protoOf(fn *ssa.Function) string { return lastElem(fn.Pkg.Pkg.Path()) }

// allocsOfType lists the `new T` instructions of fn whose pointee type string ends with suffix.
func allocsOfType(fn *ssa.Function, suffix string) []*ssa.Alloc {
	var out []*ssa.Alloc
	for _, b := range fn.Blocks {
		for _, in := range b.Instrs {
			if a, ok := in.(*ssa.Alloc); ok && strings.HasSuffix(types.TypeString(a.Type(), nil), suffix) {
				out = append(out, a)
			}
		}
	}
	return out
}

type fieldSpec struct {
	field string
	want  []string // substrings the rendered value must contain / "=" exact
}

func checkLit(p *Prog, r *Report, rule, key string, s *Seg, a *ssa.Alloc, spec []fieldSpec, ok *bool, why *string) {
	lf := litFields(s, a)
	for _, fs := range spec {
		v, has := lf[fs.field]
		if !has {
			*ok, *why = false, fs.field+" is not set"
			continue
		}
		e := sxSeg(s, v, 0)
		for _, w := range fs.want {
			if strings.HasPrefix(w, "=") {
				if e != w[1:] {
					*ok, *why = false, fmt.Sprintf("%s is %s, expected %s", fs.field, e, w[1:])
				}
			} else if !strings.HasSuffix(e, w) && !strings.Contains(e, w+")") && !strings.Contains(e, w+",") {
				*ok, *why = false, fmt.Sprintf("%s is %s, expected to derive from %s", fs.field, e, w)
			}
		}
	}
}

func checkFillProvenance(p *Prog, r *Report, fill *ssa.Function) {
	proto := protoOf(fill)
	name := FuncName(fill)
	pos := p.Pos(fill.Pos())
	fp := Paths(fill)
	const L = "github.com/google/gopacket/layers."
	okIP, whyIP := true, ""
	okT, whyT := true, ""
	okE, whyE := true, ""
	nSer := 0
	for _, s := range fp.Segs {
		if len(s.CallsTo("github.com/google/gopacket.SerializeLayers")) == 0 {
			continue
		}
		nSer++
		for _, a := range allocsOfType(fill, L+"IPv4") {
			if !s.Has(a) {
				continue
			}
			spec := []fieldSpec{{"SrcIP", []string{"r.SrcIP"}}, {"DstIP", []string{"r.DstIP"}}, {"Version", []string{"=4"}}}
			switch proto {
			case "tcp":
				spec = append(spec, fieldSpec{"TTL", []string{"=64"}}, fieldSpec{"Protocol", []string{"=6"}}, fieldSpec{"Flags", []string{"=2"}})
			default:
				spec = append(spec, fieldSpec{"TTL", []string{"f.ttl"}}, fieldSpec{"Protocol", []string{"f.proto"}}, fieldSpec{"Flags", []string{"f.flags"}},
					fieldSpec{"Length", []string{"f.length"}}, fieldSpec{"IHL", []string{"=5"}})
			}
			checkLit(p, r, "C05.R1", name, s, a, spec, &okIP, &whyIP)
		}
		switch proto {
		case "tcp":
			for _, a := range allocsOfType(fill, L+"TCP") {
				if s.Has(a) {
					spec := []fieldSpec{{"DstPort", []string{"r.DstPort"}}}
					for _, n := range tcpFlagNames {
						F := strings.ToUpper(n)
						spec = append(spec, fieldSpec{F, []string{"=f." + F}})
					}
					checkLit(p, r, "C05.R1", name, s, a, spec, &okT, &whyT)
				}
			}
		case "udp":
			for _, a := range allocsOfType(fill, L+"UDP") {
				if s.Has(a) {
					checkLit(p, r, "C05.R1", name, s, a, []fieldSpec{{"DstPort", []string{"r.DstPort"}}}, &okT, &whyT)
				}
			}
		case "icmp":
			for _, a := range allocsOfType(fill, L+"ICMPv4") {
				if s.Has(a) {
					lf := litFields(s, a)
					e := sxSeg(s, lf["TypeCode"], 0)
					if e != "github.com/google/gopacket/layers.CreateICMPv4TypeCode(f.typ,f.code)" && !isTypeCodeWord(s, lf["TypeCode"]) {
						okT, whyT = false, "TypeCode is "+e+", expected CreateICMPv4TypeCode(f.typ, f.code)"
					}
				}
			}
		case "arp":
			for _, a := range allocsOfType(fill, L+"ARP") {
				if s.Has(a) {
					spec := []fieldSpec{{"SourceHwAddress", []string{"r.SrcMAC"}}, {"SourceProtAddress", []string{"r.SrcIP"}}, {"DstProtAddress", []string{"r.DstIP"}},
						{"HwAddressSize", []string{"=6"}}, {"ProtAddressSize", []string{"=4"}}, {"Operation", []string{"=1"}}, {"AddrType", []string{"=1"}}, {"Protocol", []string{"=2048"}}}
					checkLit(p, r, "C05.R1", name, s, a, spec, &okT, &whyT)
				}
			}
		}
		for _, a := range allocsOfType(fill, L+"Ethernet") {
			if !s.Has(a) {
				continue
			}
			if proto == "arp" {
				checkLit(p, r, "C05.R1", name, s, a, []fieldSpec{{"SrcMAC", []string{"r.SrcMAC"}}, {"EthernetType", []string{"=2054"}}}, &okE, &whyE)
				// broadcast destination
				lf := litFields(s, a)
				if !isAllBytes(s, lf["DstMAC"], 0xff, 6) {
					okE, whyE = false, "ARP request is not sent to the broadcast address"
				}
			} else {
				checkLit(p, r, "C05.R1", name, s, a, []fieldSpec{{"SrcMAC", []string{"r.SrcMAC"}}, {"DstMAC", []string{"r.DstMAC"}}, {"EthernetType", []string{"=2048"}}}, &okE, &whyE)
			}
		}
	}
	r.Check(okIP && nSer > 0, "C05.R1", name+"/network", pos, "the IPv4 header carries the request's addresses and the configured (or documented constant) TTL, flags, protocol and length", whyIP)
	r.Check(okT && nSer > 0, "C05.R1", name+"/transport", pos, "the transport/ARP layer carries the request's destination and the configured flags / type / code", whyT)
	r.Check(okE && nSer > 0, "C05.R1", name+"/link", pos, "the Ethernet header carries the request's MAC addresses and the right EtherType", whyE)
}

// isAllBytes: v is a []byte/HardwareAddr literal of n bytes all equal to b.
func isAllBytes(s *Seg, v ssa.Value, b int64, n int) bool {
	v = s.Resolve(v)
	for {
		if c, ok := v.(*ssa.ChangeType); ok {
			v = c.X
			continue
		}
		break
	}
	sl, ok := v.(*ssa.Slice)
	if !ok {
		return false
	}
	a, ok := sl.X.(*ssa.Alloc)
	if !ok {
		return false
	}
	at, ok := a.Type().(*types.Pointer).Elem().Underlying().(*types.Array)
	if !ok || int(at.Len()) != n {
		return false
	}
	cnt := 0
	for _, ref := range *a.Referrers() {
		if ia, ok := ref.(*ssa.IndexAddr); ok {
			for _, r2 := range *ia.Referrers() {
				if st, ok := r2.(*ssa.Store); ok {
					if k, ok := constInt(st.Val); ok && k == b {
						cnt++
					} else {
						return false
					}
				}
			}
		}
	}
	return cnt == n
}

// optField returns the last value written to field F of the SerializeOptions cell on segment s
// before instruction `at` ("" when never written: zero value).
func optField(s *Seg, cell ssa.Value, F string, at ssa.Instruction, d int) (ssa.Value, bool) {
	if d > 3 {
		return nil, false
	}
	var val ssa.Value
	found := false
	for _, e := range s.Events {
		if e.Kind != EvStore || e.Ord >= s.ord[at] {
			continue
		}
		if fa, ok := e.Addr.(*ssa.FieldAddr); ok && fa.X == cell && fieldName(fa.X.Type(), fa.Field) == F {
			val, found = e.Val, true
		}
		if e.Addr == cell {
			// whole-struct copy from another cell
			if u, ok := e.Val.(*ssa.UnOp); ok && u.Op == token.MUL {
				if v2, f2 := optField(s, u.X, F, e.Instr, d+1); f2 {
					val, found = v2, true
				} else {
					val, found = nil, false
				}
			}
		}
	}
	return val, found
}

func checkSerialisation(p *Prog, r *Report, fill *ssa.Function) {
	proto := protoOf(fill)
	name := FuncName(fill)
	pos := p.Pos(fill.Pos())
	const L = "github.com/google/gopacket/layers."
	fp := Paths(fill)
	okO, whyO := true, ""
	okL, whyL := true, ""
	okC, whyC := true, ""
	n := 0
	for _, s := range fp.Segs {
		ser := s.CallsTo("github.com/google/gopacket.SerializeLayers")
		if len(ser) == 0 {
			continue
		}
		if len(ser) > 1 {
			okL, whyL = false, "two serialisations on one path"
			continue
		}
		n++
		c := ser[0].Instr.(*ssa.Call)
		elems, ok := VariadicElems(c.Call.Args[2])
		if !ok {
			// a layer list assembled in a local slice on this path
			elems, ok = PathElems(s, c.Call.Args[2], 0)
		}
		if !ok {
			okL, whyL = false, "layers are not passed in place"
			continue
		}
		var order []string
		var ipLayer ssa.Value
		for _, e := range elems {
			v := e
			if mi, ok := v.(*ssa.MakeInterface); ok {
				v = mi.X
			}
			ts := types.TypeString(v.Type(), nil)
			ts = strings.TrimPrefix(ts, "*")
			ts = ts[strings.LastIndex(ts, ".")+1:]
			order = append(order, ts)
			if ts == "IPv4" {
				ipLayer = v
			}
			if ts == "Payload" {
				if e := sxSeg(s, v, 0); !strings.HasSuffix(e, "f.payload") {
					okL, whyL = false, "the payload layer is "+e+", expected the filler's payload"
				}
			}
		}
		// VPN mode known on the path?
		vpnKnown, vpn := false, false
		for _, f := range s.Facts {
			if _, fl, isF := fieldLoad(s.Resolve(f.Cond)); isF && fl == "vpnMode" {
				vpnKnown, vpn = true, f.Truth
			}
		}
		var want []string
		switch proto {
		case "tcp":
			want = []string{"IPv4", "TCP"}
		case "udp":
			want = []string{"IPv4", "UDP", "Payload"}
		case "icmp":
			want = []string{"IPv4", "ICMPv4", "Payload"}
		case "arp":
			want = []string{"Ethernet", "ARP"}
		}
		if proto != "arp" {
			if !vpnKnown {
				okL, whyL = false, "framing does not depend on the filler's VPN flag"
			} else if !vpn {
				want = append([]string{"Ethernet"}, want...)
			}
		}
		if strings.Join(order, ",") != strings.Join(want, ",") {
			okL, whyL = false, fmt.Sprintf("layers are serialised as [%s], expected [%s] (vpn=%v)", strings.Join(order, ","), strings.Join(want, ","), vpn)
		}
		if proto == "arp" {
			continue
		}
		// options
		optLoad, ok := s.Resolve(c.Call.Args[1]).(*ssa.UnOp)
		var cc, fl ssa.Value
		var hasCC, hasFL bool
		if ok && optLoad.Op == token.MUL {
			cc, hasCC = optField(s, optLoad.X, "ComputeChecksums", c, 0)
			fl, hasFL = optField(s, optLoad.X, "FixLengths", c, 0)
		} else if a, isA := s.Resolve(c.Call.Args[1]).(*ssa.Alloc); isA {
			cc, hasCC = optField(s, a, "ComputeChecksums", c, 0)
			fl, hasFL = optField(s, a, "FixLengths", c, 0)
		}
		if b, isB := constBool(cc); !hasCC || !isB || !b {
			okO, whyO = false, "ComputeChecksums is not set: frames leave with zero checksums"
		}
		fixed := false
		if b, isB := constBool(fl); hasFL && isB && b {
			fixed = true
		}
		if hasFL && !fixed {
			// FixLengths: ip.Length == 0 / f.length == 0 written as an expression
			if bo, isB := s.Resolve(fl).(*ssa.BinOp); isB && bo.Op == token.EQL {
				if k, isC := constInt(bo.Y); isC && k == 0 {
					if _, fld, isF := fieldLoad(s.Resolve(bo.X)); isF && (fld == "Length" || fld == "length") {
						fixed = true
					}
				}
			}
		}
		if !fixed {
			// allowed only when the header's Length is known non-zero on this path and is the filler's override
			okOverride := false
			for _, f := range s.Facts {
				bo, isB := f.Cond.(*ssa.BinOp)
				if !isB || (bo.Op != token.EQL && bo.Op != token.NEQ) {
					continue
				}
				if k, isC := constInt(bo.Y); isC && k == 0 && (bo.Op == token.EQL) != f.Truth {
					if b, fld, isF := fieldLoad(s.Resolve(bo.X)); isF && fld == "Length" && b == ipLayer {
						okOverride = true
					}
					if _, fld, isF := fieldLoad(s.Resolve(bo.X)); isF && fld == "length" {
						okOverride = true
					}
				}
			}
			if !okOverride {
				okO, whyO = false, "FixLengths is off although no length override is known on this path: IP/UDP length fields stay zero"
			}
		}
		// checksum pseudo header
		if proto == "tcp" || proto == "udp" {
			sn := s.CallsWhere(func(cm *ssa.CallCommon) bool {
				f := StaticCallee(cm)
				return f != nil && f.Name() == "SetNetworkLayerForChecksum"
			})
			if len(sn) != 1 {
				okC, whyC = false, "SetNetworkLayerForChecksum is not called exactly once before serialisation"
			} else {
				arg := sn[0].Call.Args[1]
				if mi, ok := arg.(*ssa.MakeInterface); ok {
					arg = mi.X
				}
				if arg != ipLayer {
					okC, whyC = false, "the checksum pseudo-header is built from a different IPv4 layer than the one serialised"
				}
				if known, isNil := s.NilFact(sn[0].Val); !known || !isNil {
					okC, whyC = false, "the result of SetNetworkLayerForChecksum is not tested"
				}
				if sn[0].Ord > ser[0].Ord {
					okC, whyC = false, "pseudo-header set after serialisation"
				}
			}
		}
	}
	r.Check(okL && n > 0, "C05.R4", name+"/layers", pos, "layers are serialised as [Ethernet,] IPv4, transport[, payload]; Ethernet exactly when the filler is not in VPN mode", whyL)
	r.Check(okO && n > 0, "C05.R4", name+"/options", pos, "ComputeChecksums is on; FixLengths is on unless a non-zero length override is set", whyO)
	r.Check(okC && n > 0, "C05.R4", name+"/checksum-layer", pos, "the transport checksum is computed over the IPv4 layer that is serialised", whyC)
}

// ---- R5 ----

func checkSpoofRanges(p *Prog, r *Report, fill *ssa.Function) {
	name := FuncName(fill)
	k := 0
	for _, b := range fill.Blocks {
		for _, in := range b.Instrs {
			c, ok := in.(*ssa.Call)
			if !ok {
				continue
			}
			switch calleeFull(&c.Call) {
			case "math/rand.Intn", "math/rand.Int31n", "math/rand.Int63n": // all return a value in [0, n)
			default:
				continue
			}
			k++
			key := fmt.Sprintf("%s/intn#%d", name, k)
			n, okN := constInt(c.Call.Args[0])
			if !okN || n <= 0 {
				r.Undecided("C05.R5", key, p.Pos(c.Pos()), "the random bound is a positive constant", "non-constant bound")
				continue
			}
			lo, hi := int64(0), n-1
			// follow c + Intn and the conversion to the stored field
			var cur ssa.Value = c
			dest := ""
			for d := 0; d < 6; d++ {
				var next ssa.Value
				for _, ref := range *cur.Referrers() {
					switch t := ref.(type) {
					case *ssa.BinOp:
						if t.Op == token.ADD {
							other := t.X
							if other == cur {
								other = t.Y
							}
							if cv, ok := constInt(other); ok {
								lo, hi = lo+cv, hi+cv
								next = t
							}
						}
					case *ssa.Convert:
						next = t
					case *ssa.ChangeType:
						next = t
					case *ssa.Store:
						if fa, ok := t.Addr.(*ssa.FieldAddr); ok {
							dest = fieldName(fa.X.Type(), fa.Field)
						}
					}
				}
				if next == nil {
					break
				}
				cur = next
			}
			var wlo, whi int64
			switch dest {
			case "Id":
				wlo, whi = 1, 65535
			case "SrcPort":
				wlo, whi = 32768, 60999
			default:
				r.Undecided("C05.R5", key, p.Pos(c.Pos()), "the random value feeds an IP/ICMP id or a source port", "feeds "+dest)
				continue
			}
			r.Check(lo >= wlo && hi <= whi, "C05.R5", key, p.Pos(c.Pos()), fmt.Sprintf("spoofed %s stays within [%d,%d]", dest, wlo, whi), fmt.Sprintf("value range is [%d,%d]", lo, hi))
		}
	}
}

// ---- R2 ----

func checkFillerOptions(p *Prog, r *Report) {
	n := 0
	for _, fn := range p.SrcFuncs() {
		if fn.Parent() != nil || fn.Signature.Recv() != nil || fn.Signature.Results().Len() != 1 {
			continue
		}
		if !strings.HasSuffix(types.TypeString(fn.Signature.Results().At(0).Type(), nil), ".PacketFillerOption") {
			continue
		}
		s := SummOption(fn)
		if s == nil {
			continue
		}
		if fn.Signature.Params().Len() == 0 {
			continue // flag options: table rule
		}
		n++
		name := FuncName(fn)
		pn := fn.Params[0].Name()
		ok := len(s.Writes) == 1 && strings.EqualFold(s.Writes[0].Field, pn) && s.Writes[0].Param == 0
		detail := ""
		if !ok {
			var ws []string
			for _, w := range s.Writes {
				ws = append(ws, fmt.Sprintf("%s<-param#%d", w.Field, w.Param))
			}
			detail = fmt.Sprintf("parameter %s; writes %v", pn, ws)
		}
		r.Check(ok, "C05.R2", name, p.Pos(fn.Pos()), "the option writes exactly the filler field its parameter names, from that parameter", detail)
	}
	r.Count("filler_options", n)
}

// ---- R3 ----

// flagOfOptionArg returns the CLI flag name that feeds the options field loaded by v, either
// directly or through a parser call whose input is a field bound to a flag.
func flagOfOptionArg(p *Prog, v ssa.Value) string {
	fv := fieldVarOfLoad(v)
	if fv == nil {
		return ""
	}
	if regs := p.FlagsOfField(fv); len(regs) == 1 {
		return regs[0].Name
	}
	// written from a parser result
	for _, val := range p.StoresToField(fv) {
		ex, ok := val.(*ssa.Extract)
		if !ok || ex.Index != 0 {
			continue
		}
		c, ok := ex.Tuple.(*ssa.Call)
		if !ok || len(c.Call.Args) == 0 {
			continue
		}
		if f := StaticCallee(&c.Call); f == nil || !IsRepoPkg(f.Pkg.Pkg) {
			continue
		}
		if raw := fieldVarOfLoad(c.Call.Args[0]); raw != nil {
			if regs := p.FlagsOfField(raw); len(regs) == 1 {
				return regs[0].Name + " via " + StaticCallee(&c.Call).Name()
			}
		}
		// the parser call sits in a shared helper and parses the helper's parameter: every call site of the
		// helper must pass an options field bound to one and the same flag name
		if prm, isP := c.Call.Args[0].(*ssa.Parameter); isP {
			name, okAll := "", true
			args := p.ArgsBoundTo(prm)
			for _, a := range args {
				raw := fieldVarOfLoad(a)
				if raw == nil {
					okAll = false
					break
				}
				regs := p.FlagsOfField(raw)
				if len(regs) != 1 || (name != "" && regs[0].Name != name) {
					okAll = false
					break
				}
				name = regs[0].Name
			}
			if okAll && name != "" && len(args) > 0 {
				return name + " via " + StaticCallee(&c.Call).Name()
			}
		}
	}
	return ""
}

func checkCLIChain(p *Prog, r *Report) {
	oracle := map[string]string{"ttl": "ttl", "proto": "ipproto", "flags": "ipflags via parseIPFlags", "length": "iplen", "typ": "type", "code": "code", "payload": "payload via parsePacketPayload"}
	n := 0
	for _, fn := range p.SrcFuncs() {
		if fn.Pkg != p.SPkg("command") || fn.Parent() != nil || fn.Signature.Results().Len() != 1 {
			continue
		}
		rt := types.TypeString(fn.Signature.Results().At(0).Type(), nil)
		if !strings.HasSuffix(rt, ".PacketFillerOption") || !strings.HasPrefix(rt, "[]") {
			continue
		}
		// every value option of the filler package is used by the builder (a flag whose option is
		// never passed is silently ignored)
		called := map[*ssa.Function]bool{}
		var optPkg *ssa.Package
		for _, b := range fn.Blocks {
			for _, in := range b.Instrs {
				if c, ok := in.(*ssa.Call); ok {
					if cal := StaticCallee(&c.Call); cal != nil && SummOption(cal) != nil {
						called[cal] = true
						optPkg = cal.Pkg
					}
				}
			}
		}
		if optPkg != nil {
			var names []string
			for nm := range optPkg.Members {
				names = append(names, nm)
			}
			sort.Strings(names)
			for _, nm := range names {
				of, isF := optPkg.Members[nm].(*ssa.Function)
				if !isF || of.Signature.Params().Len() != 1 || !strings.HasSuffix(types.TypeString(fn.Signature.Results().At(0).Type(), nil), types.TypeString(of.Signature.Results().At(0).Type(), nil)) {
					continue
				}
				sm := SummOption(of)
				if sm == nil || len(sm.Writes) != 1 {
					continue
				}
				r.Check(called[of], "C05.R3", FuncName(fn)+"/uses/"+of.Name(), p.Pos(fn.Pos()), "the options builder passes every value option of its filler package (the matching CLI flag is not ignored)", of.Name()+" is never passed")
			}
		}
		// every option constructor call in the function
		for _, b := range fn.Blocks {
			for _, in := range b.Instrs {
				c, ok := in.(*ssa.Call)
				if !ok {
					continue
				}
				s := SummOption(StaticCallee(&c.Call))
				if s == nil || len(s.Writes) != 1 || len(c.Call.Args) != 1 {
					continue
				}
				field := s.Writes[0].Field
				if field == "vpnMode" {
					continue
				}
				n++
				key := FuncName(fn) + "/" + field
				want, known := oracle[field]
				got := flagOfOptionArg(p, c.Call.Args[0])
				if !known {
					r.Undecided("C05.R3", key, p.Pos(c.Pos()), "the filler field has a documented CLI flag", "no oracle entry for "+field)
					continue
				}
				r.Check(got == want, "C05.R3", key, p.Pos(c.Pos()), fmt.Sprintf("filler field %s is fed by --%s", field, want), fmt.Sprintf("fed by %q", got))
				checkLinkAlways(p, r, "C05.R3", fn, c, field)
			}
		}
	}
	r.Count("cli_option_links", n)
	// payload option only when a payload was given (else the default stays)
	// TCP flags: lookup key is the element of the parsed flag list, which comes from --flags
	for _, fn := range p.SrcFuncs() {
		if fn.Pkg != p.SPkg("command") || !isRunE(fn) {
			continue
		}
		for _, b := range fn.Blocks {
			for _, in := range b.Instrs {
				lk, ok := in.(*ssa.Lookup)
				if !ok || lk.CommaOk {
					continue
				}
				g := globalOfLoad(lk.X)
				tg, _, _ := tcpFlagTable(p)
				if g == nil || g != tg {
					continue
				}
				// key: element of a slice field
				good, detail := false, ""
				if u, ok := lk.Index.(*ssa.UnOp); ok && u.Op == token.MUL {
					if ia, ok := u.X.(*ssa.IndexAddr); ok {
						got := flagOfOptionArg(p, ia.X)
						detail = got
						good = got == "flags via parseTCPFlags"
					}
				}
				// the looked-up option is appended to the options given to the method
				appended := false
				for _, ref := range *lk.Referrers() {
					if st, ok := ref.(*ssa.Store); ok {
						_ = st
						appended = true
					}
				}
				r.Check(good && appended, "C05.R3", FuncName(fn)+"/flag-options", p.Pos(lk.Pos()), "the probe's TCP flags are the options looked up for each name parsed from --flags", "key comes from "+detail)
			}
		}
	}
}

// checkFixedFlagSets: fin / null / xmas / syn scans send their documented flag sets.
func checkFixedFlagSets(p *Prog, r *Report) {
	oracle := map[string][]string{"tcpfin": {"FIN"}, "tcpnull": {}, "tcpxmas": {"FIN", "PSH", "URG"}, "tcpsyn": {"SYN"}}
	// the TCP method builder: variadic tcpScanConfigOption
	for _, fn := range p.SrcFuncs() {
		if fn.Pkg != p.SPkg("command") {
			continue
		}
		for _, b := range fn.Blocks {
			for _, in := range b.Instrs {
				c, ok := in.(*ssa.Call)
				if !ok {
					continue
				}
				callee := StaticCallee(&c.Call)
				if callee == nil || callee.Pkg != p.SPkg("command") || !callee.Signature.Variadic() || callee.Signature.Results().Len() != 1 ||
					!strings.HasSuffix(types.TypeString(callee.Signature.Results().At(0).Type(), nil), "tcp.ScanMethod") {
					continue
				}
				elems, ok := VariadicElems(c.Call.Args[len(c.Call.Args)-1])
				if !ok {
					continue
				}
				uses, _ := OptionUses(elems)
				scan := ""
				var fopts ssa.Value
				hasOpts := false
				for _, u := range uses {
					switch u.Field {
					case "scanName":
						if s, ok := constString(u.Arg); ok {
							scan = s
						}
					case "packetFillerOpts":
						fopts, hasOpts = u.Arg, true
					}
				}
				want, known := oracle[scan]
				if !known {
					continue
				}
				key := FuncName(fn) + "/" + scan
				var got []string
				okE := true
				if hasOpts {
					fe, okv := VariadicElems(fopts)
					if !okv {
						okE = false
					}
					fu, unk := OptionUses(fe)
					if len(unk) > 0 {
						okE = false
					}
					for _, u := range fu {
						got = append(got, u.Field)
					}
				}
				sort.Strings(got)
				w := append([]string(nil), want...)
				sort.Strings(w)
				r.Check(okE && strings.Join(got, ",") == strings.Join(w, ","), "C05.R3", key, p.Pos(c.Pos()), fmt.Sprintf("the %s probe carries exactly the flags %v", scan, w), fmt.Sprintf("options set %v", got))
			}
		}
	}
}

// checkVPNWiring: filler, method and configuration take the VPN flag from the options' vpnMode.
func checkVPNWiring(p *Prog, r *Report) {
	n := 0
	for _, fn := range p.SrcFuncs() {
		if fn.Pkg != p.SPkg("command") {
			continue
		}
		for _, b := range fn.Blocks {
			for _, in := range b.Instrs {
				c, ok := in.(*ssa.Call)
				if !ok {
					continue
				}
				callee := StaticCallee(&c.Call)
				if callee == nil {
					continue
				}
				var arg ssa.Value
				what := ""
				if s := SummOption(callee); s != nil && len(s.Writes) == 1 && s.Writes[0].Field == "vpnMode" && len(c.Call.Args) == 1 {
					arg, what = c.Call.Args[0], callee.Name()
				} else if callee.Pkg != nil && (callee.Pkg == p.SPkg("pkg/scan/icmp") || callee.Pkg == p.SPkg("pkg/scan/udp")) && callee.Name() == "NewScanMethod" {
					arg, what = c.Call.Args[len(c.Call.Args)-1], lastElem(callee.Pkg.Pkg.Path())+".NewScanMethod"
				}
				if arg == nil {
					continue
				}
				n++
				_, f, isF := fieldLoad(arg)
				fv := fieldVarOfLoad(arg)
				r.Check(isF && f == "vpnMode" && fv != nil && fv.Pkg().Path() == modPath+"/command", "C05.R4", fmt.Sprintf("%s/%s", FuncName(fn), what), p.Pos(c.Pos()),
					"the VPN (raw IP) framing flag given to filler, method and socket is the options' vpnMode", "argument is "+(*Seg)(nil).term(arg, 0))
			}
		}
	}
	r.Count("vpn_flag_uses", n)
	// the options' vpnMode is written only as `SrcMAC == nil => true`
	for _, fn := range p.SrcFuncs() {
		if fn.Pkg != p.SPkg("command") {
			continue
		}
		if fn.Parent() != nil && SummOption(fn.Parent()) != nil {
			continue
		}
		seen, okAll, detail := false, true, ""
		var pos string
		for _, s := range PathsInl(fn).Segs {
			for _, e := range s.Events {
				if e.Kind != EvStore || e.Instr.Parent() != fn {
					continue
				}
				fa, ok := e.Addr.(*ssa.FieldAddr)
				if !ok || fieldName(fa.X.Type(), fa.Field) != "vpnMode" {
					continue
				}
				seen = true
				pos = p.Pos(e.Instr.Pos())
				b, isB := constBool(e.Val)
				macNil := false
				for _, f := range s.Facts {
					bo, ok := f.Cond.(*ssa.BinOp)
					if !ok {
						continue
					}
					if _, fld, isF := fieldLoad(s.Resolve(bo.X)); isF && fld == "SrcMAC" && isNilConst(bo.Y) {
						macNil = (bo.Op == token.EQL) == f.Truth
					}
				}
				if !(isB && b && macNil) {
					okAll, detail = false, fmt.Sprintf("stores %v under SrcMAC==nil=%v", s.Term(e.Val), macNil)
				}
			}
		}
		if seen {
			r.Check(okAll, "C05.R4", FuncName(fn)+"/sets-vpnMode", pos, "VPN framing is selected exactly when the scan range has no source MAC", detail)
		}
	}
}

// checkLinkAlways: an option built from a CLI value is handed to the filler on every path, or is
// skipped only for a value that changes nothing: the value the flag has when it is not given, or
// the value the filler constructor installs itself.
func checkLinkAlways(p *Prog, r *Report, rule string, fn *ssa.Function, c *ssa.Call, field string) {
	key := FuncName(fn) + "/" + field + "/always-applied"
	pos := p.Pos(c.Pos())
	fv := fieldVarOfLoad(c.Call.Args[0])
	if fv == nil {
		r.Undecided(rule, key, pos, "the option argument is an options field", "argument is "+c.Call.Args[0].String())
		return
	}
	fp := Paths(fn)
	if fp.Truncated {
		r.Undecided(rule, key, pos, "the option list builder has few paths", "too many paths")
		return
	}
	ok, why := true, ""
	for _, s := range fp.Segs {
		if !s.Returns() || s.Has(c) {
			continue
		}
		// what does this path know about the field?
		skipped := "" // "zero" / "empty"
		for _, f := range s.Facts {
			b, isB := f.Cond.(*ssa.BinOp)
			if !isB {
				continue
			}
			x, y := b.X, b.Y
			op := b.Op
			if _, isC := x.(*ssa.Const); isC {
				x, y = y, x
				op = flipOp(op)
			}
			k, isK := constInt(y)
			if !isK {
				continue
			}
			isLen := false
			if lc, isCall := x.(*ssa.Call); isCall {
				if bi, isBi := lc.Call.Value.(*ssa.Builtin); isBi && bi.Name() == "len" {
					x, isLen = lc.Call.Args[0], true
				}
			}
			if fieldVarOfLoad(s.Resolve(x)) != fv && fieldVarOfLoad(x) != fv {
				continue
			}
			zero := false
			switch {
			case op == token.EQL && k == 0 && f.Truth, op == token.NEQ && k == 0 && !f.Truth,
				op == token.GTR && k == 0 && !f.Truth && isLen, op == token.LSS && k == 1 && f.Truth && isLen,
				op == token.LEQ && k == 0 && f.Truth && isLen, op == token.GEQ && k == 1 && !f.Truth && isLen:
				zero = true
			}
			if zero {
				skipped = "zero"
				if isLen {
					skipped = "empty"
				}
			}
		}
		if skipped == "" {
			ok, why = false, "a path leaves the option out under a condition that does not pin the value to zero/empty"
			continue
		}
		// (a) the flag's own default is that value
		legit := false
		regs := p.FlagsOfField(fv)
		if len(regs) == 0 {
			// parsed field: the raw flag behind it
			for _, val := range p.StoresToField(fv) {
				if ex, isEx := val.(*ssa.Extract); isEx && ex.Index == 0 {
					if pc, isPC := ex.Tuple.(*ssa.Call); isPC && len(pc.Call.Args) > 0 {
						if raw := fieldVarOfLoad(pc.Call.Args[0]); raw != nil {
							regs = append(regs, p.FlagsOfField(raw)...)
						}
						// parsed inside a shared helper from the helper's parameter: the fields bound at its call sites
						if prm, isP := pc.Call.Args[0].(*ssa.Parameter); isP {
							for _, a := range p.ArgsBoundTo(prm) {
								if raw := fieldVarOfLoad(a); raw != nil {
									regs = append(regs, p.FlagsOfField(raw)...)
								}
							}
						}
					}
				}
			}
		}
		for _, rg := range regs {
			if rg.Default == nil {
				continue
			}
			switch rg.Default.Kind() {
			case constant.String:
				legit = legit || constant.StringVal(rg.Default) == ""
			case constant.Int:
				v, _ := constant.Int64Val(rg.Default)
				legit = legit || v == 0
			}
		}
		// (b) the constructor installs the same value
		if !legit {
			if ctor := fillerCtorOf(p, StaticCallee(&c.Call)); ctor != nil {
				if dv, has := ctorDefault(ctor, field); !has {
					legit = true // zero value
				} else if k, isK := constInt(dv); isK && k == 0 {
					legit = true
				}
			}
		}
		if !legit {
			ok, why = false, fmt.Sprintf("the option is left out when the value is %s, but neither the flag's default nor the filler's own default is %s: an explicitly requested %s value is replaced by the filler default", skipped, skipped, skipped)
		}
	}
	r.Check(ok, rule, key, pos, "the CLI value reaches the filler on every path (or is left out only for the flag's not-given value / the filler's own default)", why)
}

func flipOp(op token.Token) token.Token {
	switch op {
	case token.LSS:
		return token.GTR
	case token.GTR:
		return token.LSS
	case token.LEQ:
		return token.GEQ
	case token.GEQ:
		return token.LEQ
	}
	return op
}

// fillerCtorOf: the variadic constructor of the filler the option belongs to (same package).
func fillerCtorOf(p *Prog, opt *ssa.Function) *ssa.Function {
	if opt == nil || opt.Pkg == nil {
		return nil
	}
	for _, m := range opt.Pkg.Members {
		if f, ok := m.(*ssa.Function); ok && f.Signature.Variadic() && f.Signature.Results().Len() == 1 &&
			strings.HasSuffix(types.TypeString(f.Signature.Results().At(0).Type(), nil), ".PacketFiller") {
			return f
		}
	}
	return nil
}

// ctorDefault: the value the constructor stores into the filler field before the options run.
func ctorDefault(ctor *ssa.Function, field string) (ssa.Value, bool) {
	var v ssa.Value
	for _, b := range ctor.Blocks {
		for _, in := range b.Instrs {
			if st, ok := in.(*ssa.Store); ok {
				if fa, isFA := st.Addr.(*ssa.FieldAddr); isFA && fieldName(fa.X.Type(), fa.Field) == field {
					v = st.Val
				}
			}
		}
	}
	return v, v != nil
}

// isTypeCodeWord: v is the 16-bit word typ<<8 | code built from the filler's type and code fields (what
// layers.CreateICMPv4TypeCode computes), the shift carried out in at least 16 bits.
func isTypeCodeWord(s *Seg, v ssa.Value) bool {
	or, ok := stripConvAll(s.Resolve(v)).(*ssa.BinOp)
	if !ok || (or.Op != token.OR && or.Op != token.ADD) {
		return false
	}
	isField := func(x ssa.Value, name string) bool {
		_, f, isF := fieldLoad(stripConvAll(s.Resolve(x)))
		return isF && f == name
	}
	check := func(hi, lo ssa.Value) bool {
		sh, isSh := stripConvAll(s.Resolve(hi)).(*ssa.BinOp)
		if !isSh || sh.Op != token.SHL {
			return false
		}
		if k, isK := constInt(sh.Y); !isK || k != 8 {
			return false
		}
		if b, _, okB := typeBits(sh.Type()); !okB || b < 16 {
			return false
		}
		return isField(sh.X, "typ") && isField(lo, "code")
	}
	return check(or.X, or.Y) || check(or.Y, or.X)
}
