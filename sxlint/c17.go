package main

import (
	"fmt"
	"go/token"
	"go/types"
	"sort"
	"strings"

	"golang.org/x/tools/go/ssa"
)

func init() {
	register(&propDef{
		ID: "C17",
		Explanation: "Static conformance of interface / source selection: (R1) source typestate — the scan range is built only on paths where the interface is known non-nil and the source address is a To4() result known non-nil; (R2) overrides dominate — on every path where --srcip / --srcmac is set the stored value is that option, and wherever --iface is set the returned interface is that option (discovery results are returned only under iface == nil); " +
			"(R3) precedence — the directly attached lookup is consulted first (only with a target subnet) and wins only when it yields both interface and address, then --iface, then the default route; (R4) framing — VPN mode is selected exactly when the range has no source MAC (C05.R4 clause re-evaluated) and the ARP scan refuses a nil source MAC before any engine starts; " +
			"(R5) the default-route loops keep a candidate exactly when it is a default route (no Dst, no Src) whose priority is strictly below the running minimum initialised to MaxInt32, update minimum and candidate together from that same route, and never keep a pointer to the iteration variable; (R6) the subnet match asks each interface network whether it contains the masked target base and returns that very network's address; the first matching interface is returned by copy.",
		NotDecided:  []string{"which interfaces, addresses and routes exist (kernel state)", "netlink semantics and ordering of addresses"},
		Assumptions: []string{"net.IP.To4 returns nil for non-IPv4 addresses", "netlink.RouteList(nil, FAMILY_V4) lists the IPv4 routes with their priorities"},
		Run:         runC17,
	})
}

func runC17(p *Prog, r *Report) {
	r.Min("C17.R1", 1)
	r.Min("C17.R2", 4)
	r.Min("C17.R3", 1)
	r.Min("C17.R4", 2)
	r.Min("C17.R5", 2)
	r.Min("C17.R6", 2)
	checkRangeTypestate(p, r)
	checkIfaceOverride(p, r)
	checkPrecedence(p, r)
	checkFraming(p, r)
	checkRouteLoops(p, r)
	checkSubnetMatch(p, r)
	r.Min("C17.R7", 11+4)
	checkParseBeforeUse(p, r, "C17.R7")
	checkParsingSequential(p, r, "C17.R7")
	if checkEveryOptionParsed(p, r, "C17.R7", func(f string) bool { return f == "iface" || f == "srcMAC" || f == "gatewayMAC" }) < 3 {
		r.Viol("C17.R7", "interface-options-parsed/sites", "-", "the interface, source-MAC and gateway-MAC derivations are found", "fewer than 3")
	}
	checkFlagFieldsReadOnly(p, r, "C17.R7", func(fr FlagReg) bool {
		return fr.Name == "iface" || fr.Name == "srcip" || fr.Name == "srcmac" || fr.Name == "gwmac"
	})
}

// checkParseBeforeUse: the values parseRawOptions derives from the raw flags (interface, source MAC,
// port ranges, exclusion list, ...) are read only after it ran. In every function that calls a
// parseRawOptions method, no call that (transitively) loads one of the fields it writes comes before it
// on any path - otherwise --iface / --srcmac / ... are silently ignored by that command.
func checkParseBeforeUse(p *Prog, r *Report, rule string) {
	isParse := func(f *ssa.Function) bool {
		return f != nil && f.Pkg == p.SPkg("command") && f.Name() == "parseRawOptions" && f.Signature.Recv() != nil
	}
	loadsCache := map[*ssa.Function]map[*types.Var]bool{}
	loadsOf := func(f *ssa.Function) map[*types.Var]bool {
		if m, ok := loadsCache[f]; ok {
			return m
		}
		m := map[*types.Var]bool{}
		for g := range p.staticReach(f) {
			for _, b := range g.Blocks {
				for _, in := range b.Instrs {
					if u, ok := in.(*ssa.UnOp); ok && u.Op == token.MUL {
						if fa, isFA := u.X.(*ssa.FieldAddr); isFA {
							if fo := fieldObj(fa); fo != nil {
								m[fo] = true
							}
						}
					}
				}
			}
		}
		loadsCache[f] = m
		return m
	}
	// fields derived by any parse step of the package, with the method that derives them
	writtenBy := func(parse *ssa.Function, pkg *types.Package) map[*types.Var]bool {
		W := map[*types.Var]bool{}
		for g := range p.staticReach(parse) {
			for _, b := range g.Blocks {
				for _, in := range b.Instrs {
					if st, ok := in.(*ssa.Store); ok {
						if fa, isFA := st.Addr.(*ssa.FieldAddr); isFA {
							if fo := fieldObj(fa); fo != nil && fo.Pkg() == pkg {
								W[fo] = true
							}
						}
					}
				}
			}
		}
		return W
	}
	WAll := map[*types.Var]*ssa.Function{}
	for _, f := range p.SrcFuncs() {
		if isParse(f) {
			for fo := range writtenBy(f, f.Pkg.Pkg) {
				if prev, dup := WAll[fo]; !dup || len(FuncName(f)) > len(FuncName(prev)) {
					WAll[fo] = f
				}
			}
		}
	}
	n := 0
	for _, fn := range p.SrcFuncs() {
		if fn.Pkg != p.SPkg("command") || isParse(fn) {
			continue
		}
		var parse *ssa.Function
		for _, b := range fn.Blocks {
			for _, in := range b.Instrs {
				if c, ok := in.(*ssa.Call); ok && isParse(StaticCallee(&c.Call)) {
					parse = StaticCallee(&c.Call)
				}
			}
		}
		if parse == nil {
			continue
		}
		n++
		// fields written by the parse step
		W := map[*types.Var]bool{}
		for g := range p.staticReach(parse) {
			for _, b := range g.Blocks {
				for _, in := range b.Instrs {
					if st, ok := in.(*ssa.Store); ok {
						if fa, isFA := st.Addr.(*ssa.FieldAddr); isFA {
							if fo := fieldObj(fa); fo != nil && fo.Pkg() == fn.Pkg.Pkg {
								W[fo] = true
							}
						}
					}
				}
			}
		}
		ok, why := true, ""
		var parses []*ssa.Call
		for _, b := range fn.Blocks {
			for _, in := range b.Instrs {
				if c, isC := in.(*ssa.Call); isC && isParse(StaticCallee(&c.Call)) {
					parses = append(parses, c)
				}
			}
		}
		for _, b := range fn.Blocks {
			for _, in := range b.Instrs {
				c, isC := in.(*ssa.Call)
				if !isC {
					continue
				}
				cal := StaticCallee(&c.Call)
				if cal == nil || cal.Pkg != fn.Pkg || isParse(cal) {
					continue
				}
				after := false
				for _, pc := range parses {
					if startAfter(fn, pc, c) {
						after = true
					}
				}
				if after {
					continue
				}
				for f := range loadsOf(cal) {
					if W[f] {
						ok, why = false, fmt.Sprintf("%s reads the options field %s, but no parseRawOptions call dominates it (the flag behind it is ignored on some path)", cal.Name(), f.Name())
					}
				}
			}
		}
		// the parse step this command calls derives every derived field the command goes on to read: a
		// parseRawOptions that shadows the embedded one without delegating to it leaves those fields unparsed
		for _, b := range fn.Blocks {
			for _, in := range b.Instrs {
				c, isC := in.(*ssa.Call)
				if !isC {
					continue
				}
				cal := StaticCallee(&c.Call)
				if cal == nil || cal.Pkg != fn.Pkg || isParse(cal) {
					continue
				}
				for f := range loadsOf(cal) {
					if by, derived := WAll[f]; derived && !W[f] {
						ok, why = false, fmt.Sprintf("%s reads the options field %s, which only %s derives from its flag; the parse step called here (%s) never reaches it (the flag is ignored)", cal.Name(), f.Name(), FuncName(by), FuncName(parse))
					}
				}
			}
		}
		r.Check(ok, rule, FuncName(fn)+"/parse-before-use", p.Pos(fn.Pos()), "nothing that reads a field derived by parseRawOptions is called before parseRawOptions on any path", why)
	}
	if n < 11 {
		r.Viol(rule, "parse-before-use/sites", "-", "every command calls parseRawOptions", fmt.Sprintf("found %d callers", n))
	}
}

func rangeBuilder(p *Prog) *ssa.Function {
	for _, fn := range p.SrcFuncs() {
		if fn.Pkg != p.SPkg("command") || fn.Parent() != nil || fn.Signature.Results().Len() != 2 {
			continue
		}
		if types.TypeString(fn.Signature.Results().At(0).Type(), nil) != "*"+modPath+"/pkg/scan.Range" {
			continue
		}
		// the one that sets Interface
		for _, a := range allocsOfType(fn, "pkg/scan.Range") {
			for _, ref := range *a.Referrers() {
				if fa, ok := ref.(*ssa.FieldAddr); ok && fieldName(fa.X.Type(), fa.Field) == "Interface" {
					return fn
				}
			}
		}
	}
	return nil
}

func checkRangeTypestate(p *Prog, r *Report) {
	fn := rangeBuilder(p)
	if fn == nil {
		r.Undecided("C17.R1", "range builder", "-", "a function in package command builds a scan.Range with its Interface", "not found")
		return
	}
	name := FuncName(fn)
	pos := p.Pos(fn.Pos())
	ok, why := true, ""
	okO, whyO := true, ""
	n := 0
	seenIPOpt, seenMACOpt := false, false
	for _, s := range Paths(fn).Segs {
		if !s.Returns() || retClass(s) == retFail {
			continue
		}
		a, isA := s.Resolve(s.Exit.(*ssa.Return).Results[0]).(*ssa.Alloc)
		if !isA {
			if isNilConst(s.Resolve(s.Exit.(*ssa.Return).Results[0])) {
				ok, why = false, "an accepting path returns no range"
			}
			continue
		}
		n++
		lf := litFields(s, a)
		// interface non-nil
		if k, isNil := s.NilFact(lf["Interface"]); !k || isNil {
			ok, why = false, "the range is built with an interface that is not known to be non-nil"
		}
		// source address: To4 result, known non-nil
		src := s.Resolve(lf["SrcIP"])
		c, isC := src.(*ssa.Call)
		if !isC || calleeFull(&c.Call) != "(net.IP).To4" {
			ok, why = false, "SrcIP is "+sxSeg(s, lf["SrcIP"], 0)+", expected a To4() normalised address"
		} else if k, isNil := s.NilFact(c); !k || isNil {
			ok, why = false, "To4() result stored without a nil test: an IPv6-first interface yields probes with an empty source"
		} else {
			// override: when the option is set the To4 argument is the option
			k2, nil2 := fieldNilFact(s, fn.Params[0], "srcIP")
			arg := sxSeg(s, c.Call.Args[0], 0)
			if !k2 {
				okO, whyO = false, "the source address is chosen without consulting --srcip"
			} else if !nil2 {
				seenIPOpt = true
				if !strings.HasSuffix(arg, "o.srcIP") {
					okO, whyO = false, "--srcip is set but the source address is "+arg
				}
			} else if !strings.Contains(arg, "getInterface(") && !strings.Contains(arg, "#1") {
				okO, whyO = false, "without --srcip the source address is "+arg+", expected the selected interface's address"
			}
		}
		k3, nil3 := fieldNilFact(s, fn.Params[0], "srcMAC")
		mac := sxSeg(s, lf["SrcMAC"], 0)
		if !k3 {
			okO, whyO = false, "the source MAC is chosen without consulting --srcmac"
		} else if !nil3 {
			seenMACOpt = true
			if !strings.HasSuffix(mac, "o.srcMAC") {
				okO, whyO = false, "--srcmac is set but the source MAC is "+mac
			}
		} else if !strings.HasSuffix(mac, ".HardwareAddr") {
			okO, whyO = false, "without --srcmac the source MAC is "+mac+", expected the interface's hardware address"
		}
		// the interface stored is the one selected
		if e := sxSeg(s, lf["Interface"], 0); !strings.Contains(e, "getInterface(") {
			ok, why = false, "Interface is "+e
		}
		if e := sxSeg(s, lf["DstSubnet"], 0); e != fn.Params[1].Name() {
			ok, why = false, "DstSubnet is "+e
		}
	}
	r.Check(ok && n > 0, "C17.R1", name, pos, "a scan range is built only with a non-nil interface and a non-nil IPv4 (To4) source address", why)
	r.Check(okO && seenIPOpt && seenMACOpt, "C17.R2", name+"/overrides", pos, "--srcip and --srcmac replace the automatic choice whenever they are set", whyO)
}

// ifaceFuncs: methods of package command returning (*net.Interface, net.IP, error).
func ifaceFuncs(p *Prog, pkg *ssa.Package) []*ssa.Function {
	var out []*ssa.Function
	for _, fn := range p.SrcFuncs() {
		if fn.Pkg != pkg || fn.Parent() != nil || fn.Signature.Results().Len() != 3 {
			continue
		}
		if types.TypeString(fn.Signature.Results().At(0).Type(), nil) == "*net.Interface" && types.TypeString(fn.Signature.Results().At(1).Type(), nil) == "net.IP" {
			out = append(out, fn)
		}
	}
	return out
}

func checkIfaceOverride(p *Prog, r *Report) {
	fns := ifaceFuncs(p, p.SPkg("command"))
	for _, fn := range fns {
		name := FuncName(fn)
		pos := p.Pos(fn.Pos())
		ok, why := true, ""
		n := 0
		for _, s := range Paths(fn).Segs {
			if !s.Returns() {
				continue
			}
			n++
			rv := s.Resolve(s.Exit.(*ssa.Return).Results[0])
			known, isNil := fieldNilFact(s, fn.Params[0], "iface")
			e := sxSeg(s, rv, 0)
			fromDiscovery := strings.Contains(e, "pkg/ip.Get") && strings.HasSuffix(e, "#0")
			fromDelegate := false
			if ex, isEx := rv.(*ssa.Extract); isEx {
				if c, isC := ex.Tuple.(*ssa.Call); isC {
					if g := StaticCallee(&c.Call); g != nil && g.Pkg == fn.Pkg {
						fromDelegate = true
					}
				}
			}
			switch {
			case known && !isNil:
				if !strings.HasSuffix(e, "o.iface") {
					ok, why = false, "--iface is set but the interface returned is "+e
				}
			case fromDiscovery:
				if !known || !isNil {
					ok, why = false, "an automatically discovered interface is returned on a path where --iface may be set (the option is silently ignored)"
				}
			case fromDelegate, isNilConst(rv):
			default:
				if !strings.HasSuffix(e, "o.iface") {
					ok, why = false, "returned interface is "+e
				}
			}
		}
		r.Check(ok && n > 0, "C17.R2", name+"/iface-override", pos, "--iface always wins: discovered interfaces are returned only when the option is unset", why)
	}
	if len(fns) < 2 {
		r.Viol("C17.R2", "interface selection", "-", "the interface selection functions are found", fmt.Sprint(len(fns)))
	}
	// --iface feeds o.iface through net.InterfaceByName
	okF := false
	for _, fn := range p.SrcFuncs() {
		if fn.Pkg != p.SPkg("command") {
			continue
		}
		for _, b := range fn.Blocks {
			for _, in := range b.Instrs {
				st, ok := in.(*ssa.Store)
				if !ok {
					continue
				}
				fa, ok := st.Addr.(*ssa.FieldAddr)
				if !ok || fieldName(fa.X.Type(), fa.Field) != "iface" {
					continue
				}
				if ex, ok := st.Val.(*ssa.Extract); ok && ex.Index == 0 {
					if c, ok := ex.Tuple.(*ssa.Call); ok && calleeFull(&c.Call) == "net.InterfaceByName" {
						if regs := p.FlagsOfField(fieldVarOfLoad(c.Call.Args[0])); len(regs) == 1 && regs[0].Name == "iface" {
							okF = true
						}
					}
				}
			}
		}
	}
	r.Check(okF, "C17.R2", "command/--iface", "-", "the interface option is net.InterfaceByName of the --iface flag", "not found")
}

func checkPrecedence(p *Prog, r *Report) {
	// the selection function that falls back to the default route
	var sel *ssa.Function
	for _, fn := range ifaceFuncs(p, p.SPkg("command")) {
		for _, b := range fn.Blocks {
			for _, in := range b.Instrs {
				if c, ok := in.(*ssa.Call); ok {
					if g := StaticCallee(&c.Call); g != nil && g.Pkg == p.SPkg("pkg/ip") && g.Signature.Params().Len() == 0 && g.Signature.Results().Len() == 3 {
						sel = fn
					}
				}
			}
		}
	}
	if sel == nil {
		r.Undecided("C17.R3", "interface selection", "-", "a selection function falls back to the default-route interface", "not found")
		return
	}
	name := FuncName(sel)
	pos := p.Pos(sel.Pos())
	ok, why := true, ""
	sawLocalHit, sawIface, sawDefault := false, false, false
	for _, s := range Paths(sel).Segs {
		if !s.Returns() {
			continue
		}
		var local *Event
		var order []string
		for _, e := range s.Events {
			if e.Kind != EvCall {
				continue
			}
			g := StaticCallee(e.Call)
			if g == nil {
				continue
			}
			switch {
			case g.Pkg == sel.Pkg && g.Signature.Results().Len() == 3 && g != sel:
				local = e
				order = append(order, "local")
			case g.Pkg == p.SPkg("pkg/ip") && g.Signature.Params().Len() == 0:
				order = append(order, "default")
			case g.Pkg == p.SPkg("pkg/ip"):
				order = append(order, "iface")
			}
		}
		subnetKnown, subnetNil := s.NilFact(sel.Params[1])
		if local != nil && (!subnetKnown || subnetNil) {
			ok, why = false, "the attached-subnet lookup runs without a target subnet"
		}
		if local == nil && subnetKnown && !subnetNil {
			ok, why = false, "with a target subnet the directly attached interface is not looked up first"
		}
		if len(order) > 0 && local != nil && order[0] != "local" {
			ok, why = false, "lookup order is "+strings.Join(order, ",")
		}
		rv := s.Resolve(s.Exit.(*ssa.Return).Results[0])
		ex, isEx := rv.(*ssa.Extract)
		if local != nil && isEx && ex.Tuple == local.Val {
			// returned the local lookup's answer: either its error, or both values non-nil
			errEx := extractOf(local.Instr.(*ssa.Call), 2)
			if k, isNil := s.NilFact(errEx); k && !isNil {
				continue
			}
			k1, n1 := s.NilFact(extractOf(local.Instr.(*ssa.Call), 0))
			k2, n2 := s.NilFact(extractOf(local.Instr.(*ssa.Call), 1))
			if !(k1 && !n1 && k2 && !n2) {
				ok, why = false, "the attached-subnet answer is used although interface or address is missing"
			} else {
				sawLocalHit = true
			}
			if len(order) != 1 {
				ok, why = false, "a complete attached-subnet answer does not return early"
			}
			continue
		}
		known, isNil := fieldNilFact(s, sel.Params[0], "iface")
		if known && !isNil {
			sawIface = true
			if n, has := indexOf(order, "default"); has {
				_ = n
				ok, why = false, "the default route is consulted although --iface is set"
			}
		}
		if known && isNil {
			sawDefault = true
			if len(order) == 0 || order[len(order)-1] != "default" {
				ok, why = false, "without --iface the default-route interface is not used"
			}
		}
	}
	r.Check(ok && sawLocalHit && sawIface && sawDefault, "C17.R3", name, pos, "order: directly attached interface (needs a target subnet, wins only with interface and address) -> --iface -> default route", why)
}

func checkFraming(p *Prog, r *Report) {
	// VPN mode iff SrcMAC == nil: re-evaluate the C05 clause
	sub := NewReport("C17", r.Tier)
	checkVPNWiring(p, sub)
	n := 0
	for _, o := range sub.Obs {
		if strings.HasSuffix(o.Construct, "/sets-vpnMode") {
			o2 := *o
			o2.Rule = "C17.R4"
			r.Obs = append(r.Obs, &o2)
			n++
		}
	}
	if n == 0 {
		r.Viol("C17.R4", "vpn mode", "-", "VPN framing is derived from the missing source MAC", "no store to vpnMode found")
	}
	// ARP refuses a nil source MAC before starting
	E := engineReach(p)
	found := false
	for _, fn := range p.SrcFuncs() {
		if fn.Pkg != p.SPkg("command") || !isRunE(fn) {
			continue
		}
		usesARP := false
		for _, b := range fn.Blocks {
			for _, in := range b.Instrs {
				if c, ok := in.(*ssa.Call); ok {
					if f := funcArgOfAny(&c.Call); f != nil && f.Pkg == p.SPkg("pkg/scan/arp") && f.Signature.Results().Len() == 2 {
						usesARP = true
					}
				}
			}
		}
		if !usesARP {
			continue
		}
		found = true
		ok, why := true, ""
		var badPath []string
		for _, s := range PathsInl(fn).Segs { // the test may sit in a small range-building wrapper of the command
			starts := false
			for _, e := range s.Events {
				if e.Kind == EvCall {
					if g := StaticCallee(e.Call); g != nil && E[g] {
						starts = true
					}
				}
			}
			if !starts {
				continue
			}
			macKnown := false
			for _, f := range s.Facts {
				bo, isB := f.Cond.(*ssa.BinOp)
				if !isB || !isNilConst(bo.Y) {
					continue
				}
				if _, fl, isF := fieldLoad(s.Resolve(bo.X)); isF && fl == "SrcMAC" && (bo.Op == token.EQL) != f.Truth {
					macKnown = true
				}
			}
			if !macKnown {
				ok, why = false, "the ARP engine starts on a path where the source MAC may be nil (frames with an empty sender address)"
				badPath = s.Describe(p)
			}
		}
		r.Check(ok, "C17.R4", FuncName(fn)+"/arp-needs-mac", p.Pos(fn.Pos()), "the ARP scan starts only with a non-nil source MAC", why, badPath...)
	}
	if !found {
		r.Undecided("C17.R4", "arp command", "-", "the ARP command's RunE is found", "not found")
	}
}

// funcArgOfAny returns a function value passed as an argument of the call (option constructors).
func funcArgOfAny(c *ssa.CallCommon) *ssa.Function {
	for _, a := range c.Args {
		if f := funcArg(a); f != nil {
			return f
		}
	}
	return nil
}

func checkRouteLoops(p *Prog, r *Report) {
	n := 0
	for _, fn := range p.SrcFuncs() {
		if fn.Pkg != p.SPkg("pkg/ip") || fn.Parent() != nil {
			continue
		}
		// the route table is read with RouteList(nil, FAMILY_V4), or with what that call is defined as:
		// RouteListFiltered(FAMILY_V4, nil, mask) - no link, no filter, IPv4 (AF_INET = 2) only
		var listCalls []*ssa.Call
		listCalls = append(listCalls, callInstrs(fn, "github.com/vishvananda/netlink.RouteList")...)
		listCalls = append(listCalls, callInstrs(fn, "github.com/vishvananda/netlink.RouteListFiltered")...)
		if len(listCalls) == 0 {
			continue
		}
		n++
		name := FuncName(fn)
		pos := p.Pos(fn.Pos())
		{
			okA, whyA := len(listCalls) == 1, fmt.Sprintf("%d route-list calls", len(listCalls))
			if okA {
				c := listCalls[0]
				var fam, filt ssa.Value
				if strings.HasSuffix(calleeFull(&c.Call), ".RouteList") {
					filt, fam = c.Call.Args[0], c.Call.Args[1]
				} else {
					fam, filt = c.Call.Args[0], c.Call.Args[1]
				}
				k, isK := constInt(fam)
				if !isK || k != 2 {
					okA, whyA = false, "the address family is not FAMILY_V4"
				}
				if !isNilConst(filt) {
					okA, whyA = false, "a link / route filter is passed: routes of other interfaces are not seen"
				}
			}
			r.Check(okA, "C17.R5", name+"/whole-ipv4-table", pos, "the default route is chosen among all IPv4 routes (no link or route filter, family AF_INET)", whyA)
		}
		heads := loopHeadersSorted(fn)
		if len(heads) != 1 {
			r.Undecided("C17.R5", name, pos, "one loop over the routes", fmt.Sprint(len(heads)))
			continue
		}
		H := heads[0]
		// the running minimum: integer phi initialised to MaxInt32
		var minPhi *ssa.Phi
		var phis []*ssa.Phi
		for _, in := range H.Instrs {
			ph, ok := in.(*ssa.Phi)
			if !ok {
				continue
			}
			phis = append(phis, ph)
			for i, pb := range H.Preds {
				if !H.Dominates(pb) {
					if k, ok := constInt(ph.Edges[i]); ok && k == 2147483647 {
						minPhi = ph
					}
				}
			}
		}
		if minPhi == nil {
			r.Viol("C17.R5", name, pos, "the running minimum starts at MaxInt32", "no integer loop variable initialised to math.MaxInt32")
			continue
		}
		ok, why := true, ""
		nUpd := 0
		for _, s := range PathsInl(fn).From(H) {
			if s.End != H {
				continue
			}
			in := s.PhiIn(minPhi)
			updated := in != ssa.Value(minPhi)
			// other carried values change only together with the minimum
			for _, ph := range phis {
				if ph == minPhi {
					continue
				}
				if bt, isB := ph.Type().Underlying().(*types.Basic); isB && bt.Info()&types.IsInteger != 0 {
					continue // range index
				}
				v := s.PhiIn(ph)
				if (v != ssa.Value(ph)) && !updated {
					if isErrorType(ph.Type()) {
						continue
					}
					ok, why = false, "a candidate is replaced although the minimum is unchanged"
				}
				if a, isA := v.(*ssa.Alloc); isA {
					_ = a
					ok, why = false, "a pointer to the iteration variable is kept across iterations (it always designates the last route)"
				}
			}
			if !updated {
				continue
			}
			nUpd++
			// new minimum is this route's priority, under Priority < min, Dst == nil, Src == nil
			_, f, isF := fieldLoad(s.Resolve(in))
			if !isF || f != "Priority" {
				ok, why = false, "the minimum is updated to "+sxSeg(s, in, 0)
			}
			lt, dst, src := false, false, false
			for _, fc := range s.Facts {
				bo, isB := s.Resolve(fc.Cond).(*ssa.BinOp) // a helper's boolean result resolves to the comparison it returned
				if !isB {
					continue
				}
				_, fx, okx := fieldLoad(s.Resolve(bo.X))
				if !okx {
					continue
				}
				switch {
				case fx == "Priority" && bo.Op == token.LSS && s.Resolve(bo.Y) == ssa.Value(minPhi) && fc.Truth:
					lt = true
				case fx == "Priority" && bo.Op == token.GEQ && s.Resolve(bo.Y) == ssa.Value(minPhi) && !fc.Truth:
					lt = true
				case fx == "Dst" && isNilConst(bo.Y) && (bo.Op == token.EQL) == fc.Truth:
					dst = true
				case fx == "Src" && isNilConst(bo.Y) && (bo.Op == token.EQL) == fc.Truth:
					src = true
				}
			}
			if !lt {
				ok, why = false, "a candidate is kept without being strictly below the running minimum (a higher-metric default route can win)"
			}
			if !dst || !src {
				ok, why = false, "a non-default route (with Dst or Src) can be chosen"
			}
			// the kept candidate derives from this route
			for _, ph := range phis {
				if ph == minPhi || isErrorType(ph.Type()) {
					continue
				}
				if bt, isB := ph.Type().Underlying().(*types.Basic); isB && bt.Info()&types.IsInteger != 0 {
					continue
				}
				v := s.PhiIn(ph)
				if v == ssa.Value(ph) {
					ok, why = false, "the minimum is lowered but the candidate "+ph.Comment+" is not replaced"
					continue
				}
				e := sxSeg(s, v, 0) + " | " + sx(v, 0) // as resolved on the path, and as written (through helper calls)
				if !strings.Contains(e, "route.") && !strings.Contains(e, ".LinkIndex") && !strings.Contains(e, ".Gw") && !strings.Contains(e, "InterfaceByIndex") {
					ok, why = false, "candidate "+ph.Comment+" is "+e+", not derived from the route that lowered the minimum"
				}
			}
		}
		r.Check(ok && nUpd > 0, "C17.R5", name, pos, "a route replaces the candidate exactly when it is a default route with priority strictly below the running minimum (initially MaxInt32); minimum and candidate change together", why)
	}
	if n < 2 {
		r.Viol("C17.R5", "route loops", "-", "both default-route functions are found", fmt.Sprint(n))
	}
}

func checkSubnetMatch(p *Prog, r *Report) {
	var match *ssa.Function
	for _, fn := range p.SrcFuncs() {
		if fn.Pkg != p.SPkg("pkg/ip") || fn.Parent() != nil {
			continue
		}
		for _, b := range fn.Blocks {
			for _, in := range b.Instrs {
				if c, ok := in.(*ssa.Call); ok && calleeFull(&c.Call) == "(*net.IPNet).Contains" {
					match = fn
				}
			}
		}
	}
	if match == nil {
		r.Undecided("C17.R6", "subnet match", "-", "a pkg/ip function asks interface networks whether they contain the target", "not found")
		return
	}
	name := FuncName(match)
	pos := p.Pos(match.Pos())
	ok, why := true, ""
	sawHit := false
	for _, s := range Paths(match).Segs {
		for _, e := range s.Events {
			if e.Kind != EvCall || calleeFull(e.Call) != "(*net.IPNet).Contains" {
				continue
			}
			arg := sxSeg(s, e.Call.Args[1], 0)
			if !strings.HasPrefix(arg, "(net.IP).Mask(dstSubnet.IP,dstSubnet.Mask)") {
				ok, why = false, "networks are asked about "+arg+", expected the target base address masked by the target mask"
			}
			k, v := s.BoolFact(e.Val)
			if k && v && s.Returns() {
				sawHit = true
				rv := s.Resolve(s.Exit.(*ssa.Return).Results[0])
				b, f, isF := fieldLoad(rv)
				if !isF || f != "IP" || s.Resolve(b) != s.Resolve(e.Call.Args[0]) {
					ok, why = false, "the address returned is not the address of the network that contains the target"
				}
			}
			if k && !v && s.Returns() && retClass(s) != retFail {
				if !isNilConst(s.Resolve(s.Exit.(*ssa.Return).Results[0])) {
					ok, why = false, "an address is returned although no network contains the target"
				}
			}
		}
	}
	r.Check(ok && sawHit, "C17.R6", name, pos, "each interface network is asked whether it contains the masked target base; the containing network's own address is returned", why)
	// the enumerating function returns a copy of the matching interface, first match wins
	for _, fn := range p.SrcFuncs() {
		if fn.Pkg != p.SPkg("pkg/ip") || fn.Parent() != nil || len(callInstrs(fn, "net.Interfaces")) == 0 {
			continue
		}
		okE, whyE := true, ""
		hit := false
		for _, s := range Paths(fn).Segs {
			if !s.Returns() || retClass(s) == retFail {
				continue
			}
			rv := s.Resolve(s.Exit.(*ssa.Return).Results[0])
			if isNilConst(rv) {
				continue
			}
			var mc *Event
			for _, e := range s.Events {
				if e.Kind == EvCall && StaticCallee(e.Call) == match {
					mc = e
				}
			}
			a, isA := rv.(*ssa.Alloc)
			stored := false
			if ia, isIA := rv.(*ssa.IndexAddr); isIA && !isA {
				// a pointer to the element itself, in the slice this call got from net.Interfaces() (a fresh
				// slice per call, so the element is not shared and not an iteration variable)
				fromList := false
				for _, o := range p.Origins(s.Resolve(ia.X)) {
					if ex, isEx := o.(*ssa.Extract); isEx && ex.Index == 0 {
						if c, isC := ex.Tuple.(*ssa.Call); isC && calleeFull(&c.Call) == "net.Interfaces" {
							fromList = true
						}
					}
				}
				if !fromList || mc == nil || s.Resolve(mc.Call.Args[0]) != rv {
					okE, whyE = false, "the returned interface is not the one whose networks matched"
					continue
				}
				stored = true
			} else if !isA || !a.Heap {
				okE, whyE = false, "the returned interface is not a fresh copy of the matching element"
				continue
			} else {
				// the copy is made in this iteration (its store is on the segment) and the match call used it
				for _, e := range s.Events {
					if e.Kind == EvStore && e.Addr == ssa.Value(a) {
						stored = true
					}
				}
			}
			if !stored || mc == nil || (isA && mc.Call.Args[0] != ssa.Value(a)) {
				okE, whyE = false, "the returned interface is not the one whose networks matched"
				continue
			}
			ipr := s.Resolve(s.Exit.(*ssa.Return).Results[1])
			if ex, isEx := ipr.(*ssa.Extract); !isEx || ex.Tuple != mc.Val {
				okE, whyE = false, "the returned address is not the matching network's address"
			}
			if k, isNil := s.NilFact(extractOf(mc.Instr.(*ssa.Call), 0)); !k || isNil {
				okE, whyE = false, "an interface is returned without a matching address"
			}
			hit = true
		}
		r.Check(okE && hit, "C17.R6", FuncName(fn), p.Pos(fn.Pos()), "the first interface with a containing network is returned by copy together with that network's address", whyE)
	}
}

// checkParsingSequential: option parsing runs in one goroutine. A parse step moved to a background
// goroutine that shares the error result lets a later success overwrite an earlier failure (a bad --iface,
// --srcmac or exclusion file is then accepted silently).
func checkParsingSequential(p *Prog, r *Report, rule string) int {
	n := 0
	roots := append(p.methodsByName("command", "parseRawOptions"), p.methodsByName("command", "parseOptions")...)
	for _, fn := range roots {
		n++
		var bad []string
		for g := range p.staticReach(fn) {
			if g.Pkg != fn.Pkg {
				continue
			}
			for _, b := range g.Blocks {
				for _, in := range b.Instrs {
					if _, isGo := in.(*ssa.Go); isGo {
						bad = append(bad, "go statement in "+FuncName(g)+" at "+p.Pos(in.Pos()))
					}
				}
			}
		}
		sort.Strings(bad)
		r.Check(len(bad) == 0, rule, FuncName(fn)+"/sequential", p.Pos(fn.Pos()), "option parsing starts no goroutine (every parse error reaches the caller; no parse result is written concurrently)", strings.Join(bad, "; "))
	}
	return n
}
