package main

import (
	"fmt"
	"go/constant"
	"go/token"
	"go/types"
	"strings"

	"golang.org/x/tools/go/ssa"
)

func init() {
	register(&propDef{
		ID: "C09",
		Explanation: "Static conformance of the SOCKS5 probe: (R1) decision guard — a result is stored only on the path where dial, linger, write and read returned nil and the reply satisfies Ver==5 and Method==0 (guards folded over representative reply bytes), every other path returns no result; (R2) the record carries the probed address and port, and the dial address is built from the same two request fields; " +
			"(R3) deadlines — raw net.Conn Read/Write happen only inside the wrapper type, each preceded on every path by the matching Set*Deadline(time.Now().Add(timeout)) whose error is tested; the codec calls in Scan receive the wrapper; the dialer is DialContext(ctx) with a positive default Timeout; --timeout feeds both the dial and the data timeout; " +
			"(R4) cancellation watchdog — a goroutine selects on ctx.Done() and closes the connection; its stop channel is created, and closed by defer, in the function that performs the protocol I/O; the connection is closed by defer; (R5) message layout — the greeting is built from the constants (5,[0]), the request writer emits Ver, NMethods=len(Methods), Methods in one Write, the reply type is exactly {Ver, Method byte} and is read completely (binary.Read / io.ReadFull) before it is inspected.",
		NotDecided:  []string{"actual durations (scheduler, kernel timers)", "kernel behaviour on RST / half-open connections"},
		Assumptions: []string{"net.Conn deadlines bound each Read/Write", "binary.Read / io.ReadFull return an error unless the whole value was read", "net.Dialer.DialContext honours Timeout and ctx", "closing a net.Conn unblocks pending I/O"},
		Run:         runC09,
	})
}

func runC09(p *Prog, r *Report) {
	r.Min("C09.R1", 3)
	r.Min("C09.R2", 2)
	r.Min("C09.R3", 10)
	checkNoGlobalWrites(p, r, "C09.R3", "pkg/scan/socks5")
	r.Min("C09.R4", 3)
	r.Min("C09.R5", 5)
	var scan *ssa.Function
	for _, f := range p.Implementers(modPath+"/pkg/scan", "Scanner", "Scan") {
		if f.Pkg == p.SPkg("pkg/scan/socks5") {
			scan = f
		}
	}
	if scan == nil {
		r.Undecided("C09.R1", "socks5 scanner", "-", "pkg/scan/socks5 implements scan.Scanner", "not found")
		return
	}
	checkSocksDecision(p, r, scan)
	checkSocksDeadlines(p, r, scan)
	checkSocksWatchdog(p, r, scan)
	checkSocksMessages(p, r, scan)
}

// resultStore returns the value stored into the named result cell #0 on the segment (nil: none).
func resultStore(s *Seg) ssa.Value {
	ret, ok := s.Exit.(*ssa.Return)
	if !ok || len(ret.Results) == 0 {
		return nil
	}
	u, ok := ret.Results[0].(*ssa.UnOp)
	if !ok || u.Op != token.MUL {
		v := s.Resolve(ret.Results[0])
		if isNilConst(v) {
			return nil
		}
		return v
	}
	var val ssa.Value
	for _, e := range s.Events {
		if e.Kind == EvStore && e.Addr == u.X {
			val = e.Val
		}
	}
	if val != nil && isNilConst(val) {
		return nil
	}
	return val
}

func checkSocksDecision(p *Prog, r *Report, scan *ssa.Function) {
	name := FuncName(scan)
	pos := p.Pos(scan.Pos())
	fp := Paths(scan)
	if len(fp.Headers) > 0 || fp.Truncated {
		r.Undecided("C09.R1", name, pos, "the probe is loop-free", "loop in Scan")
		return
	}
	ver := p.LookupConst(modPath+"/pkg/scan/socks5", "SOCKSVersion")
	noauth := p.LookupConst(modPath+"/pkg/scan/socks5", "MethodNoAuth")
	vv, _ := constant.Int64Val(constant.ToInt(ver))
	mv, _ := constant.Int64Val(constant.ToInt(noauth))
	r.Check(ver != nil && noauth != nil && vv == 5 && mv == 0, "C09.R1", "socks5 constants", pos, "SOCKS version is 5 and the no-authentication method is 0 (RFC 1928)", fmt.Sprintf("SOCKSVersion=%v MethodNoAuth=%v", ver, noauth))
	okPos, whyPos := true, ""
	okNeg, whyNeg := true, ""
	okProv, whyProv := true, ""
	nPos := 0
	steps := []string{"DialContext", "WriteTo", "ReadFrom"}
	for _, s := range fp.Segs {
		if !s.Returns() {
			continue
		}
		res := resultStore(s)
		// fold the reply guards
		replyFacts := func(verB, methB int64) bool {
			bind := func(v ssa.Value) (int64, bool) {
				if _, f, ok := fieldLoad(s.Resolve(v)); ok {
					switch f {
					case "Ver":
						return verB, true
					case "Method":
						return methB, true
					}
				}
				return 0, false
			}
			for _, f := range s.Facts {
				bo, isB := f.Cond.(*ssa.BinOp)
				if !isB {
					continue
				}
				_, f1, o1 := fieldLoad(s.Resolve(bo.X))
				if !o1 || (f1 != "Ver" && f1 != "Method") {
					continue
				}
				if b, ok := EvalCond(s, f.Cond, bind); ok && b != f.Truth {
					return false
				}
			}
			return true
		}
		if res == nil {
			// a path without a result must not be the (5,0) path with all steps succeeded
			allOK := true
			for _, st := range steps {
				found := false
				for _, e := range s.Events {
					if e.Kind == EvCall {
						if f := StaticCallee(e.Call); f != nil && f.Name() == st {
							if ex := extractOf(e.Instr.(*ssa.Call), 1); ex != nil {
								if k, isNil := s.NilFact(ex); k && isNil {
									found = true
								}
							}
						}
					}
				}
				if !found {
					allOK = false
				}
			}
			mentions := false
			for _, f := range s.Facts {
				if bo, isB := f.Cond.(*ssa.BinOp); isB {
					if _, f1, o1 := fieldLoad(s.Resolve(bo.X)); o1 && (f1 == "Ver" || f1 == "Method") {
						mentions = true
					}
				}
			}
			if allOK && mentions && replyFacts(5, 0) && retClass(s) != retFail {
				okNeg, whyNeg = false, "a server answering 05 00 is not reported on some path"
			}
			continue
		}
		nPos++
		for _, st := range steps {
			found := false
			for _, e := range s.Events {
				if e.Kind == EvCall {
					if f := StaticCallee(e.Call); f != nil && f.Name() == st {
						if ex := extractOf(e.Instr.(*ssa.Call), 1); ex != nil {
							if k, isNil := s.NilFact(ex); k && isNil {
								found = true
							}
						}
					}
				}
			}
			if !found {
				okPos, whyPos = false, "a result is produced on a path where "+st+" is not known to have succeeded"
			}
		}
		for _, pr := range [][2]int64{{4, 0}, {5, 1}, {5, 2}, {5, 255}, {0, 0}, {6, 0}, {255, 255}} {
			if replyFacts(pr[0], pr[1]) {
				okPos, whyPos = false, fmt.Sprintf("a reply %02x %02x is reported as an open proxy", pr[0], pr[1])
			}
		}
		if !replyFacts(5, 0) {
			okPos, whyPos = false, "the reply 05 00 is not the one reported"
		}
		// provenance
		v := res
		if mi, ok := v.(*ssa.MakeInterface); ok {
			v = mi.X
		}
		lf := litFields(s, v)
		if e := sxSeg(s, lf["IP"], 0); !strings.HasSuffix(e, "String(r.DstIP)") {
			okProv, whyProv = false, "record IP is "+e
		}
		if e := sxSeg(s, lf["Port"], 0); !strings.HasSuffix(e, "r.DstPort") {
			okProv, whyProv = false, "record Port is "+e
		}
	}
	r.Check(okPos && nPos > 0, "C09.R1", name+"/report-guard", pos, "a record is produced only when dial, write and read succeeded and the reply is exactly Ver=5, Method=0 (folded over representative reply bytes)", whyPos)
	r.Check(okNeg, "C09.R1", name+"/no-miss", pos, "the 05 00 path with all steps succeeded produces the record", whyNeg)
	r.Check(okProv && nPos > 0, "C09.R2", name+"/record", pos, "the record carries the probed address (r.DstIP.String()) and port (r.DstPort)", whyProv)
	// dial address
	okDial, whyDial := false, "no DialContext call"
	for _, b := range scan.Blocks {
		for _, in := range b.Instrs {
			c, ok := in.(*ssa.Call)
			if !ok || calleeFull(&c.Call) != "(*net.Dialer).DialContext" {
				continue
			}
			okDial, whyDial = true, ""
			if nw, _ := constString(c.Call.Args[2]); nw != "tcp" && nw != "tcp4" {
				okDial, whyDial = false, "network is "+nw
			}
			// the address is "<r.DstIP>:<r.DstPort>", however the string is assembled
			goodAddr := false
			for _, sg := range PathsInl(scan).Segs {
				if !sg.Has(c) {
					continue
				}
				pieces, okE := strEval(sg, c.Call.Args[3], 0)
				goodAddr = okE && len(pieces) == 3 && strings.HasPrefix(pieces[0], "S:") && strings.HasSuffix(pieces[0], "r.DstIP") &&
					pieces[1] == "L::" && strings.HasPrefix(pieces[2], "D:") && strings.HasSuffix(pieces[2], "r.DstPort")
				if !goodAddr {
					whyDial = "dial address evaluates to " + strings.Join(pieces, " ") + ", expected r.DstIP ':' r.DstPort"
				}
				break
			}
			if !goodAddr {
				okDial = false
				if whyDial == "" {
					whyDial = "address is not formatted from the request"
				}
				continue
			}
			// ctx argument is Scan's ctx
			ctxOK := false
			for _, o := range p.Origins(c.Call.Args[1]) {
				if o == ssa.Value(scan.Params[1]) {
					ctxOK = true
				}
			}
			if !ctxOK {
				okDial, whyDial = false, "DialContext does not receive the probe's context"
			}
		}
	}
	r.Check(okDial, "C09.R2", name+"/dial", pos, "the connection is made with DialContext(ctx, tcp, r.DstIP:r.DstPort)", whyDial)
}

func checkSocksDeadlines(p *Prog, r *Report, scan *ssa.Function) {
	// raw conn I/O sites in the package
	pkg := scan.Pkg
	isConnIO := func(c *ssa.CallCommon) string {
		m := IfaceMethod(c)
		if m == nil || (m.Name() != "Read" && m.Name() != "Write") {
			return ""
		}
		if types.TypeString(c.Value.Type(), nil) != "net.Conn" {
			return ""
		}
		return m.Name()
	}
	var wrapperT *types.Named
	for _, fn := range p.SrcFuncs() {
		if fn.Pkg != pkg {
			continue
		}
		for _, b := range fn.Blocks {
			for _, in := range b.Instrs {
				c, ok := in.(*ssa.Call)
				if !ok {
					continue
				}
				op := isConnIO(&c.Call)
				if op == "" {
					continue
				}
				key := FuncName(fn) + "/" + op
				pos := p.Pos(c.Pos())
				if fn.Signature.Recv() == nil || fn.Name() != op {
					r.Viol("C09.R3", key, pos, "raw connection I/O happens only inside the deadline wrapper's same-named method", "raw "+op+" in "+FuncName(fn))
					continue
				}
				wrapperT = recvNamed(fn)
				// one raw operation per wrapper call: the probe's bound counts wrapper calls (one write, at most
				// two reads), each limited by one data timeout - a retry loop inside the wrapper removes the bound
				once, whyOnce := len(LoopHeaders(fn)) == 0, "the wrapper repeats the raw "+op+" in a loop: a server that stays silent keeps the probe alive without bound"
				if once {
					whyOnce = ""
					for _, s := range Paths(fn).Segs {
						k := 0
						for _, e := range s.Events {
							if e.Kind == EvCall && e.Call != nil && isConnIO(e.Call) == op {
								k++
							}
						}
						if k > 1 {
							once, whyOnce = false, fmt.Sprintf("%d raw %s calls on one path", k, op)
						}
					}
				}
				r.Check(once, "C09.R3", key+"/once", pos, "the deadline wrapper performs one raw "+op+" per call (each call is bounded by one data timeout)", whyOnce)
				// every path to the call sets the matching deadline from now+timeout and tests the error
				ok2, why := true, ""
				for _, s := range PathsInl(fn).Segs {
					if !s.Has(c) {
						continue
					}
					var dl *Event
					for _, e := range s.Events {
						if e.Kind == EvCall && e.Ord < s.ord[c] {
							if m := IfaceMethod(e.Call); m != nil && (m.Name() == "Set"+op+"Deadline" || m.Name() == "SetDeadline") {
								dl = e
							}
						}
					}
					if dl == nil {
						ok2, why = false, op+" without a preceding Set"+op+"Deadline: a silent server blocks the worker forever"
						continue
					}
					if k, isNil := s.NilFact(dl.Val); !k || !isNil {
						ok2, why = false, "deadline error not tested"
					}
					e := sxSeg(s, dl.Call.Args[0], 0)
					if !strings.HasPrefix(e, "(time.Time).Add(time.Now(),") || !strings.Contains(e, ".timeout") {
						ok2, why = false, "deadline is "+e+", expected time.Now().Add(c.timeout)"
					}
					if s.Resolve(dl.Call.Value) != s.Resolve(c.Call.Value) && s.Term(dl.Call.Value) != s.Term(c.Call.Value) {
						ok2, why = false, "deadline set on a different connection"
					}
				}
				r.Check(ok2, "C09.R3", key, pos, "each raw "+op+" is preceded on every path by Set"+op+"Deadline(time.Now().Add(timeout)) on the same connection, error tested", why)
			}
		}
	}
	if wrapperT == nil {
		r.Undecided("C09.R3", "deadline wrapper", "-", "a wrapper type performs the raw connection I/O", "not found")
		return
	}
	// codec calls in Scan receive the wrapper, built over the dialled connection with the data timeout
	pos := p.Pos(scan.Pos())
	streamOK := map[string]string{}
	for _, s := range Paths(scan).Segs {
		for _, e := range s.Events {
			if e.Kind != EvCall {
				continue
			}
			f := StaticCallee(e.Call)
			if f == nil || f.Pkg != pkg || (f.Name() != "WriteTo" && f.Name() != "ReadFrom") {
				continue
			}
			arg := e.Call.Args[1]
			if mi, ok := arg.(*ssa.MakeInterface); ok {
				arg = mi.X
			}
			t := arg.Type()
			if pt, ok := t.(*types.Pointer); ok {
				t = pt.Elem()
			}
			detail := ""
			if t != types.Type(wrapperT) {
				detail = "stream is " + types.TypeString(arg.Type(), nil)
			} else {
				lf := litFields(s, arg)
				if e2 := sxSeg(s, lf["timeout"], 0); !strings.HasSuffix(e2, "s.dataTimeout") {
					detail = "wrapper timeout is " + e2
				}
				// the wrapper's connection is its field of type net.Conn, named or embedded
				connField := ""
				if st, isSt := wrapperT.Underlying().(*types.Struct); isSt {
					for i := 0; i < st.NumFields(); i++ {
						if types.TypeString(st.Field(i).Type(), nil) == "net.Conn" {
							connField = st.Field(i).Name()
						}
					}
				}
				dialled := connField != "" && lf[connField] != nil
				for _, o := range p.Origins(lf[connField]) {
					ex, isEx := o.(*ssa.Extract)
					if !isEx {
						dialled = false
						continue
					}
					c, isC := ex.Tuple.(*ssa.Call)
					if !isC || calleeFull(&c.Call) != "(*net.Dialer).DialContext" {
						dialled = false
					}
				}
				if !dialled {
					detail = "wrapper connection is not the dialled one"
				}
			}
			if old, had := streamOK[f.Name()]; !had || old == "" {
				streamOK[f.Name()] = detail
			}
		}
	}
	for _, n := range []string{"ReadFrom", "WriteTo"} {
		d, seen := streamOK[n]
		r.Check(seen && d == "", "C09.R3", FuncName(scan)+"/"+n+"-stream", pos, "protocol "+n+" goes through the deadline wrapper over the dialled connection with the scanner's data timeout", d)
	}
	// dialer default and options
	nDialerStores := 0
	for _, fn := range p.SrcFuncs() {
		if fn.Pkg != pkg {
			continue
		}
		for _, b := range fn.Blocks {
			for _, in := range b.Instrs {
				st, isSt := in.(*ssa.Store)
				if !isSt {
					continue
				}
				fa, isFA := st.Addr.(*ssa.FieldAddr)
				if !isFA || fieldName(fa.X.Type(), fa.Field) != "dialer" {
					continue
				}
				nDialerStores++
				fresh := true
				os := p.Origins(st.Val)
				for _, o := range os {
					if a, isA := o.(*ssa.Alloc); !isA || a.Parent() != fn {
						fresh = false
					}
				}
				r.Check(fresh && len(os) > 0, "C09.R3", FuncName(fn)+"/dialer-per-scanner", p.Pos(st.Pos()), "every scanner gets a dialer allocated for it (an option setting the connect timeout must not write through a dialer shared with other scanners)", "the dialer stored is "+(*Seg)(nil).term(st.Val, 0))
			}
		}
	}
	if nDialerStores == 0 {
		r.Viol("C09.R3", "dialer-per-scanner", "-", "the scanner's dialer field is set by its constructor", "no store found")
	}
	for _, fn := range p.SrcFuncs() {
		if fn.Pkg != pkg || fn.Parent() != nil {
			continue
		}
		for _, a := range allocsOfType(fn, "net.Dialer") {
			for _, s := range Paths(fn).Segs {
				if !s.Has(a) {
					continue
				}
				lf := litFields(s, a)
				k, ok := constInt(lf["Timeout"])
				r.Check(ok && k > 0, "C09.R3", FuncName(fn)+"/dial-timeout-default", p.Pos(a.Pos()), "the dialer is constructed with a positive connect timeout", fmt.Sprintf("Timeout default %d", k))
				break
			}
		}
	}
	// CLI: --timeout feeds both options
	fed := map[string]string{}
	for _, fn := range p.SrcFuncs() {
		if fn.Pkg != p.SPkg("command") {
			continue
		}
		for _, b := range fn.Blocks {
			for _, in := range b.Instrs {
				c, ok := in.(*ssa.Call)
				if !ok {
					continue
				}
				callee := StaticCallee(&c.Call)
				if callee == nil || callee.Pkg != pkg {
					continue
				}
				s := SummOption(callee)
				if s == nil || len(s.Writes) != 1 || len(c.Call.Args) != 1 {
					continue
				}
				fed[s.Writes[0].Field] = flagOfOptionArg(p, c.Call.Args[0])
			}
		}
	}
	r.Check(fed["dialer.Timeout"] == "timeout" && fed["dataTimeout"] == "timeout", "C09.R3", "command/socks --timeout", "-", "--timeout feeds both the connect timeout and the per-operation data timeout", fmt.Sprint(fed))
}

func checkSocksWatchdog(p *Prog, r *Report, scan *ssa.Function) {
	name := FuncName(scan)
	pos := p.Pos(scan.Pos())
	// the function performing the protocol I/O must own the stop channel: make + deferred close + go
	var mk *ssa.MakeChan
	for _, b := range scan.Blocks {
		for _, in := range b.Instrs {
			if m, ok := in.(*ssa.MakeChan); ok {
				mk = m
			}
		}
	}
	var wd *ssa.Function
	for _, g := range GoClosures(scan) {
		wd = g
	}
	// the stop signal may also be a context of its own: context.WithCancel(context.Background()) whose cancel
	// function is deferred (a context derived from the probe's ctx would fire together with it and could win
	// the select, so only a root context counts)
	var stopCtx, stopCancel ssa.Value
	for _, b := range scan.Blocks {
		for _, in := range b.Instrs {
			c, ok := in.(*ssa.Call)
			if !ok || calleeFull(&c.Call) != "context.WithCancel" || len(c.Call.Args) != 1 {
				continue
			}
			root, isRoot := c.Call.Args[0].(*ssa.Call)
			if !isRoot || (calleeFull(&root.Call) != "context.Background" && calleeFull(&root.Call) != "context.TODO") {
				continue
			}
			for _, ref := range *c.Referrers() {
				if ex, isEx := ref.(*ssa.Extract); isEx {
					if ex.Index == 0 {
						stopCtx = ex
					} else {
						stopCancel = ex
					}
				}
			}
		}
	}
	if mk == nil && stopCtx != nil && stopCancel != nil && wd != nil {
		okClose := false
		for _, d := range Deferred(scan) {
			for _, o := range p.Origins(d.Call.Value) {
				if o == stopCancel {
					okClose = true
				}
			}
		}
		r.Check(okClose, "C09.R4", name+"/stop-channel", pos, "the watchdog's stop channel is closed exactly once, by a defer of the probing function (no leak, no double close)", "the stop context's cancel function is not deferred")
	} else if mk == nil || wd == nil {
		r.Viol("C09.R4", name+"/watchdog", pos, "the function performing the protocol I/O starts a cancellation watchdog with its own stop channel", "no stop channel / goroutine in Scan (a watchdog started in a helper stops when the helper returns)")
		return
	}
	if mk != nil {
		// deferred close of that channel, registered before the I/O
		closes := deferredCloses(scan)
		okClose := false
		for _, c := range closes {
			for _, o := range p.Origins(c) {
				if o == ssa.Value(mk) {
					okClose = true
				}
			}
		}
		// no path closes it twice / no explicit close besides the defer
		explicit := 0
		for _, b := range scan.Blocks {
			for _, in := range b.Instrs {
				if c, ok := in.(*ssa.Call); ok {
					if bi, ok := c.Call.Value.(*ssa.Builtin); ok && bi.Name() == "close" {
						explicit++
					}
				}
			}
		}
		r.Check(okClose && explicit == 0, "C09.R4", name+"/stop-channel", pos, "the watchdog's stop channel is closed exactly once, by a defer of the probing function (no leak, no double close)", fmt.Sprintf("deferred close=%v explicit closes=%d", okClose, explicit))
	}
	// watchdog body: select{ctx.Done -> conn.Close ; stop}
	okW, whyW := true, ""
	sawDone, sawStop := false, false
	for _, s := range Paths(wd).Segs {
		if s.IsSelectPanicTail() {
			continue
		}
		for _, e := range s.Events {
			if e.Kind != EvSelect {
				continue
			}
			if len(e.Sel.States) != 2 || !e.Sel.Blocking {
				okW, whyW = false, "watchdog select is not {ctx.Done, stop}"
				continue
			}
			if e.Chosen < 0 {
				continue
			}
			st := e.Sel.States[e.Chosen]
			if mk == nil && stopCtx != nil && isCtxDone(st.Chan) && reachesThroughHelpers(p, ctxOfDone(st.Chan), stopCtx, 0) {
				sawStop = true
			} else if isCtxDone(st.Chan) {
				sawDone = true
				// ctx is the probe's ctx
				okCtx := false
				if reachesThroughHelpers(p, ctxOfDone(st.Chan), scan.Params[1], 0) {
					okCtx = true
				}
				if !okCtx {
					okW, whyW = false, "watchdog watches a different context"
				}
				closed := false
				for _, e2 := range s.Events {
					if e2.Kind == EvCall {
						if m := IfaceMethod(e2.Call); m != nil && m.Name() == "Close" && types.TypeString(e2.Call.Value.Type(), nil) == "net.Conn" {
							closed = true
						}
					}
				}
				if !closed {
					okW, whyW = false, "cancellation does not close the connection (the probe waits for its deadlines)"
				}
			} else if mk != nil {
				if reachesThroughHelpers(p, st.Chan, mk, 0) {
					sawStop = true
				}
			}
		}
	}
	r.Check(okW && sawDone && sawStop, "C09.R4", name+"/watchdog", pos, "a goroutine waits for ctx.Done() (closing the connection) or the stop channel", whyW)
	// conn.Close deferred after a successful dial; watchdog started before the first protocol I/O
	okD := false
	for _, d := range Deferred(scan) {
		if m := IfaceMethod(&d.Call); m != nil && m.Name() == "Close" {
			okD = true
		}
	}
	okOrder, whyOrder := true, ""
	for _, s := range Paths(scan).Segs {
		var goOrd, ioOrd int
		for _, e := range s.Events {
			if e.Kind == EvGo {
				goOrd = e.Ord
			}
			if e.Kind == EvCall {
				if f := StaticCallee(e.Call); f != nil && (f.Name() == "WriteTo" || f.Name() == "ReadFrom") && f.Pkg == scan.Pkg && ioOrd == 0 {
					ioOrd = e.Ord
				}
			}
		}
		if ioOrd > 0 && (goOrd == 0 || goOrd > ioOrd) {
			okOrder, whyOrder = false, "protocol I/O happens on a path where the watchdog is not running yet"
		}
	}
	r.Check(okD && okOrder, "C09.R4", name+"/close", pos, "the connection is closed by defer and the watchdog runs before the first protocol I/O", whyOrder)
}

func checkSocksMessages(p *Prog, r *Report, scan *ssa.Function) {
	pkg := scan.Pkg
	pos := p.Pos(scan.Pos())
	// greeting arguments at the call in Scan
	okG, whyG := false, "no greeting constructor call"
	var ctor *ssa.Function
	// the greeting is built in Scan, or once in the package initialiser into a variable that Scan's WriteTo
	// reads and nothing writes afterwards
	hosts := []*ssa.Function{scan}
	for _, b := range scan.Blocks {
		for _, in := range b.Instrs {
			if c, ok := in.(*ssa.Call); ok {
				if f := StaticCallee(&c.Call); f != nil && f.Name() == "WriteTo" && f.Pkg == pkg && len(c.Call.Args) > 0 {
					if g := globalOfLoad(c.Call.Args[0]); g != nil && g.Pkg == pkg && len(p.StoresToGlobalOutsideInit(g)) == 0 {
						if init := pkg.Func("init"); init != nil {
							hosts = append(hosts, init)
						}
					}
				}
			}
		}
	}
	var blocks []*ssa.BasicBlock
	for _, h := range hosts {
		blocks = append(blocks, h.Blocks...)
	}
	for _, b := range blocks {
		for _, in := range b.Instrs {
			c, ok := in.(*ssa.Call)
			if !ok {
				continue
			}
			f := StaticCallee(&c.Call)
			if f == nil || f.Pkg != pkg || f.Signature.Results().Len() != 1 || !strings.HasSuffix(types.TypeString(f.Signature.Results().At(0).Type(), nil), "MethodRequest") {
				continue
			}
			ctor = f
			v, ok1 := constInt(c.Call.Args[0])
			elems, ok2 := VariadicElems(c.Call.Args[1])
			okG = ok1 && v == 5 && ok2 && len(elems) == 1
			if okG {
				m, okm := constInt(elems[0])
				okG = okm && m == 0
			}
			whyG = fmt.Sprintf("greeting built from version %d and %d methods", v, len(elems))
		}
	}
	r.Check(okG, "C09.R5", FuncName(scan)+"/greeting", pos, "the greeting is version 5 with the single method 0 (bytes 05 01 00)", whyG)
	if ctor != nil {
		okC, whyC := false, ""
		for _, s := range Paths(ctor).Segs {
			if !s.Returns() {
				continue
			}
			a, isA := s.Resolve(s.Exit.(*ssa.Return).Results[0]).(*ssa.Alloc)
			if !isA {
				continue
			}
			lf := litFields(s, a)
			ver := sx(lf["Ver"], 0) == ctor.Params[0].Name()
			nm := sx(lf["NMethods"], 0) == "builtin len("+ctor.Params[1].Name()+")"
			ms := sx(lf["Methods"], 0) == ctor.Params[1].Name()
			okC = ver && nm && ms
			whyC = fmt.Sprintf("Ver=%s NMethods=%s Methods=%s", sx(lf["Ver"], 0), sx(lf["NMethods"], 0), sx(lf["Methods"], 0))
		}
		r.Check(okC, "C09.R5", FuncName(ctor), p.Pos(ctor.Pos()), "the request is {Ver: version, NMethods: len(methods), Methods: methods}", whyC)
	}
	// WriteTo: appends Ver, NMethods, Methods..., one Write
	for _, fn := range p.SrcFuncs() {
		if fn.Pkg != pkg || fn.Signature.Recv() == nil {
			continue
		}
		switch fn.Name() {
		case "WriteTo":
			var order []string
			writes := 0
			for _, b := range fn.Blocks {
				for _, in := range b.Instrs {
					c, ok := in.(*ssa.Call)
					if !ok {
						continue
					}
					if bi, ok := c.Call.Value.(*ssa.Builtin); ok && bi.Name() == "append" {
						if elems, ok := VariadicElems(c.Call.Args[1]); ok && len(elems) >= 1 {
							for _, el := range elems {
								order = append(order, sx(el, 0))
							}
						} else {
							order = append(order, sx(c.Call.Args[1], 0)+"...")
						}
					}
					if m := IfaceMethod(&c.Call); m != nil && m.Name() == "Write" {
						writes++
					}
				}
			}
			got := strings.Join(order, " ")
			r.Check(got == "r.Ver r.NMethods r.Methods..." && writes == 1 && len(LoopHeaders(fn)) == 0, "C09.R5", FuncName(fn), p.Pos(fn.Pos()), "the request is serialised as Ver, NMethods, Methods in a single Write", fmt.Sprintf("appends [%s], %d writes", got, writes))
		case "ReadFrom":
			complete, raw := false, false
			for _, b := range fn.Blocks {
				for _, in := range b.Instrs {
					c, ok := in.(*ssa.Call)
					if !ok {
						continue
					}
					switch calleeFull(&c.Call) {
					case "encoding/binary.Read":
						if mi, ok := c.Call.Args[2].(*ssa.MakeInterface); ok && mi.X == ssa.Value(fn.Params[0]) {
							complete = true
						}
					case "io.ReadFull", "io.ReadAtLeast":
						complete = true
					}
					if m := IfaceMethod(&c.Call); m != nil && m.Name() == "Read" {
						raw = true
					}
				}
			}
			r.Check(complete && !raw, "C09.R5", FuncName(fn), p.Pos(fn.Pos()), "the reply is read completely (binary.Read / io.ReadFull) before it is decoded; a short reply is an error", fmt.Sprintf("complete read=%v bare Read=%v", complete, raw))
			// reply struct is exactly two bytes Ver, Method
			if n := recvNamed(fn); n != nil {
				st, _ := n.Underlying().(*types.Struct)
				ok := st != nil && st.NumFields() == 2 && st.Field(0).Name() == "Ver" && st.Field(1).Name() == "Method" &&
					types.TypeString(st.Field(0).Type(), nil) == "byte" && types.TypeString(st.Field(1).Type(), nil) == "byte"
				if st != nil && st.NumFields() == 2 {
					ok = ok || (types.TypeString(st.Field(0).Type(), nil) == "uint8" && types.TypeString(st.Field(1).Type(), nil) == "uint8" && st.Field(0).Name() == "Ver" && st.Field(1).Name() == "Method")
				}
				r.Check(ok, "C09.R5", n.Obj().Name()+"/layout", p.Pos(n.Obj().Pos()), "the reply type is exactly {Ver byte; Method byte} in wire order", "unexpected layout")
			}
		}
	}
}

// reachesThroughHelpers: some origin of v is `want`, looking through the parameters of helper
// functions (a watchdog started as `go helper(ctx, conn, done)` sees the probe's own values).
func reachesThroughHelpers(p *Prog, v ssa.Value, want ssa.Value, d int) bool {
	if d > 3 || v == nil {
		return false
	}
	for _, o := range p.Origins(v) {
		if o == want {
			return true
		}
		if prm, ok := o.(*ssa.Parameter); ok {
			for _, a := range p.ArgsBoundTo(prm) {
				if reachesThroughHelpers(p, a, want, d+1) {
					return true
				}
			}
		}
	}
	return false
}
