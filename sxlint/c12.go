package main

import (
	"fmt"
	"go/token"
	"go/types"
	"sort"
	"strings"

	"golang.org/x/tools/go/ssa"
)

func init() {
	register(&propDef{
		ID: "C12",
		Explanation: "Static channel-ownership and await-chain analysis over every make(chan) and every go statement of the repository: (R1) per channel, all close sites are path-exclusive and every send site executes either in the closing goroutine before the close (close deferred or last) or in goroutines joined by a WaitGroup whose Wait precedes the close; never-closed channels are only received from under a ctx.Done() guard — this excludes send-on-closed and double close for all schedules; " +
			"(R2) the await chain of the engine caller (what wg.Wait transitively waits for: logger implementations, the error drain and through it the closers of the engines' error channels, their multiplexers / workers) contains only ctx-guarded or configuration-bounded blocking operations; (R3) every (ctx, chan, value) helper is a guarded send; (R4) the logger performs one writer call per record.",
		NotDecided:  []string{"a numeric bound on the return time", "goroutines outside the await chain that spin to the end of their ranges after cancel", "Limiter.Take is not context-aware: with a very slow --rate each waiting worker still sleeps to its slot (classified configuration-bounded)"},
		Assumptions: []string{"Scanner.Scan implementations return promptly after cancellation (decided separately by C09.R3/R4 and C10.R3)", "external calls other than the listed blocking vocabulary do not block"},
		Run:         runC12,
	})
}

type chanSite struct {
	fn     *ssa.Function // function containing the site
	instr  ssa.Instruction
	seg    *Seg
	ev     *Event
	kind   string // "close", "send", "recv"
	raw    bool
	lossy  bool
	defer_ bool
	chv    ssa.Value // the channel operand at the site
}

// goEntries maps a function to true when it is the target of some `go` statement.
func goTargets(p *Prog) map[*ssa.Function]bool {
	out := map[*ssa.Function]bool{}
	for _, fn := range p.SrcFuncs() {
		for _, g := range GoClosures(fn) {
			out[g] = true
		}
	}
	return out
}

// goroutineOf returns the innermost enclosing function that is started with `go` (nil: caller's goroutine).
func goroutineOf(fn *ssa.Function, targets map[*ssa.Function]bool) *ssa.Function {
	return goroutineOfD(fn, targets, 0)
}

var c12prog *Prog

func goroutineOfD(fn *ssa.Function, targets map[*ssa.Function]bool, d int) *ssa.Function {
	for f := fn; f != nil; f = f.Parent() {
		if targets[f] {
			return f
		}
	}
	// a named helper called only from code of one goroutine runs in that goroutine
	if fn != nil && fn.Parent() == nil && c12prog != nil && d < 3 && inlineCandidate(fn) {
		var g *ssa.Function
		n := 0
		for _, cs := range c12prog.CallSites(fn) {
			if _, isCall := cs.(*ssa.Call); !isCall {
				return nil
			}
			cg := goroutineOfD(cs.Parent(), targets, d+1)
			if cg == nil || (g != nil && cg != g) {
				return nil
			}
			g = cg
			n++
		}
		if n > 0 {
			return g
		}
	}
	return nil
}

func runC12(p *Prog, r *Report) {
	r.Min("C12.R1", 18)
	r.Min("C12.R2", 8)
	r.Min("C12.R3", 5)
	r.Min("C12.R4", 3)
	c12prog = p
	targets := goTargets(p)
	// inventory
	var chans []*ssa.MakeChan
	for _, fn := range p.SrcFuncs() {
		for _, b := range fn.Blocks {
			for _, in := range b.Instrs {
				if mc, ok := in.(*ssa.MakeChan); ok {
					chans = append(chans, mc)
				}
			}
		}
	}
	nGo := 0
	for _, fn := range p.SrcFuncs() {
		nGo += len(GoClosures(fn))
	}
	r.Count("make_chan_sites", len(chans))
	r.Count("go_statements", nGo)
	closes := map[*ssa.MakeChan][]chanSite{}
	sends := map[*ssa.MakeChan][]chanSite{}
	recvs := map[*ssa.MakeChan][]chanSite{}
	seenInstr := map[string]bool{}
	add := func(m map[*ssa.MakeChan][]chanSite, ch ssa.Value, cs chanSite) {
		for _, o := range p.OriginsIP(ch) {
			if mc, ok := o.(*ssa.MakeChan); ok {
				k := fmt.Sprintf("%p|%p|%s", mc, cs.instr, cs.kind)
				if cs.kind == "send" || cs.kind == "recv" {
					k += fmt.Sprint(cs.ev.Chosen)
				}
				if seenInstr[k] {
					continue
				}
				seenInstr[k] = true
				cs.chv = ch
				m[mc] = append(m[mc], cs)
			}
		}
	}
	absorbed = closingHelpers(p)
	for _, fn := range p.SrcFuncs() {
		if SummGuardedSend(fn) != nil {
			continue // helper bodies are represented by their call sites
		}
		if absorbed[fn] {
			continue // a small helper that closes channels for its only callers: expanded into them below
		}
		fp := pathsAbsorbing(fn)
		if fp.Truncated {
			r.Undecided("C12.R1", FuncName(fn), p.Pos(fn.Pos()), "function has a tractable number of paths", "path enumeration truncated")
		}
		for _, s := range fp.Segs {
			s.Events = ownEvents(fn, s.Events)
			for _, e := range s.Events {
				if e.Kind == EvClose {
					add(closes, e.Chan, chanSite{fn: fn, instr: e.Instr, seg: s, ev: e, kind: "close"})
				}
				if e.Kind == EvDefer {
					if b, ok := e.Call.Value.(*ssa.Builtin); ok && b.Name() == "close" {
						add(closes, e.Call.Args[0], chanSite{fn: fn, instr: e.Instr, seg: s, ev: e, kind: "close", defer_: true})
					}
				}
			}
			for _, em := range s.Emits() {
				add(sends, s.Resolve(em.Chan), chanSite{fn: fn, instr: em.Ev.Instr, seg: s, ev: em.Ev, kind: "send", raw: em.Raw, lossy: em.Lossy})
			}
			for _, e := range s.Events {
				if e.Kind == EvRecv {
					add(recvs, e.Chan, chanSite{fn: fn, instr: e.Instr, seg: s, ev: e, kind: "recv", raw: true})
				}
				if e.Kind == EvSelect {
					hasDone := false
					for _, st := range e.Sel.States {
						if st.Dir == types.RecvOnly && isCtxDone(st.Chan) {
							hasDone = true
						}
					}
					for _, st := range e.Sel.States {
						if st.Dir == types.RecvOnly && !isCtxDone(st.Chan) {
							add(recvs, st.Chan, chanSite{fn: fn, instr: e.Instr, seg: s, ev: e, kind: "recv", raw: !hasDone && e.Sel.Blocking})
						}
					}
				}
			}
		}
	}
	// deferred closes inside deferred closure literals: those closures are ordinary functions in
	// SrcFuncs; mark their closes as deferred when the closure itself is deferred by its parent.
	deferredFn := map[*ssa.Function]bool{}
	for _, fn := range p.SrcFuncs() {
		for _, d := range Deferred(fn) {
			if cl := StaticCallee(&d.Call); cl != nil && cl.Parent() == fn {
				deferredFn[cl] = true
			}
		}
	}
	sort.Slice(chans, func(i, j int) bool { return p.Pos(chans[i].Pos()) < p.Pos(chans[j].Pos()) })
	perFn := map[*ssa.Function]int{}
	// channel factories: a function whose make(chan) is only returned creates a fresh channel per call; the
	// discipline is checked per call site (the closes, sends and receives that derive from that call)
	factoryOf := func(mc *ssa.MakeChan) *ssa.Function {
		F := mc.Parent()
		if F.Parent() != nil || targets[F] || mc.Referrers() == nil {
			return nil
		}
		var onlyReturned func(v ssa.Value, d int) bool
		onlyReturned = func(v ssa.Value, d int) bool {
			if d > 3 || v.Referrers() == nil {
				return false
			}
			n := 0
			for _, ref := range *v.Referrers() {
				switch t := ref.(type) {
				case *ssa.DebugRef:
				case *ssa.Return:
					n++
				case *ssa.ChangeType:
					if !onlyReturned(t, d+1) {
						return false
					}
					n++
				default:
					return false
				}
			}
			return n > 0
		}
		if !onlyReturned(mc, 0) || len(p.CallSites(F)) == 0 {
			return nil
		}
		return F
	}
	type inst struct {
		mc         *ssa.MakeChan
		fn         *ssa.Function
		pos        token.Pos
		cl, sd, rc []chanSite
	}
	var insts []inst
	for _, mc := range chans {
		if F := factoryOf(mc); F != nil {
			stop := map[*ssa.Function]bool{F: true}
			filter := func(in []chanSite, call ssa.Value) []chanSite {
				var out []chanSite
				for _, cs := range in {
					for _, o := range p.OriginsStopAt(cs.chv, stop) {
						if o == call {
							out = append(out, cs)
							break
						}
					}
				}
				return out
			}
			for _, ci := range p.CallSites(F) {
				cv, isV := ci.(*ssa.Call)
				if !isV {
					continue
				}
				insts = append(insts, inst{mc, cv.Parent(), cv.Pos(), filter(closes[mc], cv), filter(sends[mc], cv), filter(recvs[mc], cv)})
			}
			continue
		}
		insts = append(insts, inst{mc, mc.Parent(), mc.Pos(), closes[mc], sends[mc], recvs[mc]})
	}
	sort.SliceStable(insts, func(i, j int) bool { return p.Pos(insts[i].pos) < p.Pos(insts[j].pos) })
	for _, in := range insts {
		mc := in.mc
		fn := in.fn
		perFn[fn]++
		key := fmt.Sprintf("%s/chan#%d", FuncName(fn), perFn[fn])
		pos := p.Pos(in.pos)
		cl, sd, rc := in.cl, in.sd, in.rc
		// --- Rule A: closes are path-exclusive
		okA, detailA := true, ""
		// group by goroutine (deferred closure literals run in their parent's goroutine at its exit)
		ownerOf := func(cs chanSite) *ssa.Function {
			f := cs.fn
			if deferredFn[f] {
				f = f.Parent()
			}
			return f
		}
		isDeferred := func(cs chanSite) bool { return cs.defer_ || deferredFn[cs.fn] }
		byOwner := map[*ssa.Function][]chanSite{}
		for _, c := range cl {
			byOwner[ownerOf(c)] = append(byOwner[ownerOf(c)], c)
		}
		var owners []*ssa.Function
		for f := range byOwner {
			owners = append(owners, f)
		}
		sort.Slice(owners, func(i, j int) bool { return FuncName(owners[i]) < FuncName(owners[j]) })
		for _, f := range owners {
			cs := byOwner[f]
			// distinct close instructions in one function: at most one deferred; inline closes must be
			// followed by return on their segment with no spawn of another closer, and not inside a loop
			instrs := map[ssa.Instruction]bool{}
			ndef := 0
			for _, c := range cs {
				if !instrs[c.instr] {
					instrs[c.instr] = true
					if isDeferred(c) {
						ndef++
					}
				}
				if !isDeferred(c) {
					if c.seg.End != nil {
						okA, detailA = false, "close inside a loop iteration that continues: a second iteration closes again"
					}
					// two closes of the same channel on one segment
					n := 0
					for _, e := range c.seg.Events {
						if e.Kind == EvClose && p.SameOrigin(e.Chan, mc) {
							n++
						}
					}
					if n > 1 {
						okA, detailA = false, "two closes on one path"
					}
					if ndef > 0 || (len(Deferred(f)) > 0 && hasDeferredCloseOf(p, f, mc, deferredFn)) {
						okA, detailA = false, "inline close in a function that also closes the channel by defer"
					}
				}
			}
			if ndef > 1 {
				okA, detailA = false, "channel closed by two deferred calls"
			}
		}
		if len(owners) > 1 {
			// closers in different functions: allowed only when one is an inline close on a return path of the
			// parent that does not spawn the other closer (early-error return)
			for _, f := range owners {
				for _, g := range owners {
					if f == g {
						continue
					}
					if g.Parent() == f || (goroutineOf(g, targets) != nil && goroutineOf(g, targets).Parent() == f) || (g.Parent() == nil && targets[g] && startsWithGo(f, g)) {
						for _, c := range byOwner[f] {
							spawned := false
							for _, e := range c.seg.Events {
								if e.Kind == EvGo && (StaticCallee(e.Call) == g || StaticCallee(e.Call) == goroutineOf(g, targets)) {
									spawned = true
								}
							}
							if spawned || !c.seg.Returns() {
								okA, detailA = false, "parent closes the channel on a path that also starts the closing goroutine"
							}
						}
					} else if f.Parent() != g && !(goroutineOf(f, targets) != nil && goroutineOf(f, targets).Parent() == g) && !(f.Parent() == nil && targets[f] && startsWithGo(g, f)) {
						okA, detailA = false, fmt.Sprintf("closed in unrelated functions %s and %s", FuncName(f), FuncName(g))
					}
				}
			}
		}
		r.Check(okA, "C12.R1", key+"/single-close", pos, "at most one close of the channel can execute (no double close)", detailA)
		// --- Rule B: every send is ordered before the close
		okB, detailB := true, ""
		for _, s := range sd {
			if len(cl) == 0 {
				break
			}
			sg := goroutineOf(s.fn, targets)
			for _, c := range cl {
				cf := ownerOf(c)
				cg := goroutineOf(cf, targets)
				switch {
				case sg == cg && (s.fn == cf || sg != nil || s.fn.Parent() == nil && cf == s.fn):
					// same goroutine: close must be deferred in that goroutine's function chain, or come after the send and be followed by return
					if isDeferred(c) {
						continue
					}
					if s.seg == c.seg && s.ev.Ord < c.ev.Ord && c.seg.Returns() {
						continue
					}
					if s.fn == cf {
						// different segments of the same function: an inline close on an exit segment is fine when no send follows it
						later := false
						for _, e := range c.seg.Events {
							if e.Ord > c.ev.Ord && (e.Kind == EvSend) {
								later = true
							}
						}
						if !later && c.seg.Returns() {
							continue
						}
					}
					okB, detailB = false, fmt.Sprintf("send at %s may execute after the inline close at %s", p.Pos(s.instr.Pos()), p.Pos(c.instr.Pos()))
				case sg != nil && !isDeferred(c) && c.seg.Returns() && c.fn.Parent() == nil && goroutineOf(c.fn, targets) == nil && !spawnsGoroutine(c.seg, sg, 0) && spawnedBy(c.fn, sg):
					// the parent closes on an early return path that never starts the sending goroutine
					continue
				case sg == nil && cg != nil && s.seg.Returns() && !spawnsGoroutine(s.seg, cg, 0) && spawnedBy(s.fn, cg):
					// the send is on an early return path of the parent that never starts the closing goroutine
					continue
				default:
					// different goroutines: the sender must be joined by a WaitGroup the closer waits on before closing
					if !joinedBefore(p, s.fn, sg, c, cf, targets) {
						okB, detailB = false, fmt.Sprintf("send at %s (goroutine %s) is not joined before the close at %s (%s): send on closed channel possible", p.Pos(s.instr.Pos()), FuncName(sg), p.Pos(c.instr.Pos()), FuncName(cf))
					}
				}
			}
		}
		r.Check(okB, "C12.R1", key+"/send-before-close", pos, "every send happens-before the close (same goroutine with deferred/last close, or WaitGroup-joined senders)", detailB)
		// --- Rule C: never-closed channels are only received from under a Done guard
		if len(cl) == 0 && len(rc) > 0 {
			okC, detailC := true, ""
			for _, x := range rc {
				if x.raw {
					okC, detailC = false, "unguarded receive at "+p.Pos(x.instr.Pos())+" on a channel that is never closed: blocks forever after the producer stops"
				}
			}
			r.Check(okC, "C12.R1", key+"/never-closed-guarded", pos, "a channel that is never closed is received from only under a ctx.Done() guard", detailC)
		}
	}
	checkAwaitChain(p, r, closes, targets, deferredFn)
	checkGuardedHelpers(p, r)
	checkLogResults(p, r, "C12.R4")
	if r.Prop != "C12" {
		return // imported by another property: only the channel discipline above is wanted
	}
	// the engines' completion contract on the early paths (C08.R2: both channels closed when the generator
	// fails or the scan is already over) and the SOCKS5 watchdog that releases a worker parked in a read
	// (C09.R4), re-evaluated: both decide whether Ctrl-C ends the scan
	sub8 := NewReport("C12x", "quick")
	runC08(p, sub8)
	for _, o := range sub8.Obs {
		if o.Rule == "C08.R2" {
			o2 := *o
			o2.Rule = "C12.R3"
			r.Obs = append(r.Obs, &o2)
		}
	}
	// the receive loop sleeps only its fixed retry pause and carries no state from one iteration to the
	// next (C20.R1 re-evaluated): a growing, uninterruptible back-off would outlive cancellation
	sub20 := NewReport("C12x", "quick")
	runC20(p, sub20)
	for _, o := range sub20.Obs {
		if o.Rule == "C20.R1" {
			o2 := *o
			o2.Rule = "C12.R3"
			r.Obs = append(r.Obs, &o2)
		}
	}
	sub9 := NewReport("C12x", "quick")
	runC09(p, sub9)
	for _, o := range sub9.Obs {
		// ... and every network operation of a probe observes the scan's context: the SOCKS5 connect is
		// DialContext(ctx), every HTTP request of the docker / elastic probes carries a context derived from it
		// (C09.R2 dial clause, C10.R3 request clauses re-evaluated) - a probe that runs on
		// context.Background() makes Ctrl-C wait out the data timeout, forever with --timeout 0
		if o.Rule == "C09.R4" || (o.Rule == "C09.R2" && strings.HasSuffix(o.Construct, "/dial")) {
			o2 := *o
			o2.Rule = "C12.R3"
			r.Obs = append(r.Obs, &o2)
		}
	}
	sub10 := NewReport("C12x", "quick")
	checkRequestTimeouts(p, sub10)
	n10 := 0
	for _, o := range sub10.Obs {
		if o.Rule == "C10.R3" && strings.Contains(o.Construct, "/request#") {
			o2 := *o
			o2.Rule = "C12.R3"
			r.Obs = append(r.Obs, &o2)
			n10++
		}
	}
	if n10 < 3 {
		r.Viol("C12.R3", "probe-requests", "-", "the HTTP requests of the docker and elastic probes are found", fmt.Sprint(n10))
	}
	// R5: a probe interrupted by cancellation never puts a broken record into the result stream: every
	// Scanner.Scan returns, whenever its error may be nil, either no record (nil interface) or a freshly
	// allocated one - never an interface wrapped around a possibly nil pointer, which passes the worker's
	// `result != nil` test and crashes the logger that renders it
	r.Min("C12.R5", 3)
	for _, sc := range p.Implementers(modPath+"/pkg/scan", "Scanner", "Scan") {
		ok, why := recordContract(p, sc, 0)
		r.Check(ok, "C12.R5", FuncName(sc)+"/record-never-nil-pointer", p.Pos(sc.Pos()), "with a possibly nil error the probe returns nil or a freshly allocated record (no interface around a nil pointer reaches the result stream)", why)
	}
}

// recordContract: on every returning path of fn whose error may be nil, result #0 is a nil interface, a
// fresh allocation, a value known non-nil, or result #0 of a same-package helper that itself satisfies the
// contract and whose error is the returned error / is known nil on the path.
func recordContract(p *Prog, fn *ssa.Function, d int) (bool, string) {
	if d > 2 || fn.Blocks == nil || fn.Signature.Results().Len() != 2 {
		return false, "helper " + FuncName(fn) + " not analysable"
	}
	fp := Paths(fn)
	if fp.Truncated {
		return false, "too many paths in " + FuncName(fn)
	}
	_, ifaceRes := fn.Signature.Results().At(0).Type().Underlying().(*types.Interface)
	nOK := 0
	for _, s := range fp.Segs {
		if !s.Returns() || retClass(s) == retFail {
			continue
		}
		v := resultStore(s)
		if v == nil {
			if ifaceRes {
				continue
			}
			// pointer result: nil together with a possibly nil error breaks the contract, unless the error cell was never nil
			if retClass(s) == retOK || retClass(s) == retUnknown {
				ret := s.Exit.(*ssa.Return)
				if len(ret.Results) > 0 && resultCellUnset(s, ret.Results[0]) && retClass(s) == retUnknown {
					continue // named results never assigned on this path: classification of the error decides; unknown error with zero record
				}
				return false, FuncName(fn) + " returns a nil record with a possibly nil error"
			}
			continue
		}
		v = s.Resolve(v)
		if mi, isMI := v.(*ssa.MakeInterface); isMI {
			v = s.Resolve(mi.X)
		}
		if _, isA := v.(*ssa.Alloc); isA {
			nOK++
			continue
		}
		if known, isNil := s.NilFact(v); known && !isNil {
			nOK++
			continue
		}
		// a constructor helper of the package whose every return is a fresh allocation
		if c, isC := v.(*ssa.Call); isC {
			if g := StaticCallee(&c.Call); g != nil && g.Pkg == fn.Pkg && g.Blocks != nil && g.Signature.Results().Len() == 1 {
				fresh, nRet := true, 0
				for _, b := range g.Blocks {
					if ret, isR := b.Instrs[len(b.Instrs)-1].(*ssa.Return); isR {
						nRet++
						for _, o := range p.Origins(ret.Results[0]) {
							if _, isA := o.(*ssa.Alloc); !isA {
								fresh = false
							}
						}
					}
				}
				if fresh && nRet > 0 {
					nOK++
					continue
				}
			}
		}
		if ex, isEx := v.(*ssa.Extract); isEx && ex.Index == 0 {
			if c, isC := ex.Tuple.(*ssa.Call); isC {
				if m := IfaceMethod(&c.Call); m != nil && m.Name() == fn.Name() {
					nOK++
					continue // a wrapper forwarding the delegate's own interface value: the delegate is checked itself
				}
				g := StaticCallee(&c.Call)
				ev := errOf(c)
				if g != nil && g.Pkg == fn.Pkg && ev != nil {
					sameErr := false
					ret := s.Exit.(*ssa.Return)
					if i := errResultIndex(fn); i >= 0 && i < len(ret.Results) {
						rv := s.Resolve(ret.Results[i])
						if u, isU := ret.Results[i].(*ssa.UnOp); isU && u.Op == token.MUL {
							for _, e := range s.Events {
								if e.Kind == EvStore && e.Addr == u.X {
									rv = s.Resolve(e.Val)
								}
							}
						}
						sameErr = rv == ssa.Value(ev)
					}
					known, isNil := s.NilFact(ev)
					if sameErr || (known && isNil) {
						if ok, why := recordContract(p, g, d+1); ok {
							nOK++
							continue
						} else {
							return false, why
						}
					}
					return false, fmt.Sprintf("%s returns the record of %s with a nil error on a path where that call failed: an interface around a nil pointer enters the result stream", FuncName(fn), g.Name())
				}
			}
		}
		return false, FuncName(fn) + " returns a record of unknown nil-ness (" + s.Term(v) + ") with a possibly nil error"
	}
	return true, ""
}

// resultCellUnset: the returned value is a load of a named-result cell that was not stored on this path.
func resultCellUnset(s *Seg, v ssa.Value) bool {
	u, ok := v.(*ssa.UnOp)
	if !ok || u.Op != token.MUL {
		return false
	}
	for _, e := range s.Events {
		if e.Kind == EvStore && e.Addr == u.X {
			return false
		}
	}
	return true
}

// spawnedBy: goroutine g is (transitively) started by function f on some path.
func spawnedBy(f, g *ssa.Function) bool { return spawnsTransitively(f, g, 0) }

func hasDeferredCloseOf(p *Prog, f *ssa.Function, mc *ssa.MakeChan, deferredFn map[*ssa.Function]bool) bool {
	for _, c := range deferredCloses(f) {
		for _, o := range p.OriginsIP(c) {
			if o == ssa.Value(mc) {
				return true
			}
		}
	}
	return false
}

// joinedBefore: the sending goroutine signals a WaitGroup (Done) that the closer Waits on before its close.
func joinedBefore(p *Prog, sfn, sg *ssa.Function, c chanSite, cf *ssa.Function, targets map[*ssa.Function]bool) bool {
	if sg == nil {
		return false
	}
	// WaitGroups signalled by the sender goroutine (Done deferred or called)
	var wgs []ssa.Value
	for _, b := range sg.Blocks {
		for _, in := range b.Instrs {
			if ci, ok := in.(ssa.CallInstruction); ok {
				if m, recv := waitGroupCall(ci.Common()); m == "Done" {
					wgs = append(wgs, p.OriginsIP(recv)...)
				}
			}
		}
	}
	if len(wgs) == 0 {
		return false
	}
	// the closer waits on one of them before the close: either on the close's own segment, or
	// (deferred close) on every returning segment of the closing function
	waitsOn := func(s *Seg, before int) bool {
		for _, e := range s.Events {
			if e.Kind == EvCall && (before < 0 || e.Ord < before) {
				if m, recv := waitGroupCall(e.Call); m == "Wait" {
					for _, o := range p.OriginsIP(recv) {
						for _, w := range wgs {
							if o == w {
								return true
							}
						}
					}
				}
			}
		}
		return false
	}
	if c.defer_ || cf != c.fn {
		ok := true
		n := 0
		for _, s := range Paths(cf).Segs {
			if s.Returns() {
				n++
				if !waitsOn(s, -1) {
					ok = false
				}
			}
		}
		return ok && n > 0
	}
	return waitsOn(c.seg, c.ev.Ord)
}

// ---------------- R2: await chain ----------------

type awaitState struct {
	p          *Prog
	r          *Report
	closes     map[*ssa.MakeChan][]chanSite
	targets    map[*ssa.Function]bool
	deferredFn map[*ssa.Function]bool
	visited    map[*ssa.Function]bool
	members    []string
	problems   []string
}

func checkAwaitChain(p *Prog, r *Report, closes map[*ssa.MakeChan][]chanSite, targets, deferredFn map[*ssa.Function]bool) {
	for _, root := range engineCallers(p) {
		if root.Pkg != p.SPkg("command") {
			continue
		}
		a := &awaitState{p: p, r: r, closes: closes, targets: targets, deferredFn: deferredFn, visited: map[*ssa.Function]bool{}}
		a.member(root, "root", 0)
		sort.Strings(a.members)
		r.Note("await chain of %s: %s", FuncName(root), strings.Join(a.members, " | "))
		r.Count("await_chain_members", len(a.members))
		want := []string{"LogResults", "mergeErrChan", "worker", "Start"}
		for _, w := range want {
			found := false
			for _, m := range a.members {
				if strings.Contains(m, w) {
					found = true
				}
			}
			r.Check(found, "C12.R2", FuncName(root)+"/chain-contains-"+w, p.Pos(root.Pos()), "the computed await chain contains the expected member "+w, "chain: "+strings.Join(a.members, " | "))
		}
	}
}

// member analyses one function that must terminate after cancellation.
func (a *awaitState) member(fn *ssa.Function, why string, depth int) {
	if fn == nil || a.visited[fn] || depth > 12 {
		return
	}
	a.visited[fn] = true
	if fn.Blocks == nil || fn.Pkg == nil || !IsRepoPkg(fn.Pkg.Pkg) {
		return
	}
	p, r := a.p, a.r
	a.members = append(a.members, FuncName(fn))
	key := FuncName(fn)
	pos := p.Pos(fn.Pos())
	var bad []string
	if absorbed[fn] {
		return // judged inside its callers, where its channels are known
	}
	fp := pathsAbsorbing(fn)
	seenInstr := map[ssa.Instruction]bool{}
	for _, s := range fp.Segs {
		for _, e := range ownEvents(fn, s.Events) {
			if seenInstr[e.Instr] && e.Kind != EvSelect {
				continue
			}
			seenInstr[e.Instr] = true
			switch e.Kind {
			case EvSend:
				if freshBufferedSend(p, s, e) {
					continue
				}
				bad = append(bad, "raw send at "+p.Pos(e.Instr.Pos())+" (blocks forever once the consumer has left on cancellation)")
			case EvRecv:
				// raw receive / range: the closers of the channel must be members and reach their close
				if src := timerSource(p, s, e.Chan); src != "" {
					continue // config-bounded
				}
				a.awaitClose(e.Chan, fn, p.Pos(e.Instr.Pos()), depth, &bad)
			case EvSelect:
				if !e.Sel.Blocking {
					continue
				}
				hasDone, hasTimer := false, false
				for _, st := range e.Sel.States {
					if st.Dir == types.RecvOnly && isCtxDone(st.Chan) {
						hasDone = true
					}
					if st.Dir == types.RecvOnly && timerSource(p, s, st.Chan) != "" {
						hasTimer = true
					}
				}
				if !hasDone {
					// without a Done case the select is left only through its other cases: every
					// non-timer receive must be on a channel whose closers are themselves in the chain
					nRecv := 0
					for _, st := range e.Sel.States {
						if st.Dir == types.RecvOnly && timerSource(p, s, st.Chan) == "" {
							nRecv++
							a.awaitClose(st.Chan, fn, p.Pos(e.Instr.Pos()), depth, &bad)
						}
						if st.Dir == types.SendOnly {
							bad = append(bad, "select with a send but no ctx.Done() case at "+p.Pos(e.Instr.Pos()))
						}
					}
					if nRecv == 0 && !hasTimer {
						bad = append(bad, "select without a ctx.Done() case at "+p.Pos(e.Instr.Pos()))
					}
				}
			case EvCall:
				if m, recv := waitGroupCall(e.Call); m == "Wait" {
					a.awaitWaitGroup(recv, fn, depth)
					continue
				}
				cf := calleeFull(e.Call)
				switch {
				case cf == "time.Sleep", strings.HasSuffix(cf, ".Take"):
					// configuration-bounded
				case cf == fnReaderRead:
					bad = append(bad, "blocking read from the wire at "+p.Pos(e.Instr.Pos()))
				case cf == fnScannerScan:
					// trusted (C09/C10); still descend into repo wrappers
					for _, impl := range p.Implementers(modPath+"/pkg/scan", "Scanner", "Scan") {
						if recvTypeName(impl) == "rateLimitScanner" || impl.Pkg == p.SPkg("pkg/scan") {
							a.member(impl, "Scanner wrapper", depth+1)
						}
					}
				case IfaceMethod(e.Call) != nil && IfaceMethod(e.Call).Pkg() != nil && IsRepoPkg(IfaceMethod(e.Call).Pkg()):
					m := IfaceMethod(e.Call)
					ipkg, iname := m.Pkg().Path(), ""
					if n, ok := m.Type().(*types.Signature).Recv().Type().(*types.Named); ok {
						iname = n.Obj().Name()
					}
					for _, impl := range p.Implementers(ipkg, iname, m.Name()) {
						a.member(impl, "implements "+iname+"."+m.Name(), depth+1)
					}
				default:
					if f := StaticCallee(e.Call); f != nil && f.Blocks != nil && f.Pkg != nil && IsRepoPkg(f.Pkg.Pkg) {
						if SummGuardedSend(f) != nil {
							continue
						}
						a.member(f, "called by "+FuncName(fn), depth+1)
					}
				}
			}
		}
	}
	bad = dedupe(bad)
	r.Check(len(bad) == 0, "C12.R2", key, pos, "every blocking operation of this await-chain member ("+why+") is ctx-guarded or configuration-bounded", strings.Join(bad, "; "))
}

// freshBufferedSend: a send on a channel made in the same function with a constant capacity that
// covers all sends to it on this loop-free path never blocks.
func freshBufferedSend(p *Prog, s *Seg, e *Event) bool {
	mcs := p.MakeChans(s.Resolve(e.Chan))
	if len(mcs) != 1 || mcs[0].Parent() != s.Fn || s.End != nil || s.Start != s.Fn.Blocks[0] {
		return false
	}
	capacity, ok := constInt(mcs[0].Size)
	if !ok {
		return false
	}
	n := int64(0)
	for _, e2 := range s.Events {
		if e2.Kind == EvSend && p.SameOrigin(e2.Chan, mcs[0]) {
			n++
		}
	}
	return n <= capacity
}

// spawnsGoroutine: the segment starts goroutine g or a goroutine that (transitively) starts g.
func spawnsGoroutine(s *Seg, g *ssa.Function, d int) bool {
	if g == nil || d > 5 {
		return false
	}
	for _, e := range s.Events {
		if e.Kind != EvGo {
			continue
		}
		t := StaticCallee(e.Call)
		if t == g {
			return true
		}
		if t != nil && spawnsTransitively(t, g, d+1) {
			return true
		}
	}
	return false
}

func spawnsTransitively(f, g *ssa.Function, d int) bool {
	if d > 5 {
		return false
	}
	for _, h := range GoClosures(f) {
		if h == g || spawnsTransitively(h, g, d+1) {
			return true
		}
	}
	// synchronous static callees that spawn
	for _, b := range f.Blocks {
		for _, in := range b.Instrs {
			if c, ok := in.(*ssa.Call); ok {
				if t := StaticCallee(&c.Call); t != nil && t != f && t.Blocks != nil && d < 3 {
					for _, h := range GoClosures(t) {
						if h == g {
							return true
						}
					}
				}
			}
		}
	}
	return false
}

// timerSource: channel comes from time.After / Timer.C / Ticker.C.
func timerSource(p *Prog, s *Seg, ch ssa.Value) string {
	for _, o := range p.Origins(ch) {
		if c, ok := o.(*ssa.Call); ok {
			if cf := calleeFull(&c.Call); cf == "time.After" || cf == "time.Tick" {
				return cf
			}
		}
		if b, f, ok := fieldLoad(o); ok && f == "C" && strings.Contains(b.Type().String(), "time.") {
			return "timer.C"
		}
	}
	if b, f, ok := fieldLoad(s.Resolve(ch)); ok && f == "C" && strings.Contains(b.Type().String(), "time.") {
		return "timer.C"
	}
	return ""
}

func (a *awaitState) awaitWaitGroup(wg ssa.Value, fn *ssa.Function, depth int) {
	p := a.p
	roots := p.OriginsIP(wg)
	for _, g := range p.SrcFuncs() {
		if !a.targets[g] {
			continue
		}
		signals := false
		for _, b := range g.Blocks {
			for _, in := range b.Instrs {
				if ci, ok := in.(ssa.CallInstruction); ok {
					if m, recv := waitGroupCall(ci.Common()); m == "Done" {
						for _, o := range p.OriginsIP(recv) {
							for _, w := range roots {
								if o == w {
									signals = true
								}
							}
						}
						// a WaitGroup kept in a struct field: the same field of the same type
						if fa, isFA := wg.(*ssa.FieldAddr); isFA {
							if fb, isFB := recv.(*ssa.FieldAddr); isFB && fieldObj(fa) != nil && fieldObj(fa) == fieldObj(fb) {
								signals = true
							}
						}
					}
				}
			}
		}
		if signals {
			a.member(g, "joined by wg.Wait in "+FuncName(fn), depth+1)
		}
	}
}

// awaitClose: a raw receive on ch terminates only when ch is closed: every closer must be a member.
func (a *awaitState) awaitClose(ch ssa.Value, fn *ssa.Function, at string, depth int, bad *[]string) {
	p := a.p
	mcs := a.makeChansThroughIfaces(ch, 0)
	if len(mcs) == 0 {
		*bad = append(*bad, "unguarded receive at "+at+" from a channel whose creation site cannot be determined")
		return
	}
	for _, mc := range mcs {
		cl := a.closes[mc]
		if len(cl) == 0 {
			*bad = append(*bad, "unguarded receive at "+at+" from a channel (made at "+p.Pos(mc.Pos())+") that is never closed")
			continue
		}
		for _, c := range cl {
			f := c.fn
			if a.deferredFn[f] {
				f = f.Parent()
			}
			// the closing function itself must terminate; if it is not a goroutine, its caller runs it synchronously
			g := goroutineOf(f, a.targets)
			if g != nil {
				a.member(g, "closes the channel awaited at "+at, depth+1)
			} else {
				a.member(f, "closes the channel awaited at "+at, depth+1)
			}
		}
	}
}

// makeChansThroughIfaces resolves a channel value to its make sites, following results of
// interface method calls to every repo implementation.
func (a *awaitState) makeChansThroughIfaces(ch ssa.Value, d int) []*ssa.MakeChan {
	p := a.p
	var out []*ssa.MakeChan
	if d > 6 {
		return nil
	}
	for _, o := range p.OriginsIP(ch) {
		switch t := o.(type) {
		case *ssa.MakeChan:
			out = append(out, t)
		case *ssa.Extract:
			if call, ok := t.Tuple.(*ssa.Call); ok {
				// a thin forwarding adapter: what it returns is what the wrapped interface call returns
				if f := StaticCallee(&call.Call); f != nil && f.Signature.Recv() != nil && f.Blocks != nil && isPlainForwarder(f, f.Name()) {
					if ret, isR := f.Blocks[0].Instrs[len(f.Blocks[0].Instrs)-1].(*ssa.Return); isR && t.Index < len(ret.Results) {
						out = append(out, a.makeChansThroughIfaces(ret.Results[t.Index], d+1)...)
					}
					continue
				}
				if m := IfaceMethod(&call.Call); m != nil && m.Pkg() != nil && IsRepoPkg(m.Pkg()) {
					iname := ""
					if n, ok := m.Type().(*types.Signature).Recv().Type().(*types.Named); ok {
						iname = n.Obj().Name()
					}
					for _, impl := range p.Implementers(m.Pkg().Path(), iname, m.Name()) {
						for _, b := range impl.Blocks {
							for _, in := range b.Instrs {
								if ret, ok := in.(*ssa.Return); ok && t.Index < len(ret.Results) {
									out = append(out, a.makeChansThroughIfaces(ret.Results[t.Index], d+1)...)
								}
							}
						}
					}
				}
			}
		case *ssa.Call:
			if m := IfaceMethod(&t.Call); m != nil && m.Pkg() != nil && IsRepoPkg(m.Pkg()) {
				iname := ""
				if n, ok := m.Type().(*types.Signature).Recv().Type().(*types.Named); ok {
					iname = n.Obj().Name()
				}
				for _, impl := range p.Implementers(m.Pkg().Path(), iname, m.Name()) {
					for _, b := range impl.Blocks {
						for _, in := range b.Instrs {
							if ret, ok := in.(*ssa.Return); ok && len(ret.Results) == 1 {
								out = append(out, a.makeChansThroughIfaces(ret.Results[0], d+1)...)
							}
						}
					}
				}
			}
		}
	}
	return out
}

// ---------------- R3: helpers ----------------

func checkGuardedHelpers(p *Prog, r *Report) {
	n := 0
	for _, fn := range p.SrcFuncs() {
		if fn.Parent() != nil {
			continue
		}
		sig := fn.Signature
		isMethodPut := fn.Signature.Recv() != nil && fn.Name() == "Put" && recvTypeName(fn) == "resultChan"
		if !isMethodPut {
			if sig.Recv() != nil || sig.Params().Len() != 3 || sig.Results().Len() != 0 || !isContextType(sig.Params().At(0).Type()) {
				continue
			}
			ch, ok := sig.Params().At(1).Type().Underlying().(*types.Chan)
			if !ok || ch.Dir() == types.RecvOnly || !types.AssignableTo(sig.Params().At(2).Type(), ch.Elem()) {
				continue // not a (ctx, sendable chan, value) helper
			}
			n++
			g := SummGuardedSend(fn)
			r.Check(g != nil && g.ChanParam == 1 && g.ValParam == 2, "C12.R3", FuncName(fn), p.Pos(fn.Pos()), "a (ctx, chan, value) helper is exactly select{ <-ctx.Done(): return; chan <- value }", "helper body is not a ctx-guarded blocking send (raw send blocks after cancel; default case drops values)")
		}
	}
	r.Count("guarded_send_helpers", n)
}

var _ = token.ADD

func dedupe(in []string) []string {
	seen := map[string]bool{}
	var out []string
	for _, x := range in {
		if !seen[x] {
			seen[x] = true
			out = append(out, x)
		}
	}
	return out
}

// absorbed: small helpers that close channels on behalf of their callers (`abortStart(done, errc, err)`).
// The channel discipline is judged in the callers, with the helper expanded in place, because only there
// the channels, the path (early return, before any goroutine is started) and the goroutine are known.
var absorbed map[*ssa.Function]bool

func closingHelpers(p *Prog) map[*ssa.Function]bool {
	out := map[*ssa.Function]bool{}
	for _, fn := range p.SrcFuncs() {
		if fn.Parent() != nil || fn.Synthetic != "" || !inlineCandidate(fn) {
			continue
		}
		closes := false
		for _, b := range fn.Blocks {
			for _, in := range b.Instrs {
				if c, ok := in.(*ssa.Call); ok {
					if bi, isB := c.Call.Value.(*ssa.Builtin); isB && bi.Name() == "close" {
						if _, isP := c.Call.Args[0].(*ssa.Parameter); isP {
							closes = true
						}
					}
					// ... or hands one of its channel parameters to a guarded-send helper (a thin wrapper that
					// builds the value and sends it): the send belongs to the goroutine of the caller
					if g := StaticCallee(&c.Call); g != nil && SummGuardedSend(g) != nil {
						for _, a := range c.Call.Args {
							if prm, isP := a.(*ssa.Parameter); isP {
								if _, isCh := prm.Type().Underlying().(*types.Chan); isCh {
									closes = true
								}
							}
						}
					}
				}
				if snd, ok := in.(*ssa.Send); ok {
					if _, isP := snd.Chan.(*ssa.Parameter); isP {
						closes = true
					}
				}
			}
		}
		if !closes {
			continue
		}
		sites := p.CallSites(fn)
		ok := len(sites) > 0
		for _, cs := range sites {
			if _, isCall := cs.(*ssa.Call); !isCall || cs.Parent().Pkg != fn.Pkg || cs.Parent() == fn {
				ok = false // started as a goroutine, deferred, or called from elsewhere: analysed on its own
			}
		}
		// no use as a function value
		if ok {
			for _, g := range p.SrcFuncs() {
				for _, b := range g.Blocks {
					for _, in := range b.Instrs {
						if _, isCI := in.(ssa.CallInstruction); isCI {
							continue
						}
						var ops [8]*ssa.Value
						for _, op := range in.Operands(ops[:0]) {
							if op != nil && *op == ssa.Value(fn) {
								ok = false
							}
						}
					}
				}
			}
		}
		if ok {
			out[fn] = true
		}
	}
	return out
}

// pathsAbsorbing: the plain paths, or - for a function that calls an absorbed helper - the paths with
// helpers expanded (ownEvents then drops what belongs to other expanded helpers).
func pathsAbsorbing(fn *ssa.Function) *FnPaths {
	for _, b := range fn.Blocks {
		for _, in := range b.Instrs {
			if c, ok := in.(*ssa.Call); ok && absorbed[StaticCallee(&c.Call)] {
				fp := PathsInl(fn)
				// private copy: the events are filtered by the caller
				cp := *fp
				cp.Segs = nil
				for _, s := range fp.Segs {
					s2 := *s
					cp.Segs = append(cp.Segs, &s2)
				}
				return &cp
			}
		}
	}
	return Paths(fn)
}

// ownEvents keeps the events of fn itself and of absorbed helpers expanded into it.
func ownEvents(fn *ssa.Function, evs []*Event) []*Event {
	var out []*Event
	for _, e := range evs {
		if e.Instr == nil || e.Instr.Parent() == fn || absorbed[e.Instr.Parent()] {
			out = append(out, e)
		}
	}
	return out
}

// startsWithGo: f contains `go g(...)`.
func startsWithGo(f, g *ssa.Function) bool {
	for _, b := range f.Blocks {
		for _, in := range b.Instrs {
			if gi, ok := in.(*ssa.Go); ok && StaticCallee(&gi.Call) == g {
				return true
			}
		}
	}
	return false
}
