package main

// Helpers shared by the stage-contract rules (C07, C08, C12, C13, C19, C20).

import (
	"fmt"
	"go/token"
	"go/types"

	"golang.org/x/tools/go/ssa"
)

// FuncsCalling returns repo functions containing a (call-mode) call matching pred.
func (p *Prog) FuncsCalling(pred func(c *ssa.CallCommon) bool) []*ssa.Function {
	var out []*ssa.Function
	for _, fn := range p.SrcFuncs() {
		hit := false
		for _, b := range fn.Blocks {
			for _, in := range b.Instrs {
				if c, ok := in.(*ssa.Call); ok && pred(&c.Call) {
					hit = true
				}
			}
		}
		if hit {
			out = append(out, fn)
		}
	}
	return out
}

// LoopFuncsCalling returns the repo functions that contain a loop and perform, inside their own
// body or inside a small same-package helper expanded in place (PathsInl), a call matching pred.
// This is how stage loops are found when part of their body was extracted into a helper.
func (p *Prog) LoopFuncsCalling(pred func(c *ssa.CallCommon) bool) []*ssa.Function {
	var out []*ssa.Function
	for _, fn := range p.SrcFuncs() {
		if len(LoopHeaders(fn)) == 0 {
			continue
		}
		hit := false
		for _, s := range PathsInl(fn).Segs {
			for _, e := range s.Events {
				if e.Kind == EvCall && pred(e.Call) {
					hit = true
				}
			}
		}
		if hit {
			out = append(out, fn)
		}
	}
	return out
}

// fieldLoad recognises `*(&x.f)` / `x.f` and returns x and the field name.
func fieldLoad(v ssa.Value) (base ssa.Value, field string, ok bool) {
	switch t := v.(type) {
	case *ssa.UnOp:
		if t.Op == token.MUL {
			if fa, ok := t.X.(*ssa.FieldAddr); ok {
				return fa.X, fieldName(fa.X.Type(), fa.Field), true
			}
		}
	case *ssa.Field:
		return t.X, fieldName(t.X.Type(), t.Field), true
	}
	return nil, "", false
}

// isFieldOf reports whether v (resolved on s) is a load of field `field` of value base.
func isFieldOf(s *Seg, v ssa.Value, base ssa.Value, field string) bool {
	v = s.Resolve(v)
	b, f, ok := fieldLoad(v)
	return ok && f == field && s.Same(b, base)
}

// errFieldFact returns what the segment knows about base.<field> == nil.
func fieldNilFact(s *Seg, base ssa.Value, field string) (known, isNil bool) {
	for _, f := range s.Facts {
		c := f.Cond
		neg := false
		for {
			if u, ok := c.(*ssa.UnOp); ok && u.Op == token.NOT {
				c = u.X
				neg = !neg
				continue
			}
			break
		}
		b, ok := c.(*ssa.BinOp)
		if !ok || (b.Op != token.EQL && b.Op != token.NEQ) {
			continue
		}
		var other ssa.Value
		if isNilConst(b.Y) {
			other = b.X
		} else if isNilConst(b.X) {
			other = b.Y
		} else {
			continue
		}
		if isFieldOf(s, other, base, field) {
			eq := b.Op == token.EQL
			return true, eq == (f.Truth != neg)
		}
		// the option was first stored into a local composite and is tested there
		// (`r := &T{F: o.field}; if r.F == nil {...}`)
		if u, isU := other.(*ssa.UnOp); isU && u.Op == token.MUL {
			if fa, isFA := u.X.(*ssa.FieldAddr); isFA {
				if _, isLocal := fa.X.(*ssa.Alloc); isLocal {
					var last ssa.Value
					for _, e := range s.Events {
						if e.Kind == EvStore && e.Ord < f.Ord {
							if fb, isFB := e.Addr.(*ssa.FieldAddr); isFB && fb.X == fa.X && fb.Field == fa.Field {
								last = e.Val
							}
						}
					}
					if last != nil && isFieldOf(s, last, base, field) {
						eq := b.Op == token.EQL
						return true, eq == (f.Truth != neg)
					}
				}
			}
		}
	}
	return false, false
}

// waitGroupCall classifies calls on *sync.WaitGroup: "Add", "Done", "Wait" and returns the receiver.
func waitGroupCall(c *ssa.CallCommon) (string, ssa.Value) {
	f := c.StaticCallee()
	if f == nil || f.Signature.Recv() == nil {
		return "", nil
	}
	rt := f.Signature.Recv().Type()
	if pt, ok := rt.(*types.Pointer); ok {
		rt = pt.Elem()
	}
	n, ok := rt.(*types.Named)
	if !ok || n.Obj().Pkg() == nil || n.Obj().Pkg().Path() != "sync" || n.Obj().Name() != "WaitGroup" {
		return "", nil
	}
	if len(c.Args) == 0 {
		return "", nil
	}
	return f.Name(), c.Args[0]
}

// segKey builds a stable obligation key for the i-th segment of a region.
func segKey(fn *ssa.Function, what string, i int) string {
	return fmt.Sprintf("%s/%s#%d", FuncName(fn), what, i)
}

// chanElemIs reports whether t is a channel whose element type's string is elem.
func chanElemIs(t types.Type, elem string) bool {
	c, ok := t.Underlying().(*types.Chan)
	return ok && types.TypeString(c.Elem(), nil) == elem
}

// selectDoneChosen reports whether some select on the segment chose its ctx.Done() case.
func selectDoneChosen(s *Seg) bool {
	for _, e := range s.Events {
		if e.Kind == EvSelect && e.Chosen >= 0 {
			st := e.Sel.States[e.Chosen]
			if st.Dir == types.RecvOnly && isCtxDone(st.Chan) {
				return true
			}
		}
	}
	return false
}

// recvClosed reports whether the segment took the `!ok` branch of a comma-ok receive.
func recvClosed(s *Seg) bool {
	for _, rc := range s.Recvs() {
		if rc.Ok != nil {
			if k, v := s.BoolFact(rc.Ok); k && !v {
				return true
			}
		}
	}
	return false
}

// deferredCloses returns the channels closed by deferred close(...) calls of fn, either
// `defer close(ch)` or inside a deferred closure literal.
func deferredCloses(fn *ssa.Function) []ssa.Value {
	var out []ssa.Value
	for _, d := range Deferred(fn) {
		if b, ok := d.Call.Value.(*ssa.Builtin); ok && b.Name() == "close" {
			out = append(out, d.Call.Args[0])
			continue
		}
		if cl := StaticCallee(&d.Call); cl != nil && cl.Parent() == fn {
			for _, b := range cl.Blocks {
				for _, in := range b.Instrs {
					if c, ok := in.(*ssa.Call); ok {
						if bi, ok := c.Call.Value.(*ssa.Builtin); ok && bi.Name() == "close" {
							out = append(out, c.Call.Args[0])
						}
					}
				}
			}
		}
	}
	return out
}

// litFields returns the fields stored into a composite literal (`&T{...}` / `T{...}`) on the segment.
func litFields(s *Seg, v ssa.Value) map[string]ssa.Value {
	v = s.Resolve(v)
	out := map[string]ssa.Value{}
	for _, e := range s.Events {
		if e.Kind != EvStore {
			continue
		}
		if fa, ok := e.Addr.(*ssa.FieldAddr); ok && fa.X == v {
			out[fieldName(fa.X.Type(), fa.Field)] = e.Val
		}
	}
	return out
}

// derivesFromParam reports whether an address is reached from parameter prm through field /
// index address computations and pointer loads (i.e. a write through it mutates state reachable
// from the receiver).
func derivesFromParam(v ssa.Value, prm ssa.Value, d int) bool {
	if d > 10 || v == nil {
		return false
	}
	if v == prm {
		return true
	}
	switch t := v.(type) {
	case *ssa.FieldAddr:
		return derivesFromParam(t.X, prm, d+1)
	case *ssa.IndexAddr:
		return derivesFromParam(t.X, prm, d+1)
	case *ssa.UnOp:
		if t.Op == token.MUL {
			return derivesFromParam(t.X, prm, d+1)
		}
	case *ssa.Slice:
		return derivesFromParam(t.X, prm, d+1)
	case *ssa.ChangeType:
		return derivesFromParam(t.X, prm, d+1)
	case *ssa.Phi:
		for _, e := range t.Edges {
			if derivesFromParam(e, prm, d+1) {
				return true
			}
		}
	case *ssa.FreeVar:
		if b := BindingOf(t); b != nil {
			return derivesFromParam(b, prm, d+1)
		}
	case *ssa.Alloc:
		// a local cell that only ever holds the parameter (`new *T (g); *cell = g`)
		n, all := 0, true
		for _, ref := range *t.Referrers() {
			if st, ok := ref.(*ssa.Store); ok && st.Addr == ssa.Value(t) {
				n++
				if !derivesFromParam(st.Val, prm, d+1) {
					all = false
				}
			}
		}
		return n > 0 && all
	}
	return false
}

// writesThrough lists the stores/map updates/copy-into in fn (and its closures) whose target is
// reachable from parameter prm.
func writesThrough(p *Prog, fn *ssa.Function, prm ssa.Value) []string {
	var out []string
	var visit func(f *ssa.Function)
	visit = func(f *ssa.Function) {
		for _, b := range f.Blocks {
			for _, in := range b.Instrs {
				switch t := in.(type) {
				case *ssa.Store:
					if _, isAlloc := t.Addr.(*ssa.Alloc); isAlloc {
						continue
					}
					if derivesFromParam(t.Addr, prm, 0) {
						out = append(out, "store to "+(*Seg)(nil).term(t.Addr, 0)+" at "+p.Pos(t.Pos()))
					}
				case *ssa.MapUpdate:
					if derivesFromParam(t.Map, prm, 0) {
						out = append(out, "map update at "+p.Pos(t.Pos()))
					}
				case *ssa.Call:
					if b, ok := t.Call.Value.(*ssa.Builtin); ok && b.Name() == "copy" && derivesFromParam(t.Call.Args[0], prm, 0) {
						out = append(out, "copy into receiver state at "+p.Pos(t.Pos()))
					}
				}
			}
		}
		for _, a := range f.AnonFuncs {
			visit(a)
		}
	}
	visit(fn)
	return out
}
