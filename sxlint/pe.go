package main

// PE — the path-effect engine.
//
// A function's control-flow graph is cut at its loop headers; every execution of the
// function is a concatenation of *segments*: acyclic paths that start at the entry block or
// at a loop header and end at a return/panic or at the next loop header they reach (the same
// header = one iteration; another header = entering/leaving a nested loop). Each segment
// carries the ordered effects executed on it and the branch facts that select it. Rules are
// predicates over the finite set of segments, i.e. they quantify over every path of the code.

import (
	"fmt"
	"go/constant"
	"go/token"
	"go/types"
	"sort"
	"strings"

	"golang.org/x/tools/go/ssa"
)

type EvKind int

const (
	EvCall EvKind = iota
	EvGo
	EvDefer
	EvSend
	EvRecv
	EvSelect
	EvClose
	EvStore
	EvReturn
	EvPanic
	EvRunDefers
	EvMapUpdate
	EvNext // range-over-string/map step
)

func (k EvKind) String() string {
	return [...]string{"call", "go", "defer", "send", "recv", "select", "close", "store", "return", "panic", "rundefers", "mapupdate", "next"}[k]
}

type Event struct {
	Kind    EvKind
	Instr   ssa.Instruction
	Ord     int
	Call    *ssa.CallCommon
	Chan    ssa.Value // send/recv/close channel
	Val     ssa.Value // sent / stored value; call result value for EvCall
	Addr    ssa.Value // store address
	Sel     *ssa.Select
	Chosen  int // chosen select state (index into Sel.States), -1 = default, -2 = not determined
	CommaOk bool
}

type Fact struct {
	Cond  ssa.Value
	Truth bool
	Ord   int
}

type Seg struct {
	Fn     *ssa.Function
	Start  *ssa.BasicBlock
	End    *ssa.BasicBlock // loop header reached; nil when the segment leaves the function
	Exit   ssa.Instruction // *ssa.Return or *ssa.Panic when End == nil
	Blocks []*ssa.BasicBlock
	Events []*Event
	Facts  []Fact
	ord    map[ssa.Instruction]int
	pred   map[*ssa.BasicBlock]*ssa.BasicBlock // predecessor of each block on this path
	inl    map[*ssa.Call]*ssa.Return           // helper calls expanded on this path -> the return taken
	bind   map[*ssa.Parameter]ssa.Value        // parameters of expanded helpers -> caller arguments
}

type FnPaths struct {
	Fn        *ssa.Function
	Headers   map[*ssa.BasicBlock]bool
	Segs      []*Seg
	Truncated bool
	Inline    bool // small same-package helpers are expanded in place
}

const maxSegs = 4096

var pathCache = map[*ssa.Function]*FnPaths{}
var pathCacheInl = map[*ssa.Function]*FnPaths{}

// PathsInl enumerates the segments of fn with small same-package helper functions expanded in
// place (see inlinable): rules that describe a stage loop, a parser or a builder use it so that
// extracting part of the body into a helper does not change what they see.
func PathsInl(fn *ssa.Function) *FnPaths {
	if fp, ok := pathCacheInl[fn]; ok {
		return fp
	}
	fp := &FnPaths{Fn: fn, Headers: LoopHeaders(fn), Inline: true}
	pathCacheInl[fn] = fp
	fp.build()
	if fp.Truncated {
		// too many paths once expanded: fall back to the plain enumeration
		plain := Paths(fn)
		pathCacheInl[fn] = plain
		return plain
	}
	return fp
}

// LoopHeaders returns the blocks that are targets of back edges.
func LoopHeaders(fn *ssa.Function) map[*ssa.BasicBlock]bool {
	h := map[*ssa.BasicBlock]bool{}
	for _, b := range fn.Blocks {
		for _, s := range b.Succs {
			if s.Dominates(b) {
				h[s] = true
			}
		}
	}
	return h
}

// Paths enumerates the segments of fn.
func Paths(fn *ssa.Function) *FnPaths {
	if fp, ok := pathCache[fn]; ok {
		return fp
	}
	fp := &FnPaths{Fn: fn, Headers: LoopHeaders(fn)}
	pathCache[fn] = fp
	fp.build()
	return fp
}

func (fp *FnPaths) build() {
	fn := fp.Fn
	if len(fn.Blocks) == 0 {
		return
	}
	starts := []*ssa.BasicBlock{fn.Blocks[0]}
	for _, b := range fn.Blocks {
		if fp.Headers[b] && b != fn.Blocks[0] {
			starts = append(starts, b)
		}
	}
	for _, st := range starts {
		s := &Seg{Fn: fn, Start: st, ord: map[ssa.Instruction]int{}, pred: map[*ssa.BasicBlock]*ssa.BasicBlock{},
			inl: map[*ssa.Call]*ssa.Return{}, bind: map[*ssa.Parameter]ssa.Value{}}
		fp.walkAt(s, st, 0, nil, 0, nil)
	}
}

func (s *Seg) clone() *Seg {
	c := *s
	c.Blocks = append([]*ssa.BasicBlock(nil), s.Blocks...)
	c.Events = append([]*Event(nil), s.Events...)
	c.Facts = append([]Fact(nil), s.Facts...)
	c.ord = make(map[ssa.Instruction]int, len(s.ord))
	for k, v := range s.ord {
		c.ord[k] = v
	}
	c.pred = make(map[*ssa.BasicBlock]*ssa.BasicBlock, len(s.pred))
	for k, v := range s.pred {
		c.pred[k] = v
	}
	c.inl = make(map[*ssa.Call]*ssa.Return, len(s.inl))
	for k, v := range s.inl {
		c.inl[k] = v
	}
	c.bind = make(map[*ssa.Parameter]ssa.Value, len(s.bind))
	for k, v := range s.bind {
		c.bind[k] = v
	}
	return &c
}

// inlFrame is a pending return into the caller of an expanded helper.
type inlFrame struct {
	call  *ssa.Call
	block *ssa.BasicBlock
	idx   int
	fn    *ssa.Function
}

// InlineHelpers switches the expansion of small same-package helper functions in segments.
// A helper extracted from a stage loop / parser / builder is then seen as if it were still in
// place: its events, facts and blocks are spliced into the caller's segment, its parameters
// resolve to the arguments and its result to the value returned on that path.
var InlineHelpers = true

const maxInlineInstrs = 80
const maxInlineDepth = 2

// inlinable decides whether the call is expanded: a direct call of a small, loop-free,
// defer-free, non-recursive function of the same package that is not a guarded-send helper.
func (fp *FnPaths) inlinable(s *Seg, c *ssa.Call, stack []inlFrame) *ssa.Function {
	if !fp.Inline || !InlineHelpers || len(stack) >= maxInlineDepth {
		return nil
	}
	f := c.Call.StaticCallee()
	if f == nil || f.Blocks == nil || f.Pkg == nil || f.Synthetic != "" || f == fp.Fn {
		return nil
	}
	if f.Pkg != fp.Fn.Pkg && !(IsRepoPkg(f.Pkg.Pkg) && pureLeaf(f)) {
		return nil // helpers of other repository packages are expanded only when they are pure leaf predicates
	}
	// a local closure of the analysed function (`report := func(err error) bool {...}`) is expanded like a
	// helper; closures of other functions are not
	if f.Parent() != nil && f.Parent() != fp.Fn {
		return nil
	}
	for _, fr := range stack {
		if fr.fn == f {
			return nil
		}
	}
	if !inlineCandidate(f) {
		return nil
	}
	for _, ob := range s.Blocks {
		if ob.Parent() == f {
			return nil // already expanded once on this path
		}
	}
	return f
}

var inlCand = map[*ssa.Function]int{}

func inlineCandidate(f *ssa.Function) bool {
	if v, ok := inlCand[f]; ok {
		return v == 1
	}
	inlCand[f] = 2
	n := 0
	for _, b := range f.Blocks {
		for _, succ := range b.Succs {
			if succ.Dominates(b) {
				return false // loop
			}
		}
		for _, in := range b.Instrs {
			n++
			switch in.(type) {
			case *ssa.Defer, *ssa.Go, *ssa.RunDefers:
				return false
			}
		}
	}
	if n > maxInlineInstrs || f.Recover != nil {
		return false
	}
	if f.Signature.Variadic() {
		return false
	}
	for i := 0; i < f.Signature.Results().Len(); i++ {
		if _, isFunc := f.Signature.Results().At(i).Type().Underlying().(*types.Signature); isFunc {
			return false // option constructors and the like are summarised, not expanded
		}
	}
	inlCand[f] = 0
	if SummGuardedSend(f) != nil {
		inlCand[f] = 2
		return false
	}
	inlCand[f] = 1
	return true
}

func (fp *FnPaths) walkAt(s *Seg, b *ssa.BasicBlock, start int, from *ssa.BasicBlock, n int, stack []inlFrame) {
	if len(fp.Segs) >= maxSegs {
		fp.Truncated = true
		return
	}
	if start == 0 {
		if from != nil {
			s.pred[b] = from
		}
		if len(stack) == 0 && from != nil && fp.Headers[b] {
			s.End = b
			s.finish()
			fp.Segs = append(fp.Segs, s)
			return
		}
		for _, ob := range s.Blocks {
			if ob == b { // irreducible or unexpected cycle: stop, treat as truncated
				fp.Truncated = true
				return
			}
		}
		s.Blocks = append(s.Blocks, b)
	}
	for i := start; i < len(b.Instrs); i++ {
		in := b.Instrs[i]
		n++
		s.ord[in] = n
		_, isRet := in.(*ssa.Return)
		if ev := eventOf(in); ev != nil && !(isRet && len(stack) > 0) {
			ev.Ord = n
			s.Events = append(s.Events, ev)
		}
		switch t := in.(type) {
		case *ssa.Call:
			if callee := fp.inlinable(s, t, stack); callee != nil {
				for k, prm := range callee.Params {
					if k < len(t.Call.Args) {
						s.bind[prm] = t.Call.Args[k]
					}
				}
				st2 := append(append([]inlFrame(nil), stack...), inlFrame{call: t, block: b, idx: i + 1, fn: callee})
				fp.walkAt(s, callee.Blocks[0], 0, nil, n, st2)
				return
			}
		case *ssa.Return:
			if len(stack) > 0 {
				fr := stack[len(stack)-1]
				s.inl[fr.call] = t
				fp.walkAt(s, fr.block, fr.idx, nil, n, stack[:len(stack)-1])
				return
			}
			s.Exit = t
			s.finish()
			fp.Segs = append(fp.Segs, s)
			return
		case *ssa.Panic:
			s.Exit = t
			s.finish()
			fp.Segs = append(fp.Segs, s)
			return
		case *ssa.Jump:
			fp.walkAt(s, b.Succs[0], 0, b, n, stack)
			return
		case *ssa.If:
			for k, succ := range b.Succs {
				truth := k == 0
				if !s.feasible(t.Cond, truth) {
					continue
				}
				c := s
				if k == 0 {
					c = s.clone()
				}
				cond := t.Cond
				if len(c.inl) > 0 {
					// a test of an expanded helper's boolean result is a test of what it returned
					switch cond.(type) {
					case *ssa.Call, *ssa.Extract:
						if rc := c.Resolve(cond); rc != cond {
							if _, isConst := rc.(*ssa.Const); !isConst {
								cond = rc
							}
						}
					}
				}
				c.Facts = append(c.Facts, Fact{Cond: cond, Truth: truth, Ord: n})
				fp.walkAt(c, succ, 0, b, n, stack)
			}
			return
		}
	}
}

func eventOf(in ssa.Instruction) *Event {
	switch t := in.(type) {
	case *ssa.Call:
		if b, ok := t.Call.Value.(*ssa.Builtin); ok && b.Name() == "close" {
			return &Event{Kind: EvClose, Instr: in, Chan: t.Call.Args[0], Call: &t.Call}
		}
		return &Event{Kind: EvCall, Instr: in, Call: &t.Call, Val: t}
	case *ssa.Go:
		return &Event{Kind: EvGo, Instr: in, Call: &t.Call}
	case *ssa.Defer:
		return &Event{Kind: EvDefer, Instr: in, Call: &t.Call}
	case *ssa.Send:
		return &Event{Kind: EvSend, Instr: in, Chan: t.Chan, Val: t.X}
	case *ssa.UnOp:
		if t.Op == token.ARROW {
			return &Event{Kind: EvRecv, Instr: in, Chan: t.X, Val: t, CommaOk: t.CommaOk}
		}
	case *ssa.Select:
		return &Event{Kind: EvSelect, Instr: in, Sel: t, Chosen: -2}
	case *ssa.Store:
		return &Event{Kind: EvStore, Instr: in, Addr: t.Addr, Val: t.Val}
	case *ssa.MapUpdate:
		return &Event{Kind: EvMapUpdate, Instr: in, Addr: t.Map, Val: t.Value}
	case *ssa.Return:
		return &Event{Kind: EvReturn, Instr: in}
	case *ssa.Panic:
		return &Event{Kind: EvPanic, Instr: in}
	case *ssa.RunDefers:
		return &Event{Kind: EvRunDefers, Instr: in}
	case *ssa.Next:
		return &Event{Kind: EvNext, Instr: in}
	}
	return nil
}

// selectIndexTest recognises `extract(sel,#0) == k`.
func selectIndexTest(v ssa.Value) (*ssa.Select, int64, bool) {
	b, ok := v.(*ssa.BinOp)
	if !ok || b.Op != token.EQL {
		return nil, 0, false
	}
	ex, ok := b.X.(*ssa.Extract)
	if !ok || ex.Index != 0 {
		return nil, 0, false
	}
	sel, ok := ex.Tuple.(*ssa.Select)
	if !ok {
		return nil, 0, false
	}
	c, ok := b.Y.(*ssa.Const)
	if !ok || c.Value == nil {
		return nil, 0, false
	}
	k, ok := constant.Int64Val(c.Value)
	return sel, k, ok
}

// candidates returns the select states still possible under the facts of the segment.
func (s *Seg) candidates(sel *ssa.Select) []int {
	excl := map[int64]bool{}
	for _, f := range s.Facts {
		if fs, k, ok := selectIndexTest(f.Cond); ok && fs == sel {
			if f.Truth {
				return []int{int(k)}
			}
			excl[k] = true
		}
	}
	var out []int
	if !sel.Blocking && !excl[-1] {
		out = append(out, -1)
	}
	for i := range sel.States {
		if !excl[int64(i)] {
			out = append(out, i)
		}
	}
	return out
}

// feasible prunes successors that contradict facts already on the path. Only contradictions
// between facts over the same canonical term are used, so the segment set over-approximates
// the feasible paths.
func (s *Seg) feasible(cond ssa.Value, truth bool) bool {
	if sel, k, ok := selectIndexTest(cond); ok {
		c := s.candidates(sel)
		has := false
		for _, x := range c {
			if int64(x) == k {
				has = true
			}
		}
		if truth {
			return has
		}
		return !(has && len(c) == 1)
	}
	if c, ok := cond.(*ssa.Const); ok && c.Value != nil && c.Value.Kind() == constant.Bool {
		return constant.BoolVal(c.Value) == truth
	}
	if len(s.inl) > 0 {
		if val, known := s.evalInlinedCond(cond); known {
			return val == truth
		}
	}
	key, neg := s.condKey(cond)
	for _, f := range s.Facts {
		k2, n2 := s.condKey(f.Cond)
		if k2 == key && !s.storeBetweenCond(f, cond) {
			if (f.Truth != n2) != (truth != neg) {
				return false
			}
		}
	}
	return true
}

// storeBetweenCond is conservative: conditions over loads are only compared when they are the
// same SSA value or loads from un-stored locations between the two tests.
func (s *Seg) storeBetweenCond(f Fact, cond ssa.Value) bool {
	if f.Cond == cond {
		return false
	}
	// any store or call between the two tests may change memory the terms read
	lo := f.Ord
	for _, e := range s.Events {
		if e.Ord > lo && (e.Kind == EvStore || e.Kind == EvCall || e.Kind == EvRunDefers) {
			if termReadsMemory(f.Cond) {
				return true
			}
		}
	}
	return false
}

func termReadsMemory(v ssa.Value) bool {
	found := false
	var walk func(v ssa.Value, d int)
	walk = func(v ssa.Value, d int) {
		if d > 6 || found {
			return
		}
		switch t := v.(type) {
		case *ssa.UnOp:
			if t.Op == token.MUL {
				found = true
				return
			}
			walk(t.X, d+1)
		case *ssa.BinOp:
			walk(t.X, d+1)
			walk(t.Y, d+1)
		}
	}
	walk(v, 0)
	return found
}

// condKey canonicalises a boolean condition: (key, negated).
func (s *Seg) condKey(v ssa.Value) (string, bool) {
	switch t := v.(type) {
	case *ssa.UnOp:
		if t.Op == token.NOT {
			k, n := s.condKey(t.X)
			return k, !n
		}
	case *ssa.BinOp:
		switch t.Op {
		case token.EQL:
			return "eq(" + s.Term(t.X) + "," + s.Term(t.Y) + ")", false
		case token.NEQ:
			return "eq(" + s.Term(t.X) + "," + s.Term(t.Y) + ")", true
		case token.LSS:
			return "lt(" + s.Term(t.X) + "," + s.Term(t.Y) + ")", false
		case token.GEQ:
			return "lt(" + s.Term(t.X) + "," + s.Term(t.Y) + ")", true
		case token.GTR:
			return "lt(" + s.Term(t.Y) + "," + s.Term(t.X) + ")", false
		case token.LEQ:
			return "lt(" + s.Term(t.Y) + "," + s.Term(t.X) + ")", true
		}
	}
	return "v(" + s.Term(v) + ")", false
}

func (s *Seg) finish() {
	for i, e := range s.Events {
		if e.Kind == EvSelect {
			c := s.candidates(e.Sel)
			if len(c) == 1 {
				e2 := *e // events are shared between sibling segments: copy before annotating
				e2.Chosen = c[0]
				s.Events[i] = &e2
			}
		}
	}
}

// Before reports whether instruction a executes before b on this segment.
func (s *Seg) Before(a, b ssa.Instruction) bool {
	oa, ok1 := s.ord[a]
	ob, ok2 := s.ord[b]
	return ok1 && ok2 && oa < ob
}

func (s *Seg) Has(in ssa.Instruction) bool { _, ok := s.ord[in]; return ok }

// Resolve follows phis whose incoming edge is fixed by this path and loads from local cells
// whose last store on this path is known.
func (s *Seg) Resolve(v ssa.Value) ssa.Value {
	for i := 0; i < 16; i++ {
		switch t := v.(type) {
		case *ssa.Phi:
			b := t.Block()
			p, ok := s.pred[b]
			if !ok || b == s.Start {
				return v // entry / loop-carried
			}
			idx := -1
			for i, pb := range b.Preds {
				if pb == p {
					idx = i
				}
			}
			if idx < 0 {
				return v
			}
			v = t.Edges[idx]
			continue
		case *ssa.UnOp:
			if t.Op == token.MUL {
				if a, ok := t.X.(*ssa.Alloc); ok {
					if st := s.lastStore(a, t); st != nil {
						v = st
						continue
					}
				}
				if fv, ok := t.X.(*ssa.FreeVar); ok {
					if st := s.lastStoreCell(fv, t); st != nil {
						v = st
						continue
					}
				}
			}
			return v
		case *ssa.ChangeType:
			v = t.X
			continue
		case *ssa.ChangeInterface:
			v = t.X
			continue
		case *ssa.Parameter:
			if a, ok := s.bind[t]; ok {
				v = a
				continue
			}
			return v
		case *ssa.Call:
			if ret, ok := s.inl[t]; ok && len(ret.Results) == 1 {
				v = ret.Results[0]
				continue
			}
			return v
		case *ssa.Extract:
			if c, ok := t.Tuple.(*ssa.Call); ok {
				if ret, ok := s.inl[c]; ok && t.Index < len(ret.Results) {
					v = ret.Results[t.Index]
					continue
				}
			}
			return v
		default:
			return v
		}
	}
	return v
}

// evalInlinedCond decides a branch condition whose operands resolve, through an expanded
// helper, to constants: a boolean constant, or a nil test of a value known to be nil / non-nil.
func (s *Seg) evalInlinedCond(cond ssa.Value) (val, known bool) {
	neg := false
	v := cond
	for {
		if u, ok := v.(*ssa.UnOp); ok && u.Op == token.NOT {
			v, neg = u.X, !neg
			continue
		}
		break
	}
	if _, isCall := v.(*ssa.Call); isCall {
		if b, ok := constBool(s.Resolve(v)); ok {
			return b != neg, true
		}
	}
	if ex, isEx := v.(*ssa.Extract); isEx {
		if b, ok := constBool(s.Resolve(ex)); ok {
			return b != neg, true
		}
	}
	if bo, ok := v.(*ssa.BinOp); ok && (bo.Op == token.EQL || bo.Op == token.NEQ) {
		var other ssa.Value
		if isNilConst(bo.Y) {
			other = bo.X
		} else if isNilConst(bo.X) {
			other = bo.Y
		}
		if other != nil {
			switch other.(type) {
			case *ssa.Call, *ssa.Extract, *ssa.UnOp: // (a load of a local cell that holds an expanded helper's result)
				r := s.Resolve(other)
				if r == other {
					return false, false
				}
				if isNilConst(r) {
					return (bo.Op == token.EQL) != neg, true
				}
				nonNil := false
				switch rt := r.(type) {
				case *ssa.MakeInterface, *ssa.Alloc, *ssa.MakeMap, *ssa.MakeSlice, *ssa.MakeChan, *ssa.MakeClosure:
					nonNil = true
				case *ssa.UnOp:
					if rt.Op == token.MUL {
						if _, isG := rt.X.(*ssa.Global); isG && isErrorType(rt.Type()) {
							nonNil = true
						}
					}
				case *ssa.Call:
					switch calleeFull(&rt.Call) {
					case "errors.New", "fmt.Errorf":
						nonNil = true
					}
				}
				if nonNil {
					return (bo.Op == token.NEQ) != neg, true
				}
				// a fact established inside the helper about the very value it returned
				if k, isNil := s.NilFact(r); k {
					return ((bo.Op == token.EQL) == isNil) != neg, true
				}
			}
		}
	}
	return false, false
}

// PhiIn returns the value flowing into a phi of the segment's End header along this path.
func (s *Seg) PhiIn(phi *ssa.Phi) ssa.Value {
	b := phi.Block()
	if s.End != b || len(s.Blocks) == 0 {
		return nil
	}
	// the predecessor is the last block of the segment's own function (blocks of expanded
	// helpers may follow it in the list)
	var last *ssa.BasicBlock
	for i := len(s.Blocks) - 1; i >= 0; i-- {
		if s.Blocks[i].Parent() == b.Parent() {
			last = s.Blocks[i]
			break
		}
	}
	if last == nil {
		return nil
	}
	for i, pb := range b.Preds {
		if pb == last {
			return phi.Edges[i]
		}
	}
	return nil
}

// lastStore returns the value last stored into the local cell a before instruction at on
// this segment, provided nothing in between could have written the cell behind our back.
func (s *Seg) lastStore(a *ssa.Alloc, at ssa.Instruction) ssa.Value {
	limit, ok := s.ord[at]
	if !ok {
		return nil
	}
	captured := allocCaptured(a)
	var val ssa.Value
	for _, e := range s.Events {
		if e.Ord >= limit {
			break
		}
		switch e.Kind {
		case EvStore:
			if e.Addr == a {
				val = e.Val
			}
		case EvRunDefers, EvCall, EvGo:
			if captured {
				if e.Kind == EvRunDefers || calleeCaptures(e.Call, a) {
					val = nil
				}
			}
		}
	}
	return val
}

// lastStoreCell: the value last stored through a captured cell (free variable) earlier on this
// segment; deferred calls in between invalidate it.
func (s *Seg) lastStoreCell(cell ssa.Value, at ssa.Instruction) ssa.Value {
	limit, ok := s.ord[at]
	if !ok {
		return nil
	}
	var val ssa.Value
	for _, e := range s.Events {
		if e.Ord >= limit {
			break
		}
		switch e.Kind {
		case EvStore:
			if e.Addr == cell {
				val = e.Val
			}
		case EvRunDefers:
			val = nil
		}
	}
	return val
}

func allocCaptured(a *ssa.Alloc) bool {
	for _, r := range *a.Referrers() {
		if _, ok := r.(*ssa.MakeClosure); ok {
			return true
		}
	}
	return false
}

func calleeCaptures(c *ssa.CallCommon, a *ssa.Alloc) bool {
	if c == nil {
		return false
	}
	if mc, ok := c.Value.(*ssa.MakeClosure); ok {
		for _, b := range mc.Bindings {
			if b == a {
				return true
			}
		}
		return false
	}
	// a call that receives the cell's address
	for _, arg := range c.Args {
		if arg == a {
			return true
		}
	}
	return false
}

// Term renders a canonical term for a value as seen on this segment.
func (s *Seg) Term(v ssa.Value) string { return s.term(v, 0) }

func (s *Seg) term(v ssa.Value, d int) string {
	if v == nil {
		return "<nil>"
	}
	if d > 12 {
		return v.Name()
	}
	if s != nil {
		v = s.Resolve(v)
	}
	switch t := v.(type) {
	case *ssa.Parameter:
		return "p:" + t.Name()
	case *ssa.FreeVar:
		return "fv:" + t.Name()
	case *ssa.Const:
		if t.Value == nil {
			return "nil"
		}
		return "c:" + t.Value.ExactString()
	case *ssa.Global:
		return "g:" + t.Pkg.Pkg.Name() + "." + t.Name()
	case *ssa.Function:
		return "fn:" + FuncName(t)
	case *ssa.FieldAddr:
		return s.term(t.X, d+1) + ".&" + fieldName(t.X.Type(), t.Field)
	case *ssa.Field:
		return s.term(t.X, d+1) + "." + fieldName(t.X.Type(), t.Field)
	case *ssa.UnOp:
		if t.Op == token.MUL {
			return "*" + s.term(t.X, d+1)
		}
		return t.Op.String() + s.term(t.X, d+1)
	case *ssa.Extract:
		return s.term(t.Tuple, d+1) + "#" + fmt.Sprint(t.Index)
	case *ssa.Convert:
		return "conv(" + s.term(t.X, d+1) + ")"
	case *ssa.MakeInterface:
		return "iface(" + s.term(t.X, d+1) + ")"
	case *ssa.IndexAddr:
		return s.term(t.X, d+1) + "[&" + s.term(t.Index, d+1) + "]"
	case *ssa.BinOp:
		return "(" + s.term(t.X, d+1) + t.Op.String() + s.term(t.Y, d+1) + ")"
	}
	// register names are unique per function only: a value of an expanded helper is qualified
	if in, ok := v.(ssa.Instruction); ok && s != nil && s.Fn != nil && in.Parent() != nil && in.Parent() != s.Fn {
		return in.Parent().Name() + "·" + v.Name()
	}
	return v.Name()
}

func fieldName(t types.Type, i int) string {
	if p, ok := t.Underlying().(*types.Pointer); ok {
		t = p.Elem()
	}
	if st, ok := t.Underlying().(*types.Struct); ok && i < st.NumFields() {
		return st.Field(i).Name()
	}
	return fmt.Sprint(i)
}

// Same reports whether two values denote the same canonical term on this segment.
func (s *Seg) Same(a, b ssa.Value) bool {
	if a == b {
		return true
	}
	return s.Term(a) == s.Term(b)
}

// NilFact reports what the path knows about v == nil: known, isNil.
func (s *Seg) NilFact(v ssa.Value) (known, isNil bool) {
	want := s.Term(v)
	for _, f := range s.Facts {
		c := f.Cond
		neg := false
		for {
			if u, ok := c.(*ssa.UnOp); ok && u.Op == token.NOT {
				c = u.X
				neg = !neg
				continue
			}
			break
		}
		b, ok := c.(*ssa.BinOp)
		if !ok || (b.Op != token.EQL && b.Op != token.NEQ) {
			continue
		}
		var other ssa.Value
		if isNilConst(b.Y) {
			other = b.X
		} else if isNilConst(b.X) {
			other = b.Y
		} else {
			continue
		}
		if s.Term(other) != want {
			continue
		}
		eq := b.Op == token.EQL
		truth := f.Truth != neg
		return true, eq == truth
	}
	return false, false
}

func isNilConst(v ssa.Value) bool {
	c, ok := v.(*ssa.Const)
	return ok && c.Value == nil
}

// BoolFact reports what the path knows about a boolean value: known, value.
func (s *Seg) BoolFact(v ssa.Value) (known, val bool) {
	want := s.Term(v)
	for _, f := range s.Facts {
		c := f.Cond
		neg := false
		for {
			if u, ok := c.(*ssa.UnOp); ok && u.Op == token.NOT {
				c = u.X
				neg = !neg
				continue
			}
			break
		}
		if s.Term(c) == want {
			return true, f.Truth != neg
		}
	}
	return false, false
}

// From returns the segments starting at block b.
func (fp *FnPaths) From(b *ssa.BasicBlock) []*Seg {
	var out []*Seg
	for _, s := range fp.Segs {
		if s.Start == b {
			out = append(out, s)
		}
	}
	return out
}

// Describe renders a segment for diagnostics / replay files.
func (s *Seg) Describe(p *Prog) []string {
	var out []string
	var bl []string
	for _, b := range s.Blocks {
		bl = append(bl, fmt.Sprint(b.Index))
	}
	end := "exit"
	if s.End != nil {
		end = fmt.Sprintf("header b%d", s.End.Index)
	}
	out = append(out, fmt.Sprintf("segment of %s: blocks [%s] -> %s", FuncName(s.Fn), strings.Join(bl, " "), end))
	for _, f := range s.Facts {
		out = append(out, fmt.Sprintf("  fact %s = %v", s.Term(f.Cond), f.Truth))
	}
	for _, e := range s.Events {
		out = append(out, "  "+s.DescribeEvent(p, e))
	}
	return out
}

func (s *Seg) DescribeEvent(p *Prog, e *Event) string {
	pos := p.Pos(e.Instr.Pos())
	switch e.Kind {
	case EvCall, EvGo, EvDefer:
		return fmt.Sprintf("%s %s @%s", e.Kind, CalleeName(e.Call), pos)
	case EvSelect:
		return fmt.Sprintf("select chosen=%d of %d @%s", e.Chosen, len(e.Sel.States), pos)
	case EvSend, EvRecv, EvClose:
		return fmt.Sprintf("%s %s @%s", e.Kind, s.Term(e.Chan), pos)
	case EvStore:
		return fmt.Sprintf("store %s <- %s @%s", s.Term(e.Addr), s.Term(e.Val), pos)
	}
	return fmt.Sprintf("%s @%s", e.Kind, pos)
}

// ---- callee resolution ----

// StaticCallee resolves direct calls, method calls and calls of closure literals.
func StaticCallee(c *ssa.CallCommon) *ssa.Function {
	if c == nil {
		return nil
	}
	if f := c.StaticCallee(); f != nil {
		return f
	}
	return funcOfValue(c.Value, 0)
}

func funcOfValue(v ssa.Value, d int) *ssa.Function {
	if d > 6 || v == nil {
		return nil
	}
	switch t := v.(type) {
	case *ssa.Function:
		return t
	case *ssa.MakeClosure:
		if f, ok := t.Fn.(*ssa.Function); ok {
			return f
		}
	case *ssa.ChangeType:
		return funcOfValue(t.X, d+1)
	case *ssa.UnOp:
		if t.Op == token.MUL {
			// a local cell holding exactly one function value
			if a, ok := t.X.(*ssa.Alloc); ok {
				var only *ssa.Function
				n := 0
				for _, r := range *a.Referrers() {
					if st, ok := r.(*ssa.Store); ok && st.Addr == a {
						n++
						only = funcOfValue(st.Val, d+1)
					}
				}
				if n == 1 {
					return only
				}
			}
			if fv, ok := t.X.(*ssa.FreeVar); ok {
				if b := BindingOf(fv); b != nil {
					if a, ok := b.(*ssa.Alloc); ok {
						var only *ssa.Function
						n := 0
						for _, r := range *a.Referrers() {
							if st, ok := r.(*ssa.Store); ok && st.Addr == a {
								n++
								only = funcOfValue(st.Val, d+1)
							}
						}
						if n == 1 {
							return only
						}
					}
				}
			}
		}
	case *ssa.FreeVar:
		if b := BindingOf(t); b != nil {
			return funcOfValue(b, d+1)
		}
	}
	return nil
}

// BindingOf returns the value bound to a free variable at the (unique) MakeClosure of its function.
func BindingOf(fv *ssa.FreeVar) ssa.Value {
	fn := fv.Parent()
	par := fn.Parent()
	if par == nil {
		return nil
	}
	idx := -1
	for i, f := range fn.FreeVars {
		if f == fv {
			idx = i
		}
	}
	if idx < 0 {
		return nil
	}
	var found ssa.Value
	n := 0
	for _, b := range par.Blocks {
		for _, in := range b.Instrs {
			if mc, ok := in.(*ssa.MakeClosure); ok && mc.Fn == fn {
				n++
				found = mc.Bindings[idx]
			}
		}
	}
	if n == 1 {
		return found
	}
	return nil
}

// IfaceMethod returns the interface method of a dynamic (invoke) call.
func IfaceMethod(c *ssa.CallCommon) *types.Func {
	if c != nil && c.IsInvoke() {
		return c.Method
	}
	return nil
}

// CalleeName is a stable printable name of the callee: "pkg.F", "(*pkg.T).M", "iface pkg.I.M", "builtin close", "dynamic".
func CalleeName(c *ssa.CallCommon) string {
	if c == nil {
		return "<none>"
	}
	if m := IfaceMethod(c); m != nil {
		return "iface " + qualRecv(m) + "." + m.Name()
	}
	if b, ok := c.Value.(*ssa.Builtin); ok {
		return "builtin " + b.Name()
	}
	if f := StaticCallee(c); f != nil {
		return FuncName(f)
	}
	return "dynamic " + c.Value.Name()
}

func qualRecv(m *types.Func) string {
	sig := m.Type().(*types.Signature)
	if r := sig.Recv(); r != nil {
		t := r.Type()
		if p, ok := t.(*types.Pointer); ok {
			t = p.Elem()
		}
		if n, ok := t.(*types.Named); ok {
			pk := ""
			if n.Obj().Pkg() != nil {
				pk = n.Obj().Pkg().Name() + "."
			}
			return pk + n.Obj().Name()
		}
		return t.String()
	}
	return "?"
}

// IsCallTo reports whether the call resolves to the function/method named full, where full is
// "importpath.Func", "(*importpath.T).M" / "(importpath.T).M" for concrete callees or
// "importpath.I.M" for interface methods. Matching is on resolved objects, not text of the call.
func IsCallTo(c *ssa.CallCommon, full string) bool {
	if c == nil {
		return false
	}
	if m := IfaceMethod(c); m != nil {
		return ifaceMethodName(m) == full
	}
	if f := StaticCallee(c); f != nil {
		if f.String() == full || (f.Object() != nil && objFullName(f.Object()) == full) {
			return true
		}
		// a thin adapter method that only forwards to the named interface method stands for it
		if i := strings.LastIndex(full, "."); i >= 0 && f.Signature.Recv() != nil && f.Name() == full[i+1:] && f.Blocks != nil && isPlainForwarder(f, f.Name()) {
			for _, in := range f.Blocks[0].Instrs {
				if ic, ok := in.(*ssa.Call); ok {
					return IsCallTo(&ic.Call, full)
				}
			}
		}
	}
	return false
}

func ifaceMethodName(m *types.Func) string {
	sig := m.Type().(*types.Signature)
	if r := sig.Recv(); r != nil {
		t := r.Type()
		if n, ok := t.(*types.Named); ok && n.Obj().Pkg() != nil {
			return n.Obj().Pkg().Path() + "." + n.Obj().Name() + "." + m.Name()
		}
	}
	if m.Pkg() != nil {
		return m.Pkg().Path() + ".?." + m.Name()
	}
	return m.Name()
}

func objFullName(o types.Object) string {
	if f, ok := o.(*types.Func); ok {
		return f.FullName()
	}
	if o.Pkg() != nil {
		return o.Pkg().Path() + "." + o.Name()
	}
	return o.Name()
}

// ---- summaries ----

// GuardedSend describes a helper whose every path is `select { case <-ctx.Done(): return; case ch <- v: }`.
type GuardedSend struct {
	ChanParam, ValParam int
}

var gsCache = map[*ssa.Function]*GuardedSend{}
var gsDone = map[*ssa.Function]bool{}

// SummGuardedSend recognises guarded-send helpers by their body, whatever they are called.
func SummGuardedSend(fn *ssa.Function) *GuardedSend {
	if fn == nil || len(fn.Blocks) == 0 || fn.Signature.Results().Len() != 0 {
		return nil // a helper that reports whether it sent is expanded in place instead (PathsInl)
	}
	if gsDone[fn] {
		return gsCache[fn]
	}
	gsDone[fn] = true
	fp := Paths(fn)
	if len(fp.Headers) != 0 || fp.Truncated {
		return nil
	}
	var res *GuardedSend
	nSend := 0
	for _, s := range fp.Segs {
		if _, isPanic := s.Exit.(*ssa.Panic); isPanic {
			return nil
		}
		nsel := 0
		for _, e := range s.Events {
			switch e.Kind {
			case EvSelect:
				nsel++
				if !e.Sel.Blocking || len(e.Sel.States) != 2 || e.Chosen < 0 {
					return nil
				}
				var sendSt, recvSt *ssa.SelectState
				for _, st := range e.Sel.States {
					if st.Dir == types.SendOnly {
						sendSt = st
					} else {
						recvSt = st
					}
				}
				if sendSt == nil || recvSt == nil || !isCtxDone(recvSt.Chan) {
					return nil
				}
				cp, ok1 := sendSt.Chan.(*ssa.Parameter)
				vp, ok2 := sendSt.Send.(*ssa.Parameter)
				if !ok1 || !ok2 {
					return nil
				}
				g := &GuardedSend{ChanParam: paramIndex(fn, cp), ValParam: paramIndex(fn, vp)}
				if res != nil && *res != *g {
					return nil
				}
				res = g
				if e.Sel.States[e.Chosen] == sendSt {
					nSend++
				}
			case EvCall:
				if !isCtxDoneCall(e.Call) {
					return nil
				}
			case EvReturn:
			default:
				return nil
			}
		}
		if nsel != 1 {
			return nil
		}
	}
	if res == nil || nSend == 0 {
		return nil
	}
	gsCache[fn] = res
	return res
}

func paramIndex(fn *ssa.Function, p *ssa.Parameter) int {
	for i, q := range fn.Params {
		if q == p {
			return i
		}
	}
	return -1
}

// doneCallOf returns the context.Context.Done() call that produced v, looking through local or
// captured cells assigned exactly once (`done := ctx.Done()` hoisted out of a loop or a goroutine).
func doneCallOf(v ssa.Value, d int) *ssa.Call {
	if d > 6 || v == nil {
		return nil
	}
	switch t := v.(type) {
	case *ssa.Call:
		if isCtxDoneCall(&t.Call) {
			return t
		}
	case *ssa.ChangeType:
		return doneCallOf(t.X, d+1)
	case *ssa.FreeVar:
		if b := BindingOf(t); b != nil {
			return doneCallOf(b, d+1)
		}
	case *ssa.UnOp:
		if t.Op != token.MUL {
			return nil
		}
		cell := t.X
		if fv, ok := cell.(*ssa.FreeVar); ok {
			cell = BindingOf(fv)
		}
		if a, ok := cell.(*ssa.Alloc); ok {
			var only ssa.Value
			n := 0
			for _, ref := range *a.Referrers() {
				if st, ok := ref.(*ssa.Store); ok && st.Addr == ssa.Value(a) {
					n++
					only = st.Val
				}
			}
			if n == 1 {
				return doneCallOf(only, d+1)
			}
		}
		// a struct field that only ever receives ctx.Done() results (`done: ctx.Done()` in the constructor)
		if fa, ok := cell.(*ssa.FieldAddr); ok && theProg != nil {
			if fo := fieldObj(fa); fo != nil {
				st := theProg.StoresToField(fo)
				var c *ssa.Call
				for _, v := range st {
					dc := doneCallOf(v, d+1)
					if dc == nil {
						return nil
					}
					c = dc
				}
				return c
			}
		}
	}
	return nil
}

// isCtxDone recognises a value produced by context.Context.Done().
func isCtxDone(v ssa.Value) bool { return doneCallOf(v, 0) != nil }

func isCtxDoneCall(c *ssa.CallCommon) bool {
	m := IfaceMethod(c)
	return m != nil && m.Name() == "Done" && m.Pkg() != nil && m.Pkg().Path() == "context"
}

// ctxOfDone returns the context value whose Done() channel v is.
func ctxOfDone(v ssa.Value) ssa.Value {
	if c := doneCallOf(v, 0); c != nil {
		return c.Call.Value
	}
	return nil
}

// Emit is a guarded send observed on a segment: either an inline select{Done; ch<-v} whose
// chosen case is the send, or a call to a guarded-send helper.
type Emit struct {
	Ev    *Event
	Chan  ssa.Value
	Val   ssa.Value
	Ctx   ssa.Value
	Raw   bool // unguarded `ch <- v`
	Lossy bool // select with a default case: the value may be dropped
}

// Emits lists the sends performed on the segment (guarded, raw and lossy).
func (s *Seg) Emits() []Emit {
	var out []Emit
	for _, e := range s.Events {
		switch e.Kind {
		case EvSend:
			out = append(out, Emit{Ev: e, Chan: e.Chan, Val: e.Val, Raw: true})
		case EvCall:
			if f := StaticCallee(e.Call); f != nil {
				if g := SummGuardedSend(f); g != nil {
					em := Emit{Ev: e, Chan: e.Call.Args[g.ChanParam], Val: e.Call.Args[g.ValParam]}
					for _, a := range e.Call.Args {
						if isContextType(a.Type()) {
							em.Ctx = a
						}
					}
					out = append(out, em)
				}
			}
		case EvSelect:
			if e.Chosen >= 0 {
				st := e.Sel.States[e.Chosen]
				if st.Dir == types.SendOnly {
					em := Emit{Ev: e, Chan: st.Chan, Val: st.Send, Lossy: !e.Sel.Blocking}
					guarded := false
					for _, o := range e.Sel.States {
						if o.Dir == types.RecvOnly && isCtxDone(o.Chan) {
							guarded = true
							em.Ctx = ctxOfDone(o.Chan)
						}
					}
					if !guarded && !em.Lossy {
						em.Raw = true
					}
					out = append(out, em)
				}
			}
		}
	}
	return out
}

func isContextType(t types.Type) bool {
	n, ok := t.(*types.Named)
	return ok && n.Obj().Pkg() != nil && n.Obj().Pkg().Path() == "context" && n.Obj().Name() == "Context"
}

// Recvs lists the receives performed on the segment: plain `<-ch` and chosen select receive
// cases. ok is the comma-ok value if there is one.
type Recv struct {
	Ev   *Event
	Chan ssa.Value
	Val  ssa.Value // received value (may be nil if discarded)
	Ok   ssa.Value
}

func (s *Seg) Recvs() []Recv {
	var out []Recv
	for _, e := range s.Events {
		switch e.Kind {
		case EvRecv:
			r := Recv{Ev: e, Chan: e.Chan}
			u := e.Instr.(*ssa.UnOp)
			if u.CommaOk {
				for _, ref := range *u.Referrers() {
					if ex, ok := ref.(*ssa.Extract); ok {
						if ex.Index == 0 {
							r.Val = ex
						} else {
							r.Ok = ex
						}
					}
				}
			} else {
				r.Val = u
			}
			out = append(out, r)
		case EvSelect:
			if e.Chosen >= 0 && e.Sel.States[e.Chosen].Dir == types.RecvOnly {
				r := Recv{Ev: e, Chan: e.Sel.States[e.Chosen].Chan}
				// tuple layout: index, recvOk, then one value per receive state in order
				ri := 0
				for i, st := range e.Sel.States {
					if st.Dir == types.RecvOnly {
						if i == e.Chosen {
							break
						}
						ri++
					}
				}
				for _, ref := range *e.Sel.Referrers() {
					if ex, ok := ref.(*ssa.Extract); ok {
						if ex.Index == 1 {
							r.Ok = ex
						} else if ex.Index == 2+ri {
							r.Val = ex
						}
					}
				}
				out = append(out, r)
			}
		}
	}
	return out
}

// CallsTo returns the call events (not go/defer) on the segment whose callee matches pred.
func (s *Seg) CallsWhere(pred func(c *ssa.CallCommon) bool) []*Event {
	var out []*Event
	for _, e := range s.Events {
		if e.Kind == EvCall && pred(e.Call) {
			out = append(out, e)
		}
	}
	return out
}

func (s *Seg) CallsTo(full string) []*Event {
	return s.CallsWhere(func(c *ssa.CallCommon) bool { return IsCallTo(c, full) })
}

// ExitsFunction reports whether the segment leaves the function by return.
func (s *Seg) Returns() bool { _, ok := s.Exit.(*ssa.Return); return ok && s.End == nil }
func (s *Seg) Panics() bool  { _, ok := s.Exit.(*ssa.Panic); return ok && s.End == nil }

// IsBuilderPanicTail: the SSA builder's unreachable "blocking select matched no case" block.
func (s *Seg) IsSelectPanicTail() bool {
	if !s.Panics() {
		return false
	}
	p := s.Exit.(*ssa.Panic)
	if mi, ok := p.X.(*ssa.MakeInterface); ok {
		if c, ok := mi.X.(*ssa.Const); ok && c.Value != nil && c.Value.Kind() == constant.String {
			return strings.HasPrefix(constant.StringVal(c.Value), "blocking select matched no case")
		}
	}
	return false
}

// Deferred returns the deferred calls registered in fn (in registration order).
func Deferred(fn *ssa.Function) []*ssa.Defer {
	var out []*ssa.Defer
	for _, b := range fn.Blocks {
		for _, in := range b.Instrs {
			if d, ok := in.(*ssa.Defer); ok {
				out = append(out, d)
			}
		}
	}
	return out
}

// sortedSegKeys helps deterministic output.
func segSig(s *Seg) string {
	var parts []string
	for _, b := range s.Blocks {
		parts = append(parts, fmt.Sprint(b.Index))
	}
	return strings.Join(parts, ".")
}

func sortSegs(segs []*Seg) {
	sort.SliceStable(segs, func(i, j int) bool { return segSig(segs[i]) < segSig(segs[j]) })
}

var pureLeafCache = map[*ssa.Function]bool{}

// pureLeaf: a package-level function without side effects and without calls (builtins aside): no store, send,
// go, defer, map update or call of another function - e.g. a shared predicate over its arguments.
func pureLeaf(f *ssa.Function) bool {
	if v, ok := pureLeafCache[f]; ok {
		return v
	}
	ok := f.Parent() == nil && f.Signature.Recv() == nil && f.Signature.Results().Len() > 0
	for i := 0; i < f.Signature.Results().Len(); i++ {
		if _, isBasic := f.Signature.Results().At(i).Type().Underlying().(*types.Basic); !isBasic {
			ok = false // predicates and arithmetic only: constructors stay visible as calls
		}
	}
	for _, b := range f.Blocks {
		for _, in := range b.Instrs {
			switch t := in.(type) {
			case *ssa.Store, *ssa.Send, *ssa.Go, *ssa.Defer, *ssa.MapUpdate, *ssa.MakeClosure, *ssa.Select:
				ok = false
			case *ssa.Call:
				if _, isB := t.Call.Value.(*ssa.Builtin); !isB {
					ok = false
				}
			}
		}
	}
	pureLeafCache[f] = ok
	return ok
}
