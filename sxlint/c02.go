package main

import (
	"fmt"
	"go/token"
	"go/types"
	"sort"
	"strings"

	"golang.org/x/tools/go/ssa"
)

func init() {
	register(&propDef{
		ID: "C02",
		Explanation: "Static conformance of target confinement: (R1) IPv4 typestate — every pkg/ip function returning (*net.IPNet, error) returns, on each accepting path, either a net.ParseCIDR result guarded by a folded 4-byte test (len(IP)==4, len(Mask)==4, 32 mask bits, or refusal of every text containing ':'), or a fresh IPNet{IP: x.To4() tested non-nil, Mask: 32-bit 4-byte mask} on a path that refuses ':' forms; " +
			"(R2) who-may-write — every store to scan.Range.DstSubnet takes nil or a value whose every origin lies inside an R1 function (this discharges the 4-byte FillBytes obligation of the address generator); (R3) exclusion wiring — on every path to scan.NewPacketSource / scan.NewScanEngine in package command the request generator is wrapped by the exclusion filter over opts.excludeIPs exactly when that field is non-nil (directly or through a summarised builder whose deferred closure wraps the result), excludeIPs is written only from the exclusion-file parser, and that parser inserts the network of every accepted line; " +
			"(R4) filter stage contract — Contains is asked about the request's own DstIP, covered => no forward, not covered => exactly one forward of the same request, container error => one forward carrying the error; (R5) the exclusion file is read completely or refused.",
		NotDecided:  []string{"correctness of the cidranger trie (membership oracle)", "which destination a probe carries (C05) and which requests are generated (C01)", "net.ParseCIDR / net.ParseIP grammar"},
		Assumptions: []string{"net.ParseCIDR returns IP and Mask of equal length (4 for dotted-quad text, 16 otherwise)", "every textual IPv6 form contains ':'", "net.IP.To4 returns a 4-byte slice or nil", "net.CIDRMask(32,32) is a 4-byte mask"},
		Run:         runC02,
	})
}

const ipContainerT = modPath + "/pkg/scan.IPContainer"
const reqGenT = modPath + "/pkg/scan.RequestGenerator"

func runC02(p *Prog, r *Report) {
	r.Min("C02.R1", 2)
	r.Min("C02.R2", 2)
	r.Min("C02.R3", 6+2+1)
	r.Min("C02.R4", 4)
	r.Min("C02.R5", 2)
	okFns := checkIPv4Typestate(p, r)
	checkDstSubnetWriters(p, r, okFns)
	checkPositionalTarget(p, r, okFns)
	// --exclude is parsed on every option combination (a parse step left early ignores the exclusion file)
	if checkEveryOptionParsed(p, r, "C02.R3", func(f string) bool { return f == "excludeIPs" }) < 2 {
		r.Viol("C02.R3", "exclude-parsed/sites", "-", "both option families derive the exclusion list", "fewer than 2")
	}
	checkExclusionWiring(p, r)
	checkFilterStage(p, r)
	for _, fn := range parserSet(p) {
		if fn.Signature.Results().Len() == 2 && types.TypeString(fn.Signature.Results().At(0).Type(), nil) == ipContainerT {
			checkScannerDiscipline(p, r, fn, "C02.R5")
		}
	}
	r.Min("C02.R6", 1+2+2)
	checkDirectConnections(p, r)
	// R8: the addresses and ports generated for a subnet / port range lie inside it: the iterator's running
	// value starts at the masked network address, covers exactly the subnet's size and is rendered to a
	// fixed 4-byte address (C01.R5 re-evaluated; a left-aligned big.Int.Bytes() rendering shifts 0.1.2.5 to
	// 1.2.5.0 - an address outside the target set that the exclusion list was never asked about)
	r.Min("C02.R8", 6)
	{
		sub1 := NewReport("C02x", "quick")
		checkIteratorEmission(p, sub1)
		for _, o := range sub1.Obs {
			if o.Rule == "C01.R5" {
				o2 := *o
				o2.Rule = "C02.R8"
				r.Obs = append(r.Obs, &o2)
			}
		}
	}
	// R7: the address the exclusion stage approved is the address that is probed: the generators hand over
	// addresses and requests whose storage they never write again (no ring / scratch reuse)
	r.Min("C02.R7", 5)
	checkHandOverFreshness(p, r, "C02.R7", func(fn *ssa.Function) bool {
		return fn.Pkg == p.SPkg("pkg/scan") || fn.Pkg == p.SPkg("pkg/scan/arp")
	})
}

// checkDirectConnections (R6): the application probes open their TCP connection to the target itself.
// (a) nothing in the repository uses net/http's ambient client or transport (both honour HTTP_PROXY /
// HTTPS_PROXY: the peer of the connection would be the proxy, an address outside the target set);
// (b) every http.Transport is allocated here, and neither a proxy nor a custom dial function is installed;
// (c) every http.Client gets such a transport.
func checkDirectConnections(p *Prog, r *Report) {
	ambient := map[string]bool{
		"net/http.DefaultTransport": true, "net/http.DefaultClient": true,
		"net/http.Get": true, "net/http.Head": true, "net/http.Post": true, "net/http.PostForm": true,
		"net/http.ProxyFromEnvironment": true, "net/http.ProxyURL": true, "(*net/http.Transport).Clone": true,
	}
	var uses []string
	var transports, clients []*ssa.Alloc
	for _, fn := range p.SrcFuncs() {
		for _, b := range fn.Blocks {
			for _, in := range b.Instrs {
				var ops [12]*ssa.Value
				for _, op := range in.Operands(ops[:0]) {
					if op == nil || *op == nil {
						continue
					}
					switch t := (*op).(type) {
					case *ssa.Global:
						if t.Pkg != nil && ambient[t.Pkg.Pkg.Path()+"."+t.Name()] {
							uses = append(uses, t.Pkg.Pkg.Path()+"."+t.Name()+" in "+FuncName(fn))
						}
					case *ssa.Function:
						if ambient[t.String()] {
							uses = append(uses, t.String()+" in "+FuncName(fn))
						}
					}
				}
				if a, ok := in.(*ssa.Alloc); ok {
					switch types.TypeString(a.Type(), nil) {
					case "*net/http.Transport":
						transports = append(transports, a)
					case "*net/http.Client":
						clients = append(clients, a)
					}
				}
			}
		}
	}
	sort.Strings(uses)
	r.Check(len(uses) == 0, "C02.R6", "no-ambient-http", "-", "no use of net/http's default client / transport / proxy helpers (they route connections through HTTP_PROXY)", strings.Join(uses, "; "))
	redirecting := map[string]bool{"Proxy": true, "DialContext": true, "Dial": true, "DialTLS": true, "DialTLSContext": true}
	good := map[*ssa.Alloc]bool{}
	perFn := map[*ssa.Function]int{}
	for _, a := range transports {
		perFn[a.Parent()]++
		i := perFn[a.Parent()] - 1
		bad := ""
		for _, ref := range *a.Referrers() {
			if fa, ok := ref.(*ssa.FieldAddr); ok {
				if f := fieldName(fa.X.Type(), fa.Field); redirecting[f] {
					for _, r2 := range *fa.Referrers() {
						if st, isSt := r2.(*ssa.Store); isSt && !isNilConst(st.Val) {
							bad = "field " + f + " is set"
						}
					}
				}
			}
		}
		good[a] = bad == ""
		r.Check(bad == "", "C02.R6", fmt.Sprintf("%s/transport#%d", FuncName(a.Parent()), i+1), p.Pos(a.Pos()), "the HTTP transport connects to the request's own host: no proxy and no custom dial function", bad)
	}
	perFn = map[*ssa.Function]int{}
	for _, a := range clients {
		perFn[a.Parent()]++
		i := perFn[a.Parent()] - 1
		ok, why := false, "Transport is not set (the default transport honours HTTP_PROXY)"
		for _, ref := range *a.Referrers() {
			if fa, isFA := ref.(*ssa.FieldAddr); isFA && fieldName(fa.X.Type(), fa.Field) == "Transport" {
				for _, r2 := range *fa.Referrers() {
					if st, isSt := r2.(*ssa.Store); isSt {
						ok, why = true, ""
						for _, o := range p.Origins(st.Val) {
							if ta, isA := o.(*ssa.Alloc); !isA || !good[ta] {
								ok, why = false, "Transport is "+(*Seg)(nil).term(st.Val, 0)+", not a transport allocated and checked here"
							}
						}
					}
				}
			}
		}
		r.Check(ok, "C02.R6", fmt.Sprintf("%s/client#%d", FuncName(a.Parent()), i+1), p.Pos(a.Pos()), "the HTTP client uses a transport allocated here without proxy", why)
	}
}

// ---- R1 ----

func ipNetFuncs(p *Prog) []*ssa.Function {
	var out []*ssa.Function
	for _, fn := range p.SrcFuncs() {
		if fn.Parent() != nil || fn.Pkg != p.SPkg("pkg/ip") {
			continue
		}
		sig := fn.Signature
		if sig.Results().Len() == 2 && isErrorType(sig.Results().At(1).Type()) && types.TypeString(sig.Results().At(0).Type(), nil) == "*net.IPNet" {
			out = append(out, fn)
		}
	}
	return out
}

// refusesColon: the path carries the fact strings.Contains(<string param>, ":") == false.
func refusesColon(s *Seg) bool {
	isColonArg := func(v ssa.Value) bool {
		if cs, ok := constString(v); ok && cs == ":" {
			return true
		}
		if ci, ok := constInt(v); ok && ci == ':' {
			return true
		}
		return false
	}
	for _, f := range s.Facts {
		c := f.Cond
		neg := false
		for {
			if u, ok := c.(*ssa.UnOp); ok && u.Op == token.NOT {
				c, neg = u.X, !neg
				continue
			}
			break
		}
		truth := f.Truth != neg
		// strings.Contains*(param, ":") == false
		if call, ok := c.(*ssa.Call); ok {
			cf := calleeFull(&call.Call)
			if cf == "strings.Contains" || cf == "strings.ContainsRune" || cf == "strings.ContainsAny" {
				if _, isParam := s.Resolve(call.Call.Args[0]).(*ssa.Parameter); isParam && isColonArg(call.Call.Args[1]) && !truth {
					return true
				}
			}
			continue
		}
		// strings.Index*(param, ":") compared with -1 / 0: "not found"
		bo, ok := c.(*ssa.BinOp)
		if !ok {
			continue
		}
		call, ok := s.Resolve(bo.X).(*ssa.Call)
		if !ok {
			continue
		}
		cf := calleeFull(&call.Call)
		if !strings.HasPrefix(cf, "strings.Index") && !strings.HasPrefix(cf, "strings.LastIndex") {
			continue
		}
		if _, isParam := s.Resolve(call.Call.Args[0]).(*ssa.Parameter); !isParam || !isColonArg(call.Call.Args[1]) {
			continue
		}
		at := func(val int64) (bool, bool) {
			return EvalCond(s, bo, func(v ssa.Value) (int64, bool) {
				if s.Resolve(v) == ssa.Value(call) {
					return val, true
				}
				return 0, false
			})
		}
		notFound, ok1 := at(-1)
		found0, ok2 := at(0)
		found5, ok3 := at(5)
		if ok1 && ok2 && ok3 && notFound == truth && found0 != truth && found5 != truth {
			return true
		}
	}
	return false
}

// fieldLenFacts folds the facts that compare len(X.field) with constants at len == n.
func fieldLenFactsAllow(s *Seg, base ssa.Value, field string, n int64) (allowed, mentioned bool) {
	isLen := func(v ssa.Value) bool {
		c, ok := v.(*ssa.Call)
		if !ok {
			return false
		}
		b, ok := c.Call.Value.(*ssa.Builtin)
		if !ok || b.Name() != "len" {
			return false
		}
		bb, f, ok := fieldLoad(s.Resolve(c.Call.Args[0]))
		return ok && f == field && s.Resolve(bb) == base
	}
	bind := func(v ssa.Value) (int64, bool) {
		if isLen(v) {
			return n, true
		}
		return 0, false
	}
	allowed = true
	for _, f := range s.Facts {
		bo, ok := f.Cond.(*ssa.BinOp)
		if !ok || !(isLen(bo.X) || isLen(bo.Y)) {
			continue
		}
		mentioned = true
		if b, ok := EvalCond(s, f.Cond, bind); ok && b != f.Truth {
			allowed = false
		}
	}
	return
}

// maskBits32: the path carries `bits == 32` for (ones, bits) := X.Mask.Size().
func maskBits32(s *Seg, base ssa.Value) bool {
	for _, f := range s.Facts {
		bo, ok := f.Cond.(*ssa.BinOp)
		if !ok {
			continue
		}
		for _, side := range []ssa.Value{bo.X, bo.Y} {
			ex, ok := s.Resolve(side).(*ssa.Extract)
			if !ok || ex.Index != 1 {
				continue
			}
			c, ok := ex.Tuple.(*ssa.Call)
			if !ok || calleeFull(&c.Call) != "(net.IPMask).Size" {
				continue
			}
			bb, fld, ok := fieldLoad(s.Resolve(c.Call.Args[0]))
			if !ok || fld != "Mask" || s.Resolve(bb) != base {
				continue
			}
			b32, k32 := EvalCond(s, bo, func(v ssa.Value) (int64, bool) {
				if s.Resolve(v) == ssa.Value(ex) {
					return 32, true
				}
				return 0, false
			})
			b128, k128 := EvalCond(s, bo, func(v ssa.Value) (int64, bool) {
				if s.Resolve(v) == ssa.Value(ex) {
					return 128, true
				}
				return 0, false
			})
			if k32 && k128 && b32 == f.Truth && b128 != f.Truth {
				return true
			}
		}
	}
	return false
}

func checkIPv4Typestate(p *Prog, r *Report) map[*ssa.Function]bool {
	good := map[*ssa.Function]bool{}
	fns := ipNetFuncs(p)
	if len(fns) == 0 {
		r.Undecided("C02.R1", "target parser", "-", "pkg/ip declares a function returning (*net.IPNet, error)", "none found")
		return good
	}
	for _, fn := range fns {
		name := FuncName(fn)
		fp := Paths(fn)
		allOK := true
		if len(fp.Headers) > 0 || fp.Truncated {
			r.Undecided("C02.R1", name, p.Pos(fn.Pos()), "the target parser is loop-free", "loop / too many paths")
			continue
		}
		nCIDR, nHost := 0, 0
		for _, s := range fp.Segs {
			if !s.Returns() {
				continue
			}
			rc := retClass(s)
			if rc == retFail {
				continue
			}
			rv := s.Resolve(s.Exit.(*ssa.Return).Results[0])
			pos := p.Pos(s.Exit.Pos())
			switch t := rv.(type) {
			case *ssa.Extract:
				call, isCall := t.Tuple.(*ssa.Call)
				if !isCall || calleeFull(&call.Call) != "net.ParseCIDR" || t.Index != 1 {
					r.Undecided("C02.R1", name+"/return-other", pos, "the accepted network comes from net.ParseCIDR or a fresh IPNet", "returned "+s.Term(rv))
					allOK = false
					continue
				}
				nCIDR++
				a16ip, mip := fieldLenFactsAllow(s, t, "IP", 16)
				a4ip, _ := fieldLenFactsAllow(s, t, "IP", 4)
				a16m, mm := fieldLenFactsAllow(s, t, "Mask", 16)
				a4m, _ := fieldLenFactsAllow(s, t, "Mask", 4)
				v4 := (mip && !a16ip && a4ip) || (mm && !a16m && a4m) || maskBits32(s, t) || refusesColon(s)
				// a call that rewrites the result's address (To4 normalisation) does not make an IPv6 block IPv4
				if !r.Check(v4, "C02.R1", name+"/cidr-accept", pos, "a CIDR block is accepted only under a 4-byte test of its address or mask (IPv6 and IPv4-mapped IPv6 blocks are refused, never reinterpreted)",
					"an accepting path returns the net.ParseCIDR result without establishing the 4-byte form: an IPv6 CIDR reaches the 4-byte address arithmetic of the generator", s.Describe(p)...) {
					allOK = false
				}
			case *ssa.Alloc:
				if types.TypeString(t.Type(), nil) != "*net.IPNet" {
					r.Undecided("C02.R1", name+"/return-other", pos, "the accepted network comes from net.ParseCIDR or a fresh IPNet", "returned "+s.Term(rv))
					allOK = false
					continue
				}
				nHost++
				lf := litFields(s, t)
				okIP, why := false, "IP field is not a nil-tested To4() result"
				if ipv, has := lf["IP"]; has {
					if c, isC := s.Resolve(ipv).(*ssa.Call); isC && calleeFull(&c.Call) == "(net.IP).To4" {
						if known, isNil := s.NilFact(c); known && !isNil {
							okIP = true
						} else {
							why = "To4() result stored without a nil test (nil for IPv6 hosts: becomes 0.0.0.0)"
						}
					}
					// the net/netip spelling: AsSlice() of an address for which Is4() holds on this path (4 bytes;
					// Is4 is false for IPv4-mapped IPv6 and for zoned addresses), parsed by netip.ParseAddr
					if c, isC := s.Resolve(ipv).(*ssa.Call); isC && calleeFull(&c.Call) == "(net/netip.Addr).AsSlice" && len(c.Call.Args) == 1 {
						av := s.Resolve(c.Call.Args[0])
						parsed := false
						if ex, isEx := av.(*ssa.Extract); isEx && ex.Index == 0 {
							if pc, isPC := ex.Tuple.(*ssa.Call); isPC && calleeFull(&pc.Call) == "net/netip.ParseAddr" {
								parsed = true
							}
						}
						is4 := false
						for _, f := range s.Facts {
							if fc, isFC := f.Cond.(*ssa.Call); isFC && f.Truth && calleeFull(&fc.Call) == "(net/netip.Addr).Is4" && len(fc.Call.Args) == 1 && s.Resolve(fc.Call.Args[0]) == av {
								is4 = true
							}
						}
						if parsed && is4 {
							okIP = true
						} else {
							why = "AsSlice() of an address that is not established as Is4() on this path"
						}
					}
				}
				okMask := false
				if mv, has := lf["Mask"]; has {
					if c, isC := s.Resolve(mv).(*ssa.Call); isC {
						switch calleeFull(&c.Call) {
						case "net.CIDRMask":
							ones, o1 := constInt(c.Call.Args[0])
							bits, o2 := constInt(c.Call.Args[1])
							okMask = o1 && o2 && bits == 32 && ones == 32
						case "net.IPv4Mask":
							okMask = true
							for _, a := range c.Call.Args {
								if v, ok := constInt(a); !ok || v != 255 {
									okMask = false
								}
							}
						}
					}
				}
				if !okMask {
					why = "Mask is not the /32 4-byte mask"
				}
				colon := refusesColon(s)
				if okIP && okMask && !colon {
					why = "IPv4-mapped IPv6 text (\"::ffff:a.b.c.d\") is accepted and reinterpreted as an IPv4 host"
				}
				if !r.Check(okIP && okMask && colon, "C02.R1", name+"/host-accept", pos, "a single host is accepted only as IPNet{To4() != nil, /32 4-byte mask} on a path that refuses every ':' form", why, s.Describe(p)...) {
					allOK = false
				}
			default:
				if isNilConst(rv) && rc == retUnknown {
					continue
				}
				r.Undecided("C02.R1", name+"/return-other", pos, "the accepted network comes from net.ParseCIDR or a fresh IPNet", "returned "+s.Term(rv))
				allOK = false
			}
		}
		if nCIDR+nHost == 0 {
			r.Undecided("C02.R1", name, p.Pos(fn.Pos()), "the parser has an accepting path", "none")
			continue
		}
		if allOK {
			good[fn] = true
		}
	}
	return good
}

// ---- R2 ----

func checkDstSubnetWriters(p *Prog, r *Report, okFns map[*ssa.Function]bool) {
	n := 0
	for _, fn := range p.SrcFuncs() {
		k := 0
		for _, b := range fn.Blocks {
			for _, in := range b.Instrs {
				st, ok := in.(*ssa.Store)
				if !ok {
					continue
				}
				fa, ok := st.Addr.(*ssa.FieldAddr)
				if !ok {
					continue
				}
				fv := fieldObj(fa)
				if fv == nil || fv.Name() != "DstSubnet" || fv.Pkg() == nil || fv.Pkg().Path() != modPath+"/pkg/scan" {
					continue
				}
				n++
				k++
				key := fmt.Sprintf("%s/DstSubnet-store#%d", FuncName(fn), k)
				var bad []string
				for _, o := range p.OriginsIP(st.Val) {
					if isNilConst(o) {
						continue
					}
					var par *ssa.Function
					if in, ok := o.(ssa.Instruction); ok {
						par = in.Parent()
					}
					if par != nil && okFns[par] {
						continue
					}
					bad = append(bad, (*Seg)(nil).term(o, 0)+" in "+FuncName(par))
				}
				r.Check(len(bad) == 0, "C02.R2", key, p.Pos(st.Pos()), "the target subnet of a scan range is nil or a network produced by the IPv4-only target parser", "origins outside the parser: "+strings.Join(bad, "; "))
			}
		}
	}
	r.Count("DstSubnet_stores", n)
}

// checkPositionalTarget (R2): a target argument on the command line is never skipped. Every function of
// package command that hands an element of its []string parameter (cobra's positional arguments) to the
// IPv4-only target parser does so on every path on which an argument may be present: a returning path
// without the parser call either fails, or is taken only when the argument list is empty. (A command line
// such as `-f file 2001:db8::/64` is refused, not silently scanned from the file.)
func checkPositionalTarget(p *Prog, r *Report, okFns map[*ssa.Function]bool) {
	n := 0
	for _, fn := range p.SrcFuncs() {
		if fn.Pkg != p.SPkg("command") {
			continue
		}
		var args *ssa.Parameter
		for _, b := range fn.Blocks {
			for _, in := range b.Instrs {
				c, ok := in.(*ssa.Call)
				if !ok || !okFns[StaticCallee(&c.Call)] || len(c.Call.Args) == 0 {
					continue
				}
				for _, o := range p.Origins(c.Call.Args[0]) {
					if u, isU := o.(*ssa.UnOp); isU && u.Op == token.MUL {
						if ia, isIA := u.X.(*ssa.IndexAddr); isIA {
							if prm, isP := ia.X.(*ssa.Parameter); isP && prm.Parent() == fn {
								if sl, isS := prm.Type().Underlying().(*types.Slice); isS && types.TypeString(sl.Elem(), nil) == "string" {
									args = prm
								}
							}
						}
					}
				}
			}
		}
		if args == nil {
			continue
		}
		n++
		name := FuncName(fn) + "/positional-target"
		pos := p.Pos(fn.Pos())
		fp := Paths(fn)
		if fp.Truncated {
			r.Undecided("C02.R2", name, pos, "the paths of the function that parses the target argument can be enumerated", "too many paths")
			continue
		}
		ok, why := true, ""
		var path []string
		for _, s := range fp.Segs {
			if !s.Returns() {
				continue
			}
			parsed := len(s.CallsWhere(func(c *ssa.CallCommon) bool { return okFns[StaticCallee(c)] })) > 0
			if parsed || retClass(s) == retFail {
				continue
			}
			if lenFactsAllow(s, args, 1, nil) || lenFactsAllow(s, args, 2, nil) {
				ok, why = false, "a path returns without failing and without parsing the target argument although the argument list may be non-empty on it (a non-IPv4 target is accepted silently)"
				path = s.Describe(p)
			}
		}
		r.Check(ok, "C02.R2", name, pos, "a target argument that is present is always handed to the IPv4-only target parser (paths that skip it fail or have an empty argument list)", why, path...)
	}
	// every command hands its positional argument to the target parser: the parser is statically reachable
	// from each of the RunE closures, and at least one function that indexes the argument list was examined
	nCmd, missing := 0, ""
	for _, fn := range p.SrcFuncs() {
		if fn.Pkg != p.SPkg("command") || !isRunE(fn) {
			continue
		}
		nCmd++
		reaches := false
		for g := range p.staticReach(fn) {
			if okFns[g] {
				reaches = true
			}
		}
		if !reaches {
			missing = FuncName(fn)
		}
	}
	r.Check(n >= 1 && nCmd >= 11 && missing == "", "C02.R2", "positional-target/sites", "-", "every command reaches the IPv4-only target parser and the functions that index the argument list were examined", fmt.Sprintf("examined %d functions, %d commands, not reaching the parser: %s", n, nCmd, missing))
}

// ---- R3 ----

func isFilterCtor(f *ssa.Function) bool {
	if f == nil || f.Signature.Params().Len() != 2 || f.Signature.Results().Len() != 1 {
		return false
	}
	return types.TypeString(f.Signature.Params().At(1).Type(), nil) == ipContainerT &&
		types.TypeString(f.Signature.Params().At(0).Type(), nil) == reqGenT &&
		types.TypeString(f.Signature.Results().At(0).Type(), nil) == reqGenT
}

func isContainerField(s *Seg, v ssa.Value) bool {
	v = s.Resolve(v)
	fvar := fieldVarOfLoad(v)
	if fvar != nil && types.TypeString(fvar.Type(), nil) == ipContainerT {
		return true
	}
	// a parameter (possibly captured by a deferred closure) of a shared builder: every call site binds it
	// to an options container field
	if theProg == nil || types.TypeString(v.Type(), nil) != ipContainerT {
		return false
	}
	for i := 0; i < 6; i++ {
		if fv, isFV := v.(*ssa.FreeVar); isFV {
			b := BindingOf(fv)
			if b == nil {
				return false
			}
			v = b
			continue
		}
		// a captured parameter lives in a cell: *cell with the parameter as the only value ever stored
		if u, isU := v.(*ssa.UnOp); isU && u.Op == token.MUL {
			cell := u.X
			if fv, isFV := cell.(*ssa.FreeVar); isFV {
				if b := BindingOf(fv); b != nil {
					cell = b
				}
			}
			if a, isA := cell.(*ssa.Alloc); isA {
				if st := theProg.StoresToAlloc(a); len(st) == 1 {
					v = st[0]
					continue
				}
			}
		}
		break
	}
	prm, isP := v.(*ssa.Parameter)
	if !isP {
		return false
	}
	args := theProg.ArgsBoundTo(prm)
	if len(args) == 0 {
		return false
	}
	for _, a := range args {
		fo := fieldVarOfLoad(a)
		if fo == nil || types.TypeString(fo.Type(), nil) != ipContainerT {
			return false
		}
	}
	return true
}

// containerNilFact: what the path knows about <opts>.<IPContainer field> == nil.
func containerNilFact(s *Seg) (known, isNil bool) {
	for _, f := range s.Facts {
		bo, ok := f.Cond.(*ssa.BinOp)
		if !ok || (bo.Op != token.EQL && bo.Op != token.NEQ) {
			continue
		}
		var other ssa.Value
		if isNilConst(bo.Y) {
			other = bo.X
		} else if isNilConst(bo.X) {
			other = bo.Y
		} else {
			continue
		}
		if isContainerField(s, other) {
			return true, (bo.Op == token.EQL) == f.Truth
		}
	}
	return false, false
}

// builderSummary: a repo function returning a RequestGenerator wraps its result with the
// exclusion filter exactly when the options' container field is non-nil.
var builderCache = map[*ssa.Function]string{}

func builderWrapsCorrectly(p *Prog, fn *ssa.Function) (ok bool, why string) {
	if w, done := builderCache[fn]; done {
		return w == "", w
	}
	defer func() { builderCache[fn] = why; ok = why == "" }()
	// the result cell and a deferred closure writing it
	var cell *ssa.Alloc
	for _, b := range fn.Blocks {
		for _, in := range b.Instrs {
			if ret, isR := in.(*ssa.Return); isR && len(ret.Results) == 1 {
				if u, isU := ret.Results[0].(*ssa.UnOp); isU && u.Op == token.MUL {
					if a, isA := u.X.(*ssa.Alloc); isA {
						cell = a
					}
				}
			}
		}
	}
	var deferred *ssa.Function
	var dmc *ssa.MakeClosure
	for _, d := range Deferred(fn) {
		if mc, isMC := d.Call.Value.(*ssa.MakeClosure); isMC {
			deferred, _ = mc.Fn.(*ssa.Function)
			dmc = mc
		}
	}
	if cell != nil && deferred != nil {
		idx := -1
		for i, bnd := range dmc.Bindings {
			if bnd == ssa.Value(cell) {
				idx = i
			}
		}
		if idx < 0 {
			return false, "deferred closure does not capture the result"
		}
		fv := deferred.FreeVars[idx]
		nWrap, nPlain := 0, 0
		for _, s := range Paths(deferred).Segs {
			if !s.Returns() {
				continue
			}
			var stored ssa.Value
			for _, e := range s.Events {
				if e.Kind == EvStore && e.Addr == ssa.Value(fv) {
					stored = e.Val
				}
			}
			known, isNil := containerNilFact(s)
			if stored == nil {
				if !known || !isNil {
					return false, "the deferred wrapper leaves the generator unfiltered on a path where the exclusion list is not known to be absent"
				}
				nPlain++
				continue
			}
			c, isC := s.Resolve(stored).(*ssa.Call)
			if !isC || !isFilterCtor(StaticCallee(&c.Call)) {
				return false, "the deferred closure replaces the result by something other than the exclusion filter"
			}
			if u, isU := c.Call.Args[0].(*ssa.UnOp); !isU || u.X != ssa.Value(fv) {
				return false, "the exclusion filter does not wrap the function's own result"
			}
			if !isContainerField(s, c.Call.Args[1]) {
				return false, "the exclusion filter is not given the options' exclusion list"
			}
			if known && isNil {
				return false, "filter installed on the path where the list is nil"
			}
			nWrap++
		}
		if nWrap == 0 {
			return false, "the deferred closure never installs the filter"
		}
		// the body must not return before the defer is registered: defer is in the entry block
		if len(Deferred(fn)) == 0 || Deferred(fn)[0].Block() != fn.Blocks[0] {
			return false, "the wrapper is not registered on every path"
		}
		return true, ""
	}
	// direct style: every return path carries the filter or the nil fact
	for _, s := range Paths(fn).Segs {
		if !s.Returns() {
			continue
		}
		st, w := chainFilterStatus(p, s, s.Exit.(*ssa.Return).Results[0])
		if !st {
			return false, w
		}
	}
	return true, ""
}

// chainFilterStatus decides, for the generator value v on path s, whether the exclusion filter
// is present exactly when required.
func chainFilterStatus(p *Prog, s *Seg, v ssa.Value) (bool, string) {
	chain := ctorChain(s, v)
	if known, isNil := containerNilFact(s); known && isNil {
		for _, l := range chain {
			if isFilterCtor(l.Ctor) {
				return false, "the exclusion filter is installed on the path where the list is nil"
			}
		}
		return true, "" // nothing to exclude on this path
	}
	for _, l := range chain {
		if isFilterCtor(l.Ctor) {
			if !isContainerField(s, l.Call.Call.Args[1]) {
				return false, "the exclusion filter is not given the options' exclusion list (" + s.Term(l.Call.Call.Args[1]) + ")"
			}
			if known, isNil := containerNilFact(s); known && isNil {
				return false, "the exclusion filter is installed on the path where the list is nil"
			}
			return true, ""
		}
		if l.Ctor.Pkg != nil && l.Ctor.Pkg == p.SPkg("command") && types.TypeString(l.Ctor.Signature.Results().At(0).Type(), nil) == reqGenT && !hasParamOfType(l.Ctor, reqGenT) {
			ok, why := builderWrapsCorrectly(p, l.Ctor)
			if !ok {
				return false, FuncName(l.Ctor) + ": " + why
			}
			return true, ""
		}
	}
	if known, isNil := containerNilFact(s); known && isNil {
		return true, ""
	}
	return false, "chain " + chainNames(chain) + " reaches the engine without the exclusion filter on a path where --exclude may be set"
}

func checkExclusionWiring(p *Prog, r *Report) {
	sinks := map[string]bool{modPath + "/pkg/scan.NewPacketSource": true, modPath + "/pkg/scan.NewScanEngine": true}
	nsink := 0
	for _, fn := range p.SrcFuncs() {
		if fn.Pkg != p.SPkg("command") {
			continue
		}
		for _, b := range fn.Blocks {
			for _, in := range b.Instrs {
				c, ok := in.(*ssa.Call)
				if !ok || !sinks[calleeFull(&c.Call)] {
					continue
				}
				nsink++
				k := 0
				for _, s := range PathsInl(fn).Segs {
					if !s.Has(c) {
						continue
					}
					k++
					key := fmt.Sprintf("%s/generator-path#%d", FuncName(fn), k)
					ok, why := chainFilterStatus(p, s, c.Call.Args[0])
					r.Check(ok, "C02.R3", key, p.Pos(c.Pos()), "the request generator handed to the engine is wrapped by the exclusion filter over the options' list whenever that list is set", why, s.Describe(p)...)
				}
			}
		}
	}
	r.Count("generator_sinks", nsink)
	// writers of the exclusion list
	var parser *ssa.Function
	var cands []*ssa.Function
	for _, fn := range parserSet(p) {
		if fn.Signature.Results().Len() == 2 && types.TypeString(fn.Signature.Results().At(0).Type(), nil) == ipContainerT {
			cands = append(cands, fn)
			parser = fn
		}
	}
	// the parser proper is the one with the line loop; the others must be pass-through wrappers of it
	for _, fn := range cands {
		if len(LoopHeaders(fn)) > 0 {
			parser = fn
		}
	}
	wrapper := map[*ssa.Function]bool{}
	for _, fn := range cands {
		if fn != parser && isPassThroughOf(fn, parser, wrapper) {
			wrapper[fn] = true
		}
	}
	if parser == nil {
		r.Undecided("C02.R3", "exclusion parser", "-", "a parser returning (scan.IPContainer, error) exists", "not found")
		return
	}
	for _, fn := range p.SrcFuncs() {
		if fn.Pkg != p.SPkg("command") {
			continue
		}
		for _, b := range fn.Blocks {
			for _, in := range b.Instrs {
				st, ok := in.(*ssa.Store)
				if !ok {
					continue
				}
				fa, ok := st.Addr.(*ssa.FieldAddr)
				if !ok {
					continue
				}
				fv := fieldObj(fa)
				if fv == nil || types.TypeString(fv.Type(), nil) != ipContainerT {
					continue
				}
				good := false
				if ex, isEx := st.Val.(*ssa.Extract); isEx && ex.Index == 0 {
					if c, isC := ex.Tuple.(*ssa.Call); isC && (StaticCallee(&c.Call) == parser || wrapper[StaticCallee(&c.Call)]) {
						good = true
					}
				}
				r.Check(good, "C02.R3", FuncName(fn)+"/writes-"+fv.Name(), p.Pos(st.Pos()), "the options' exclusion list is written only from the exclusion-file parser's result", "stored value "+(*Seg)(nil).term(st.Val, 0))
			}
		}
	}
	// the parser inserts the network of every accepted line (a per-line helper is expanded in place)
	fp := PathsInl(parser)
	okIns, why := true, ""
	nLine := 0
	for _, s := range fp.Segs {
		var parse *ssa.Call
		for _, e := range s.Events {
			if e.Kind == EvCall {
				if f := StaticCallee(e.Call); f != nil && f.Pkg == p.SPkg("pkg/ip") {
					parse = e.Instr.(*ssa.Call)
				}
			}
		}
		if parse == nil {
			continue
		}
		errEx := extractOf(parse, 1)
		if errEx == nil {
			okIns, why = false, "target parser error discarded"
			continue
		}
		if known, isNil := s.NilFact(errEx); !known || !isNil {
			continue
		}
		if s.End == nil && retClass(s) == retFail {
			continue
		}
		nLine++
		ins := 0
		for _, e := range s.Events {
			if e.Kind != EvCall {
				continue
			}
			if m := IfaceMethod(e.Call); m != nil && m.Name() == "Insert" {
				// the entry derives from this line's network
				entry := s.Resolve(e.Call.Args[0])
				if ec, isC := entry.(*ssa.Call); isC && len(ec.Call.Args) == 1 {
					if u, isU := s.Resolve(ec.Call.Args[0]).(*ssa.UnOp); isU && u.Op == token.MUL && u.X == ssa.Value(extractOf(parse, 0)) {
						ins++
					}
				}
			}
		}
		if ins != 1 {
			okIns, why = false, fmt.Sprintf("a line whose network parsed successfully is inserted %d times on some path (an accepted exclusion entry is dropped)", ins)
		}
	}
	r.Check(okIns && nLine > 0, "C02.R3", FuncName(parser)+"/inserts-every-line", p.Pos(parser.Pos()), "every accepted exclusion line inserts exactly its own network into the list", why)
}

// ---- R4 ----

func checkFilterStage(p *Prog, r *Report) {
	n := 0
	for _, fn := range p.Implementers(modPath+"/pkg/scan", "RequestGenerator", "GenerateRequests") {
		// the implementation whose receiver struct holds an IPContainer
		rt := fn.Signature.Recv().Type()
		if pt, ok := rt.(*types.Pointer); ok {
			rt = pt.Elem()
		}
		st, ok := rt.Underlying().(*types.Struct)
		if !ok {
			continue
		}
		has := false
		for i := 0; i < st.NumFields(); i++ {
			if types.TypeString(st.Field(i).Type(), nil) == ipContainerT {
				has = true
			}
		}
		if !has {
			continue
		}
		for _, g := range GoClosures(fn) {
			n++
			checkFilterLoop(p, r, g)
		}
		// every accepting return hands out the channel made (and filtered) here, never the delegate's own
		okOut, whyOut := true, ""
		nRet := 0
		for _, s := range PathsInl(fn).Segs {
			if !s.Returns() || retClass(s) == retFail {
				continue
			}
			nRet++
			made := false
			// a bypass is harmless exactly when there is nothing to exclude: the path has established
			// that the exclusion container is nil
			noContainer := false
			for _, f := range s.Facts {
				for _, side := range factOperands(f) {
					if u, isU := s.Resolve(side).(*ssa.UnOp); isU {
						if _, fld, isF := fieldLoad(u); isF && fld == "excludeIPs" {
							if k, isNil := s.NilFact(u); k && isNil {
								noContainer = true
							}
						}
					}
				}
			}
			if noContainer {
				continue
			}
			for _, o := range p.Origins(s.Resolve(s.Exit.(*ssa.Return).Results[0])) {
				if mc, isMC := o.(*ssa.MakeChan); isMC && (mc.Parent() == fn || (mc.Parent().Pkg == fn.Pkg && p.staticReach(fn)[mc.Parent()])) {
					made = true // made here, or in a helper of the package called from here (never the delegate's own: that comes from an interface call)
				} else if isNilConst(o) {
					// the helper's failure return; on this non-failing path its error was tested nil
				} else {
					okOut, whyOut = false, "an accepting path returns "+s.Term(s.Exit.(*ssa.Return).Results[0])+" (the unfiltered stream of the delegate)"
				}
			}
			if !made {
				okOut, whyOut = false, "an accepting path does not return the filtered channel"
			}
			spawned := false
			for _, e := range s.Events {
				if e.Kind == EvGo {
					spawned = true
				}
			}
			if !spawned {
				okOut, whyOut = false, "an accepting path does not start the filter goroutine"
			}
		}
		r.Check(okOut && nRet > 0, "C02.R4", FuncName(fn)+"/always-filtered", p.Pos(fn.Pos()), "every accepting path of the exclusion stage returns its own filtered channel (no bypass that hands out the delegate's stream)", whyOut)
	}
	if n == 0 {
		r.Undecided("C02.R4", "exclusion filter stage", "-", "a RequestGenerator holding an IPContainer exists", "not found")
	}
}

func checkFilterLoop(p *Prog, r *Report, g *ssa.Function) {
	heads := loopHeadersSorted(g)
	pos := p.Pos(g.Pos())
	if len(heads) != 1 {
		r.Undecided("C02.R4", FuncName(g), pos, "the filter goroutine is one loop", fmt.Sprint(len(heads)))
		return
	}
	fp := Paths(g)
	reqT := "*" + modPath + "/pkg/scan.Request"
	i := 0
	seen := map[string]bool{}
	for _, s := range fp.From(heads[0]) {
		if s.IsSelectPanicTail() {
			continue
		}
		var ce *Event
		for _, e := range s.Events {
			if e.Kind == EvCall {
				if m := IfaceMethod(e.Call); m != nil && m.Name() == "Contains" {
					ce = e
				}
			}
		}
		if ce == nil {
			continue
		}
		i++
		key := segKey(g, "contains-path", i)
		path := s.Describe(p)
		// request value: result #0 of the read helper / receive of a *Request
		var req ssa.Value
		for _, e := range s.Events {
			if e.Kind == EvCall && e.Call.Signature().Results().Len() == 2 && types.TypeString(e.Call.Signature().Results().At(0).Type(), nil) == reqT {
				req = extractOf(e.Instr.(*ssa.Call), 0)
			}
		}
		for _, rc := range s.Recvs() {
			if chanElemIs(rc.Chan.Type(), reqT) && rc.Val != nil {
				req = rc.Val
			}
		}
		if req == nil {
			r.Undecided("C02.R4", key, pos, "the request being filtered is identified", "no receive of a *scan.Request on the path")
			continue
		}
		b, f, isF := fieldLoad(s.Resolve(ce.Call.Args[0]))
		if !isF || f != "DstIP" || !sameThroughCells(s, b, req) {
			r.Viol("C02.R4", key, pos, "the exclusion list is asked about the request's own destination address", "Contains is asked about "+s.Term(ce.Call.Args[0]), path...)
			continue
		}
		call := ce.Instr.(*ssa.Call)
		cont, cerr := extractOf(call, 0), extractOf(call, 1)
		fw := 0
		for _, em := range s.Emits() {
			if sameThroughCells(s, em.Val, req) {
				fw++
			}
		}
		errKnown, errNil := false, false
		if cerr != nil {
			errKnown, errNil = s.NilFact(cerr)
		}
		switch {
		case errKnown && !errNil:
			seen["error"] = true
			r.Check(fw == 1 && s.End != nil, "C02.R4", key, pos, "a container error is reported once (the request is forwarded carrying the error) and filtering continues", fmt.Sprintf("forwards=%d", fw), path...)
		default:
			ck, cv := false, false
			if cont != nil {
				ck, cv = boolFactThroughCells(s, cont)
			}
			if !ck {
				r.Viol("C02.R4", key, pos, "the decision to forward depends on the Contains result", "Contains result not tested on this path", path...)
				continue
			}
			if !errKnown {
				r.Viol("C02.R4", key, pos, "the Contains error is tested before its result is used", "error not tested", path...)
				continue
			}
			if cv {
				seen["covered"] = true
				r.Check(fw == 0 && s.End != nil, "C02.R4", key, pos, "a covered destination is dropped (never forwarded) and filtering continues", fmt.Sprintf("forwards=%d", fw), path...)
			} else {
				seen["uncovered"] = true
				r.Check(fw == 1 && s.End != nil, "C02.R4", key, pos, "a destination that is not covered is forwarded exactly once (exclusion never removes an address it does not cover)", fmt.Sprintf("forwards=%d", fw), path...)
			}
		}
	}
	if !(seen["covered"] && seen["uncovered"] && seen["error"]) {
		r.Viol("C02.R4", FuncName(g)+"/cases", pos, "the filter loop distinguishes covered / not covered / container error", fmt.Sprint(seen))
	}
}

// factOperands: the operands of a comparison fact.
func factOperands(f Fact) []ssa.Value {
	if b, ok := f.Cond.(*ssa.BinOp); ok {
		return []ssa.Value{b.X, b.Y}
	}
	return nil
}

// hasParamOfType: the function takes a parameter of that type (a decorator rather than a builder).
func hasParamOfType(f *ssa.Function, t string) bool {
	for _, prm := range f.Params {
		if types.TypeString(prm.Type(), nil) == t {
			return true
		}
	}
	return false
}

// isPassThroughOf: fn is loop-free and every return hands back, unchanged and in order, the results
// of one call to target (or to an already accepted wrapper of it).
func isPassThroughOf(fn, target *ssa.Function, accepted map[*ssa.Function]bool) bool {
	if fn == nil || fn.Blocks == nil || len(LoopHeaders(fn)) > 0 {
		return false
	}
	n := 0
	for _, s := range Paths(fn).Segs {
		if !s.Returns() {
			continue
		}
		n++
		ret := s.Exit.(*ssa.Return)
		var call *ssa.Call
		for i, rv := range ret.Results {
			ex, ok := s.Resolve(rv).(*ssa.Extract)
			if !ok || ex.Index != i {
				return false
			}
			c, isC := ex.Tuple.(*ssa.Call)
			if !isC || (call != nil && c != call) {
				return false
			}
			call = c
		}
		if call == nil || (StaticCallee(&call.Call) != target && !accepted[StaticCallee(&call.Call)]) {
			return false
		}
	}
	return n > 0
}
