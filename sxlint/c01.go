package main

import (
	"fmt"
	"go/token"
	"go/types"
	"sort"
	"strings"

	"golang.org/x/tools/go/ssa"
)

func init() {
	register(&propDef{
		ID: "C01",
		Explanation: "Static conformance of target coverage: (R1) engine must-call — in every command RunE and every function of package command that can reach scan.Engine.Start, every path to an accepting return passes through a call that reaches Engine.Start (zero-iteration loop paths are folded against the guards before the loop); " +
			"(R2) chunk partition — the loop that slices Ports is the index-partition idiom (i=0; i<len; i+=c; [i:min(i+c,len)]) folded over representative (i,len) pairs, over one slice, and the engine starter receives the per-chunk copy whose Ports is that sub-slice; (R3) generator-mode table — each builder maps (no file)->range x ports, (file, no ports)->pair file, (file, ports)->address file x ports, and commands whose options carry port ranges start through the chunking starter, port-less ones through the plain one; " +
			"(R4) re-openable sources — every scan.OpenFileFunc returns a stream created inside the call (os.Open, a reader over owned bytes), never a process-global or captured single-pass stream; (R5) one emission per iterator position with the documented size / base expressions in >=32-bit arithmetic; (R6) cross product — the inner address loop is never left early, the drained address channel is regenerated before the next port, one request per (port, address) carrying exactly that pair; " +
			"(R7) one request per target-file line (C13.R1 re-evaluated); (R8) the iteration order is a permutation (C04 re-evaluated); (R9) the scanned port list is the union of the --ports ranges and the --ports-file ranges on every option combination (folded over which of the two is given).",
		NotDecided:  []string{"multiset equality end to end for every input (composition of the stages at run time)", "math/big arithmetic producing the intended addresses beyond the operand structure fixed by R5", "races with a target file that changes while it is re-read"},
		Assumptions: []string{"os.Open returns an independent stream positioned at the start", "bytes.NewReader/strings.NewReader create an independent cursor over shared bytes", "net.IPMask.Size returns (ones, bits)"},
		Run:         runC01,
	})
}

func runC01(p *Prog, r *Report) {
	r.Min("C01.R1", 11+3)
	r.Min("C01.R2", 2)
	r.Min("C01.R3", 3+8)
	r.Min("C01.R4", 4)
	r.Min("C01.R5", 6)
	r.Min("C01.R6", 5)
	r.Min("C01.R7", 4)
	r.Min("C01.R8", 100)
	r.Min("C01.R9", 2)
	E := engineReach(p)
	checkEngineMustCall(p, r, E)
	checkChunkPartition(p, r, E)
	checkGeneratorModes(p, r)
	checkStarterChoice(p, r)
	checkReopenable(p, r)
	checkIteratorEmission(p, r)
	checkCrossProduct(p, r)
	checkPortSources(p, r)
	// R10: one probe per target also needs (a) fillers that keep nothing between calls - they are shared by
	// all packet-building workers, a header struct reused across calls sends one target twice and another
	// never (C07.R5 re-evaluated) - and (b) exactly the configured number of probe workers, at least one
	// (C08.R2 worker-count clause re-evaluated: with none, completion is signalled with nothing probed)
	r.Min("C01.R10", 5)
	{
		sub := NewReport("C01x", "quick")
		runC07(p, sub)
		for _, o := range sub.Obs {
			if o.Rule == "C07.R5" && strings.HasSuffix(o.Construct, ".Fill") {
				o2 := *o
				o2.Rule = "C01.R10"
				r.Obs = append(r.Obs, &o2)
			}
			// (c) the sender puts each built frame on the wire once, and its bytes are still the builder's
			// when it does (C07.R1 / C07.R2 sender clauses re-evaluated: a buffer returned to the pool
			// before the write is overwritten by the next builder - one target probed twice, one never)
			if (o.Rule == "C07.R1" || o.Rule == "C07.R2") && strings.Contains(o.Construct, "SendPackets") {
				o2 := *o
				o2.Rule = "C01.R10"
				r.Obs = append(r.Obs, &o2)
			}
		}
		sub8 := NewReport("C01x", "quick")
		runC08(p, sub8)
		for _, o := range sub8.Obs {
			if o.Rule == "C08.R2" && strings.HasSuffix(o.Construct, "/worker-count") {
				o2 := *o
				o2.Rule = "C01.R10"
				r.Obs = append(r.Obs, &o2)
			}
		}
	}
	// R11: "minus excluded addresses" - the exclusion stage is wired in on every target mode of every scan
	// type and drops exactly the covered addresses (C02.R3 wiring and C02.R4 filter loop re-evaluated)
	r.Min("C01.R11", 6+4)
	{
		sub2 := NewReport("C01x", "quick")
		checkExclusionWiring(p, sub2)
		checkFilterStage(p, sub2)
		for _, o := range sub2.Obs {
			if o.Rule == "C02.R3" || o.Rule == "C02.R4" {
				o2 := *o
				o2.Rule = "C01.R11"
				r.Obs = append(r.Obs, &o2)
			}
		}
	}
	// R7: file generators
	sub := NewReport("C01", r.Tier)
	for _, fn := range p.SrcFuncs() {
		if fn.Pkg == p.SPkg("pkg/scan") && fn.Parent() != nil && callsNamed(fn, "(*bufio.Scanner).Scan") {
			checkFileGenerator(p, sub, fn)
		}
	}
	for _, o := range sub.Obs {
		if o.Rule != "C13.R1" {
			continue
		}
		o2 := *o
		o2.Rule = "C01.R7"
		o2.Text = "one request per target-file line: " + o.Text
		r.Obs = append(r.Obs, &o2)
	}
	// R8: permutation
	sub4 := NewReport("C01", r.Tier)
	runC04(p, sub4)
	for _, o := range sub4.Obs {
		o2 := *o
		o2.Rule = "C01.R8"
		o2.Text = "random iteration is a permutation: " + o.Text
		r.Obs = append(r.Obs, &o2)
	}
}

// ---- R1 ----

// engineReach: functions from which a call of scan.Engine.Start is reachable through static calls.
func engineReach(p *Prog) map[*ssa.Function]bool {
	E := map[*ssa.Function]bool{}
	for _, f := range engineCallers(p) {
		E[f] = true
	}
	for changed := true; changed; {
		changed = false
		for _, fn := range p.SrcFuncs() {
			if E[fn] {
				continue
			}
			for _, b := range fn.Blocks {
				for _, in := range b.Instrs {
					if c, ok := in.(*ssa.Call); ok {
						if g := StaticCallee(&c.Call); g != nil && E[g] {
							E[fn] = true
							changed = true
						}
					}
				}
			}
		}
	}
	return E
}

func isRunE(fn *ssa.Function) bool {
	if fn.Parent() == nil {
		return false
	}
	sig := fn.Signature
	return sig.Params().Len() == 2 && sig.Results().Len() == 1 && isErrorType(sig.Results().At(0).Type()) &&
		types.TypeString(sig.Params().At(0).Type(), nil) == "*github.com/spf13/cobra.Command" &&
		types.TypeString(sig.Params().At(1).Type(), nil) == "[]string"
}

func checkEngineMustCall(p *Prog, r *Report, E map[*ssa.Function]bool) {
	isTarget := func(c *ssa.CallCommon) bool {
		if IsCallTo(c, fnEngineStart) {
			return true
		}
		g := StaticCallee(c)
		return g != nil && E[g]
	}
	var fns []*ssa.Function
	nRunE := 0
	for _, fn := range p.SrcFuncs() {
		if fn.Pkg != p.SPkg("command") {
			continue
		}
		if isRunE(fn) {
			nRunE++
			fns = append(fns, fn)
			if !E[fn] {
				r.Viol("C01.R1", FuncName(fn)+"/reaches-engine", p.Pos(fn.Pos()), "every command's RunE can reach scan.Engine.Start", "no call path to Engine.Start")
			}
			continue
		}
		if E[fn] && errResultIndex(fn) >= 0 {
			fns = append(fns, fn)
		}
	}
	r.Count("runE_closures", nRunE)
	for _, fn := range fns {
		name := FuncName(fn)
		pos := p.Pos(fn.Pos())
		fp := Paths(fn)
		if fp.Truncated {
			r.Undecided("C01.R1", name, pos, "paths enumerable", "too many paths")
			continue
		}
		hasT := func(s *Seg) bool {
			for _, e := range s.Events {
				if e.Kind == EvCall && isTarget(e.Call) {
					return true
				}
			}
			return false
		}
		entry := fn.Blocks[0]
		noT := map[*ssa.BasicBlock]bool{entry: true}
		for changed := true; changed; {
			changed = false
			for _, s := range fp.Segs {
				if s.End != nil && noT[s.Start] && !hasT(s) && !noT[s.End] {
					noT[s.End] = true
					changed = true
				}
			}
		}
		ok, why := true, ""
		var path []string
		for _, B := range fp.Segs {
			if !B.Returns() || hasT(B) || !noT[B.Start] {
				continue
			}
			if k := retClass(B); k == retFail {
				continue
			}
			if B.Start == entry {
				ok, why, path = false, "an accepting return is reached without starting any engine", B.Describe(p)
				continue
			}
			for _, A := range fp.Segs {
				if A.End != B.Start || hasT(A) || !noT[A.Start] {
					continue
				}
				if A.Start != entry {
					ok, why, path = false, "a loop iteration without an engine start can precede an accepting return", A.Describe(p)
					continue
				}
				if composeFeasible(A, B) {
					ok, why = false, "the loop may run zero times: the function returns success without starting any engine (nothing is scanned, nothing is reported)"
					path = append(A.Describe(p), B.Describe(p)...)
				}
			}
		}
		r.Check(ok, "C01.R1", name, pos, "every path to an accepting return passes through a call that reaches scan.Engine.Start", why, path...)
	}
}

// composeFeasible: can segment B (starting at the loop header A ends at) follow A, judging by
// their integer facts over len(<same term>) with B's header phis bound to A's incoming values?
func composeFeasible(A, B *Seg) bool {
	// lenTerm: canonical term of the argument of a len() call; a header phi of B stands for the
	// value A sends into it
	lenTerm := func(s *Seg, phiFrom *Seg, arg ssa.Value) string {
		if ph, ok := arg.(*ssa.Phi); ok && phiFrom != nil && ph.Block() == s.Start {
			if in := phiFrom.PhiIn(ph); in != nil {
				return phiFrom.Term(in)
			}
		}
		return s.Term(arg)
	}
	terms := map[string]bool{}
	collect := func(s *Seg, phiFrom *Seg) {
		for _, f := range s.Facts {
			var walk func(v ssa.Value, d int)
			walk = func(v ssa.Value, d int) {
				if d > 5 || v == nil {
					return
				}
				if c, ok := v.(*ssa.Call); ok {
					if b, ok := c.Call.Value.(*ssa.Builtin); ok && b.Name() == "len" {
						terms[lenTerm(s, phiFrom, c.Call.Args[0])] = true
					}
				}
				if bo, ok := v.(*ssa.BinOp); ok {
					walk(bo.X, d+1)
					walk(bo.Y, d+1)
				}
			}
			walk(f.Cond, 0)
		}
	}
	collect(A, nil)
	collect(B, A)
	holds := func(s *Seg, T string, n int64, phiFrom *Seg) bool {
		bind := func(v ssa.Value) (int64, bool) {
			if c, ok := v.(*ssa.Call); ok {
				if b, ok := c.Call.Value.(*ssa.Builtin); ok && b.Name() == "len" && lenTerm(s, phiFrom, c.Call.Args[0]) == T {
					return n, true
				}
			}
			if ph, ok := v.(*ssa.Phi); ok && phiFrom != nil && ph.Block() == s.Start {
				if in := phiFrom.PhiIn(ph); in != nil {
					return constInt(in)
				}
			}
			return 0, false
		}
		for _, f := range s.Facts {
			if b, ok := EvalCond(s, f.Cond, bind); ok && b != f.Truth {
				return false
			}
		}
		return true
	}
	for T := range terms {
		any := false
		for n := int64(0); n <= 4; n++ {
			if holds(A, T, n, nil) && holds(B, T, n, A) {
				any = true
			}
		}
		if !any {
			return false
		}
	}
	return true
}

// ---- R2 ----

// chunkFunc finds the function of package command that, inside a loop, slices a list of port
// ranges and starts engines (helpers expanded in place).
func chunkFunc(p *Prog, E map[*ssa.Function]bool) (*ssa.Function, *ssa.Slice) {
	for _, fn := range p.SrcFuncs() {
		if fn.Pkg != p.SPkg("command") || !E[fn] || len(LoopHeaders(fn)) == 0 {
			continue
		}
		for _, s := range PathsInl(fn).Segs {
			for _, b := range s.Blocks {
				for _, in := range b.Instrs {
					if sl, ok := in.(*ssa.Slice); ok && strings.HasSuffix(types.TypeString(sl.X.Type(), nil), "pkg/scan.PortRange") {
						return fn, sl
					}
				}
			}
		}
	}
	return nil, nil
}

type absVal struct {
	isSlice bool
	i       int64 // integer value, or offset of a slice into the original list
	n       int64 // slice length
}

// chunkEval folds the chunking loop over a concrete number L of port ranges: integers and
// sub-slices of the original list (offset, length) are evaluated, guards select the path.
type chunkEval struct {
	fn    *ssa.Function
	L     int64
	state map[*ssa.Phi]absVal
	why   string
}

func (ev *chunkEval) portsOfParam(s *Seg, v ssa.Value) bool {
	// *(&(...(&param.f1).f2).Ports) with the root resolving to a parameter of the chunk function
	u, ok := v.(*ssa.UnOp)
	if !ok || u.Op != token.MUL {
		return false
	}
	fa, ok := u.X.(*ssa.FieldAddr)
	if !ok || fieldName(fa.X.Type(), fa.Field) != "Ports" {
		return false
	}
	var x ssa.Value = fa.X
	for d := 0; d < 6; d++ {
		x = s.Resolve(x)
		if f2, ok := x.(*ssa.FieldAddr); ok {
			x = f2.X
			continue
		}
		break
	}
	prm, ok := x.(*ssa.Parameter)
	return ok && prm.Parent() == ev.fn
}

func (ev *chunkEval) eval(s *Seg, v ssa.Value, d int) (absVal, bool) {
	if d > 12 || v == nil {
		return absVal{}, false
	}
	v = s.Resolve(v)
	if k, ok := constInt(v); ok {
		return absVal{i: k}, true
	}
	switch t := v.(type) {
	case *ssa.Phi:
		if a, ok := ev.state[t]; ok {
			return a, true
		}
	case *ssa.Convert:
		return ev.eval(s, t.X, d+1)
	case *ssa.BinOp:
		x, ok1 := ev.eval(s, t.X, d+1)
		y, ok2 := ev.eval(s, t.Y, d+1)
		if !ok1 || !ok2 || x.isSlice || y.isSlice {
			return absVal{}, false
		}
		switch t.Op {
		case token.ADD:
			return absVal{i: x.i + y.i}, true
		case token.SUB:
			return absVal{i: x.i - y.i}, true
		case token.MUL:
			return absVal{i: x.i * y.i}, true
		}
	case *ssa.Call:
		if b, ok := t.Call.Value.(*ssa.Builtin); ok {
			switch b.Name() {
			case "len":
				x, ok := ev.eval(s, t.Call.Args[0], d+1)
				if ok && x.isSlice {
					return absVal{i: x.n}, true
				}
			case "min", "max":
				best, okAll := absVal{}, true
				for k, a := range t.Call.Args {
					x, ok := ev.eval(s, a, d+1)
					if !ok || x.isSlice {
						okAll = false
						break
					}
					if k == 0 || (b.Name() == "min" && x.i < best.i) || (b.Name() == "max" && x.i > best.i) {
						best = x
					}
				}
				if okAll {
					return best, true
				}
			}
		}
	case *ssa.UnOp:
		if ev.portsOfParam(s, t) {
			return absVal{isSlice: true, i: 0, n: ev.L}, true
		}
	case *ssa.Slice:
		base, ok := ev.eval(s, t.X, d+1)
		if !ok || !base.isSlice || t.Max != nil {
			return absVal{}, false
		}
		lo, hi := int64(0), base.n
		if t.Low != nil {
			x, ok := ev.eval(s, t.Low, d+1)
			if !ok || x.isSlice {
				return absVal{}, false
			}
			lo = x.i
		}
		if t.High != nil {
			x, ok := ev.eval(s, t.High, d+1)
			if !ok || x.isSlice {
				return absVal{}, false
			}
			hi = x.i
		}
		if lo < 0 || hi < lo || hi > base.n {
			ev.why = fmt.Sprintf("slice bounds [%d:%d] out of range for %d elements (panic)", lo, hi, base.n)
			return absVal{}, false
		}
		return absVal{isSlice: true, i: base.i + lo, n: hi - lo}, true
	}
	return absVal{}, false
}

// consistent: every integer guard of the segment holds under the evaluation; guards on error
// values must say "no error" (the fold follows the successful scan of every chunk).
func (ev *chunkEval) consistent(s *Seg) (ok, decided bool) {
	for _, f := range s.Facts {
		c := f.Cond
		truth := f.Truth
		for {
			if u, isU := c.(*ssa.UnOp); isU && u.Op == token.NOT {
				c, truth = u.X, !truth
				continue
			}
			break
		}
		bo, isB := c.(*ssa.BinOp)
		if !isB {
			return false, false
		}
		if isNilConst(bo.Y) || isNilConst(bo.X) {
			other := bo.X
			if isNilConst(bo.X) {
				other = bo.Y
			}
			if isErrorType(other.Type()) {
				if ((bo.Op == token.EQL) == truth) == false {
					return false, true // an error path
				}
				continue
			}
			return false, false
		}
		x, ok1 := ev.eval(s, bo.X, 0)
		y, ok2 := ev.eval(s, bo.Y, 0)
		if !ok1 || !ok2 || x.isSlice || y.isSlice {
			return false, false
		}
		var b bool
		switch bo.Op {
		case token.EQL:
			b = x.i == y.i
		case token.NEQ:
			b = x.i != y.i
		case token.LSS:
			b = x.i < y.i
		case token.LEQ:
			b = x.i <= y.i
		case token.GTR:
			b = x.i > y.i
		case token.GEQ:
			b = x.i >= y.i
		default:
			return false, false
		}
		if b != truth {
			return false, true
		}
	}
	return true, true
}

func checkChunkPartition(p *Prog, r *Report, E map[*ssa.Function]bool) {
	fn, _ := chunkFunc(p, E)
	if fn == nil {
		r.Undecided("C01.R2", "chunk loop", "-", "a function in package command slices the port-range list in a loop and starts engines", "not found")
		return
	}
	name := FuncName(fn)
	pos := p.Pos(fn.Pos())
	fp := PathsInl(fn)
	if fp.Truncated {
		r.Undecided("C01.R2", name, pos, "paths enumerable", "too many paths")
		return
	}
	// constants of the function: candidate chunk sizes
	consts := map[int64]bool{}
	for _, s := range fp.Segs {
		for _, b := range s.Blocks {
			for _, in := range b.Instrs {
				for _, op := range in.Operands(nil) {
					if op != nil && *op != nil {
						if k, ok := constInt(*op); ok && k > 1 && k < 100000 {
							if bt, isB := (*op).Type().Underlying().(*types.Basic); isB && bt.Info()&types.IsInteger != 0 {
								consts[k] = true
							}
						}
					}
				}
			}
		}
	}
	lens := map[int64]bool{1: true, 2: true, 3: true}
	for c := range consts {
		for _, L := range []int64{c - 1, c, c + 1, 2*c - 1, 2 * c, 2*c + 1, 3*c + 1} {
			if L >= 1 && L <= 4000 {
				lens[L] = true
			}
		}
	}
	if r.Tier == "thorough" {
		// exhaustive up to three chunks and one element
		var maxc int64
		for c := range consts {
			if c > maxc && c <= 1000 {
				maxc = c
			}
		}
		for L := int64(1); L <= 3*maxc+1; L++ {
			lens[L] = true
		}
	}
	var Ls []int64
	for L := range lens {
		Ls = append(Ls, L)
	}
	sort.Slice(Ls, func(i, j int) bool { return Ls[i] < Ls[j] })
	isStarter := func(e *Event) bool {
		if e.Kind != EvCall {
			return false
		}
		g := StaticCallee(e.Call)
		return g != nil && E[g] && g != fn
	}
	okPart, whyPart := true, ""
	okCopy, whyCopy := true, ""
	folded := 0
	for _, L := range Ls {
		ev := &chunkEval{fn: fn, L: L, state: map[*ssa.Phi]absVal{}}
		cur := fn.Blocks[0]
		var chunks []absVal
		finished := false
		for iter := 0; iter < 40 && !finished; iter++ {
			var pick *Seg
			n := 0
			for _, s := range fp.From(cur) {
				if s.IsSelectPanicTail() {
					continue
				}
				ok, decided := ev.consistent(s)
				if !decided {
					if ev.why == "" {
						ev.why = "a guard of the loop is not an integer comparison over the index, the chunk size and the list length"
					}
					n = -1000
					break
				}
				if ok {
					pick = s
					n++
				}
			}
			if n != 1 {
				if ev.why == "" {
					ev.why = fmt.Sprintf("%d paths are consistent with the folded values", n)
				}
				r.Undecided("C01.R2", name+"/bounds", pos, "the chunking loop can be folded over a concrete list length", fmt.Sprintf("with %d port ranges: %s", L, ev.why))
				return
			}
			// the chunk handed to the engine starter on this path
			for _, e := range pick.Events {
				if !isStarter(e) {
					continue
				}
				var cfg ssa.Value
				for _, a := range e.Call.Args {
					if !isContextType(a.Type()) {
						cfg = pick.Resolve(a)
					}
				}
				switch c := cfg.(type) {
				case *ssa.Parameter:
					// the original configuration: every range of the list
					chunks = append(chunks, absVal{isSlice: true, i: 0, n: L})
					if L > 1 && len(LoopHeaders(fn)) > 0 && pick.Start != fn.Blocks[0] {
						okCopy, whyCopy = false, "the engine starter receives the un-chunked configuration inside the loop (every chunk scans all ports)"
					}
				case *ssa.Alloc:
					var portsVal ssa.Value
					copied := false
					for _, e2 := range pick.Events {
						if e2.Kind != EvStore || e2.Ord > e.Ord {
							continue
						}
						if e2.Addr == ssa.Value(c) {
							if u, ok := pick.Resolve(e2.Val).(*ssa.UnOp); ok && u.Op == token.MUL {
								if prm, isP := pick.Resolve(u.X).(*ssa.Parameter); isP && prm.Parent() == fn {
									copied = true
								}
							}
						}
						if fa, ok := e2.Addr.(*ssa.FieldAddr); ok && fieldName(fa.X.Type(), fa.Field) == "Ports" && derivesFromParam(fa, c, 0) {
							portsVal = e2.Val
						}
					}
					if !copied {
						okCopy, whyCopy = false, "the per-chunk configuration is not a copy of the original one"
					}
					if portsVal == nil {
						okCopy, whyCopy = false, "the per-chunk configuration keeps the complete port list"
						chunks = append(chunks, absVal{isSlice: true, i: 0, n: L})
						continue
					}
					cv, ok := ev.eval(pick, portsVal, 0)
					if !ok || !cv.isSlice {
						why := ev.why
						if why == "" {
							why = "its Ports is not a sub-slice of the original list"
						}
						r.Undecided("C01.R2", name+"/bounds", pos, "the chunk handed to the engine is a sub-slice of the original list", fmt.Sprintf("with %d port ranges: %s", L, why))
						return
					}
					chunks = append(chunks, cv)
				default:
					r.Undecided("C01.R2", name+"/chunk-config", pos, "the configuration handed to the engine starter is the original or a local copy", "argument is "+pick.Term(cfg))
					return
				}
			}
			if pick.End == nil {
				finished = true
				break
			}
			// next state of the loop-carried values
			next := map[*ssa.Phi]absVal{}
			for _, in := range pick.End.Instrs {
				ph, ok := in.(*ssa.Phi)
				if !ok {
					continue
				}
				if v, ok := ev.eval(pick, pick.PhiIn(ph), 0); ok {
					next[ph] = v
				}
			}
			ev.state = next
			cur = pick.End
		}
		if !finished {
			okPart, whyPart = false, fmt.Sprintf("with %d port ranges the loop does not terminate within 40 iterations (an index that never advances)", L)
			continue
		}
		folded++
		// the chunks partition [0,L) in order
		at := int64(0)
		good := true
		for _, c := range chunks {
			if c.i != at || c.n < 1 {
				good = false
			}
			at = c.i + c.n
		}
		if at != L {
			good = false
		}
		if !good {
			var cs []string
			for _, c := range chunks {
				cs = append(cs, fmt.Sprintf("[%d:%d]", c.i, c.i+c.n))
			}
			okPart, whyPart = false, fmt.Sprintf("with %d port ranges the engines are started for %s: ranges are skipped or scanned twice", L, strings.Join(cs, " "))
		}
	}
	r.Count("chunk_lengths_folded", folded)
	r.Check(okPart && folded >= 5, "C01.R2", name+"/bounds", pos, "folded over representative list lengths, the chunks handed to the engine starter partition the port-range list in order (none missing, none repeated)", whyPart)
	r.Check(okCopy, "C01.R2", name+"/chunk-config", pos, "the engine starter receives a copy of the configuration whose Ports is exactly the chunk", whyCopy)
}

// ---- R3 ----

// ctorKind classifies a pkg/scan constructor by the struct it builds.
func ctorKind(p *Prog, f *ssa.Function) string {
	if f == nil || f.Pkg != p.SPkg("pkg/scan") || f.Blocks == nil {
		return ""
	}
	res := ""
	if f.Signature.Results().Len() == 1 {
		res = types.TypeString(f.Signature.Results().At(0).Type(), nil)
	}
	var st *types.Struct
	for _, b := range f.Blocks {
		for _, in := range b.Instrs {
			if a, ok := in.(*ssa.Alloc); ok {
				if s, ok := a.Type().(*types.Pointer).Elem().Underlying().(*types.Struct); ok {
					st = s
				}
			}
		}
	}
	if st == nil {
		return ""
	}
	has := func(t string) bool {
		for i := 0; i < st.NumFields(); i++ {
			if strings.HasSuffix(types.TypeString(st.Field(i).Type(), nil), t) {
				return true
			}
		}
		return false
	}
	switch {
	case strings.HasSuffix(res, "pkg/scan.RequestGenerator") && has("pkg/scan.IPGenerator") && has("pkg/scan.PortGenerator"):
		return "cross"
	case strings.HasSuffix(res, "pkg/scan.RequestGenerator") && has("pkg/scan.OpenFileFunc"):
		return "pairfile"
	case strings.HasSuffix(res, "pkg/scan.RequestGenerator") && has("pkg/scan.IPGenerator"):
		return "addrreq"
	case strings.HasSuffix(res, "pkg/scan.IPGenerator") && has("pkg/scan.OpenFileFunc"):
		return "addrfile"
	case strings.HasSuffix(res, "pkg/scan.IPGenerator") && st.NumFields() == 0:
		return "subnet"
	case strings.HasSuffix(res, "pkg/scan.PortGenerator") && st.NumFields() == 0:
		return "ports"
	}
	return ""
}

func describeGen(p *Prog, s *Seg, v ssa.Value) string {
	v = s.Resolve(v)
	if mi, ok := v.(*ssa.MakeInterface); ok {
		v = s.Resolve(mi.X)
	}
	c, ok := v.(*ssa.Call)
	if !ok {
		return "?"
	}
	k := ctorKind(p, StaticCallee(&c.Call))
	if k == "" {
		// a decorator (exclusion filter, live loop, ARP resolver) does not change the mode: look through it
		if f := StaticCallee(&c.Call); f != nil && f.Signature.Results().Len() == 1 && types.TypeString(f.Signature.Results().At(0).Type(), nil) == reqGenT {
			for _, a := range c.Call.Args {
				if types.TypeString(a.Type(), nil) == reqGenT {
					return describeGen(p, s, a)
				}
			}
		}
		return "?"
	}
	if k == "cross" || k == "addrreq" {
		var parts []string
		for _, a := range c.Call.Args {
			parts = append(parts, describeGen(p, s, a))
		}
		return k + "(" + strings.Join(parts, ",") + ")"
	}
	return k
}

func emptinessFact(s *Seg, field string) (known, empty bool) {
	for _, f := range s.Facts {
		bo, ok := f.Cond.(*ssa.BinOp)
		if !ok {
			continue
		}
		// x.field == "" / != ""
		if bo.Op == token.EQL || bo.Op == token.NEQ {
			for _, pair := range [][2]ssa.Value{{bo.X, bo.Y}, {bo.Y, bo.X}} {
				if cs, isS := constString(pair[1]); isS && cs == "" {
					if loadsFieldNamed(s, pair[0], field) {
						return true, (bo.Op == token.EQL) == f.Truth
					}
				}
			}
		}
		c, ok := bo.X.(*ssa.Call)
		if !ok {
			continue
		}
		b, ok := c.Call.Value.(*ssa.Builtin)
		if !ok || b.Name() != "len" {
			continue
		}
		if !loadsFieldNamed(s, c.Call.Args[0], field) {
			continue
		}
		v0, ok0 := EvalCond(s, bo, func(v ssa.Value) (int64, bool) {
			if v == ssa.Value(c) {
				return 0, true
			}
			return 0, false
		})
		v1, ok1 := EvalCond(s, bo, func(v ssa.Value) (int64, bool) {
			if v == ssa.Value(c) {
				return 1, true
			}
			return 0, false
		})
		if ok0 && ok1 && v0 != v1 {
			return true, v0 == f.Truth
		}
	}
	return false, false
}

func checkGeneratorModes(p *Prog, r *Report) {
	n := 0
	for _, fn := range p.SrcFuncs() {
		if fn.Pkg != p.SPkg("command") || fn.Parent() != nil || fn.Signature.Results().Len() != 1 ||
			types.TypeString(fn.Signature.Results().At(0).Type(), nil) != reqGenT {
			continue
		}
		shared := fn.Signature.Recv() == nil && fn.Signature.Params().Len() > 0 && !hasParamOfType(fn, reqGenT)
		if !shared && fn.Signature.Params().Len() != 0 {
			continue
		}
		if !shared && !recvHasField(fn, "portRanges") {
			continue // port-less option family: checkPortlessModes
		}
		// builders that choose between modes: mention the ip-file option
		name := FuncName(fn)
		pos := p.Pos(fn.Pos())
		fp := PathsInl(fn)
		modes := map[string]string{}
		bad := ""
		for _, s := range fp.Segs {
			if !s.Returns() {
				continue
			}
			fk, fe := emptinessFact(s, "ipFile")
			pk, pe := emptinessFact(s, "portRanges")
			if !fk {
				bad = "a path chooses the generator without consulting the target-file option"
				continue
			}
			// the value stored into the result cell / returned, before deferred wrappers
			var val ssa.Value
			ret := s.Exit.(*ssa.Return)
			if u, ok := ret.Results[0].(*ssa.UnOp); ok && u.Op == token.MUL {
				for _, e := range s.Events {
					if e.Kind == EvStore && e.Addr == u.X {
						val = e.Val
					}
				}
			} else {
				val = ret.Results[0]
			}
			if val == nil {
				bad = "result not assigned on a path"
				continue
			}
			desc := describeGen(p, s, val)
			key := ""
			switch {
			case fe:
				key = "no-file"
			case pk && pe:
				key = "file,no-ports"
			case pk && !pe:
				key = "file,ports"
			default:
				bad = "with a target file the generator is chosen without consulting the port ranges"
				continue
			}
			if old, had := modes[key]; had && old != desc {
				bad = "mode " + key + " builds both " + old + " and " + desc
			}
			modes[key] = desc
		}
		if len(modes) == 0 && bad != "" {
			continue // not a mode-choosing builder
		}
		n++
		if shared {
			// one builder serving several option families: count the families that call it
			fams := map[string]bool{}
			for _, cs := range p.CallSites(fn) {
				if cs.Parent().Signature.Recv() == nil {
					continue
				}
				if rn := recvNamed(cs.Parent()); rn != nil {
					fams[rn.Obj().Name()] = true
				}
			}
			if len(fams) > 1 {
				n += len(fams) - 1
			}
		}
		oracle := map[string]string{"no-file": "cross(subnet,ports)", "file,no-ports": "pairfile", "file,ports": "cross(addrfile,ports)"}
		var keys []string
		for k := range oracle {
			keys = append(keys, k)
		}
		sort.Strings(keys)
		for _, k := range keys {
			r.Check(modes[k] == oracle[k] && bad == "", "C01.R3", name+"/"+k, pos, "target mode ("+k+") builds "+oracle[k], fmt.Sprintf("builds %q %s", modes[k], bad))
		}
	}
	n += checkPortlessModes(p, r)
	r.Count("mode_builders", n)
	if n < 2 {
		r.Viol("C01.R3", "mode builders", "-", "both option families (packet and generic scans) have a generator-mode builder", fmt.Sprintf("found %d", n))
	}
}

// checkStarterChoice: configuration sites of commands whose options carry port ranges go through
// the chunking starter; port-less ones through the plain starter.
func checkStarterChoice(p *Prog, r *Report) {
	cmd := p.SPkg("command")
	var ctor, chunker *ssa.Function
	for _, fn := range p.SrcFuncs() {
		if fn.Pkg != cmd || fn.Parent() != nil {
			continue
		}
		if fn.Signature.Variadic() && fn.Signature.Results().Len() == 1 {
			if pt, ok := fn.Signature.Results().At(0).Type().(*types.Pointer); ok {
				if st, ok := pt.Elem().Underlying().(*types.Struct); ok {
					for i := 0; i < st.NumFields(); i++ {
						if st.Field(i).Name() == "bpfFilter" {
							ctor = fn
						}
					}
				}
			}
		}
	}
	chunker, _ = chunkFunc(p, engineReach(p))
	if ctor == nil || chunker == nil {
		r.Undecided("C01.R3", "starter choice", "-", "the packet-scan configuration constructor and the chunking starter are found", "not found")
		return
	}
	sites := p.CallSites(ctor)
	for i, cs := range sites {
		fn := cs.Parent()
		key := fmt.Sprintf("%s/starter-site#%d", FuncName(fn), siteOrdinal(sites, i))
		// consumer of the configuration
		var consumer *ssa.Function
		if v, ok := cs.(ssa.Value); ok {
			for _, ref := range *v.Referrers() {
				if c, ok := ref.(*ssa.Call); ok {
					consumer = StaticCallee(&c.Call)
				}
			}
		}
		// options type reachable in the enclosing function
		portful := false
		var visit func(f *ssa.Function)
		seen := map[*ssa.Function]bool{}
		visit = func(f *ssa.Function) {
			if f == nil || seen[f] {
				return
			}
			seen[f] = true
			for _, b := range f.Blocks {
				for _, in := range b.Instrs {
					if fa, ok := in.(*ssa.FieldAddr); ok {
						t := fa.X.Type()
						if pt, ok := t.Underlying().(*types.Pointer); ok {
							t = pt.Elem()
						}
						if n, ok := t.(*types.Named); ok && n.Obj().Pkg() != nil && n.Obj().Pkg().Path() == cmd.Pkg.Path() {
							if o, _, _ := types.LookupFieldOrMethod(n, true, cmd.Pkg, "portRanges"); o != nil {
								portful = true
							}
						}
					}
				}
			}
		}
		visit(fn)
		want := "plain starter"
		if portful {
			want = "chunking starter"
		}
		got := "plain starter"
		if consumer == chunker {
			got = "chunking starter"
		} else if consumer == nil {
			got = "no direct consumer"
		}
		r.Check(got == want, "C01.R3", key, p.Pos(cs.Pos()), "commands with port ranges start through the chunking starter (BPF filters do not take long port lists), port-less ones through the plain starter", "options have port ranges="+fmt.Sprint(portful)+", configuration goes to the "+got)
	}
}

// ---- R4 ----

func checkReopenable(p *Prog, r *Report) {
	const oft = modPath + "/pkg/scan.OpenFileFunc"
	seen := map[*ssa.Function]bool{}
	var fns []*ssa.Function
	add := func(v ssa.Value) {
		switch t := v.(type) {
		case *ssa.MakeClosure:
			if f, ok := t.Fn.(*ssa.Function); ok && !seen[f] {
				seen[f] = true
				fns = append(fns, f)
			}
		case *ssa.Function:
			if !seen[t] {
				seen[t] = true
				fns = append(fns, t)
			}
		}
	}
	for _, fn := range p.SrcFuncs() {
		for _, b := range fn.Blocks {
			for _, in := range b.Instrs {
				switch t := in.(type) {
				case *ssa.ChangeType:
					if types.TypeString(t.Type(), nil) == oft {
						add(t.X)
					}
				case *ssa.Return:
					if fn.Signature.Results().Len() == 1 && types.TypeString(fn.Signature.Results().At(0).Type(), nil) == oft {
						for _, rv := range t.Results {
							add(stripConvKeepIface(rv))
						}
					}
				case *ssa.Call:
					// closures passed where an OpenFileFunc parameter is expected
					sig := t.Call.Signature()
					for i, a := range t.Call.Args {
						j := i
						if t.Call.IsInvoke() {
							j = i
						} else if sig.Recv() != nil {
							j = i - 1
						}
						if j >= 0 && j < sig.Params().Len() && types.TypeString(sig.Params().At(j).Type(), nil) == oft {
							add(stripConvKeepIface(a))
						}
					}
				}
			}
		}
	}
	sort.Slice(fns, func(i, j int) bool { return FuncName(fns[i]) < FuncName(fns[j]) })
	for _, fn := range fns {
		name := FuncName(fn)
		ok, why := true, ""
		n := 0
		for _, s := range Paths(fn).Segs {
			if !s.Returns() || retClass(s) == retFail {
				continue
			}
			ret := s.Exit.(*ssa.Return)
			if len(ret.Results) != 2 {
				continue
			}
			n++
			if g, w := freshStream(s, ret.Results[0], fn, 0); !g {
				ok, why = false, w
			}
		}
		r.Check(ok && n > 0, "C01.R4", name, p.Pos(fn.Pos()), "each call of the open function returns a stream created inside the call (the source is read once per port and once per chunk)", why)
	}
	r.Count("open_file_funcs", len(fns))
}

func freshStream(s *Seg, v ssa.Value, fn *ssa.Function, d int) (bool, string) {
	if d > 8 {
		return false, "stream provenance too deep"
	}
	v = s.Resolve(v)
	switch t := v.(type) {
	case *ssa.MakeInterface:
		return freshStream(s, t.X, fn, d+1)
	case *ssa.ChangeInterface:
		return freshStream(s, t.X, fn, d+1)
	case *ssa.Extract:
		if c, ok := t.Tuple.(*ssa.Call); ok && t.Index == 0 {
			switch calleeFull(&c.Call) {
			case "os.Open", "os.OpenFile":
				return true, ""
			}
			return false, "stream returned by " + CalleeName(&c.Call)
		}
	case *ssa.Call:
		switch calleeFull(&t.Call) {
		case "io.NopCloser", "io/ioutil.NopCloser", "bufio.NewReader":
			return freshStream(s, t.Call.Args[0], fn, d+1)
		case "bytes.NewReader", "bytes.NewBuffer", "bytes.NewBufferString", "strings.NewReader":
			return true, ""
		}
		return false, "stream returned by " + CalleeName(&t.Call)
	case *ssa.UnOp:
		if t.Op == token.MUL {
			if g, ok := t.X.(*ssa.Global); ok {
				return false, "the process-global stream " + g.Pkg.Pkg.Name() + "." + g.Name() + " is handed out on every call: the second pass reads EOF"
			}
			if _, ok := t.X.(*ssa.FreeVar); ok {
				return false, "a stream created outside the call is shared between passes (only the first pass sees data)"
			}
		}
	case *ssa.Alloc:
		return true, ""
	}
	return false, "cannot establish that the stream is created per call (" + s.Term(v) + ")"
}

// ---- R5 ----

// sx renders an SSA value as a structural expression (calls, operators, field loads, constants).
func sx(v ssa.Value, d int) string {
	if v == nil {
		return "nil"
	}
	if d > 14 {
		return "…"
	}
	switch t := v.(type) {
	case *ssa.Const:
		if t.Value == nil {
			return "nil"
		}
		return t.Value.ExactString()
	case *ssa.Parameter:
		return t.Name()
	case *ssa.FreeVar:
		return t.Name()
	case *ssa.Convert:
		return sx(t.X, d+1)
	case *ssa.ChangeType:
		return sx(t.X, d+1)
	case *ssa.MakeInterface:
		return sx(t.X, d+1)
	case *ssa.BinOp:
		return "(" + sx(t.X, d+1) + t.Op.String() + sx(t.Y, d+1) + ")"
	case *ssa.UnOp:
		if t.Op == token.MUL {
			if fa, ok := t.X.(*ssa.FieldAddr); ok {
				return sx(fa.X, d+1) + "." + fieldName(fa.X.Type(), fa.Field)
			}
			if ia, ok := t.X.(*ssa.IndexAddr); ok {
				return sx(ia.X, d+1) + "[]"
			}
			if a, ok := t.X.(*ssa.Alloc); ok {
				// a local cell assigned exactly once: its value
				var only ssa.Value
				n := 0
				for _, ref := range *a.Referrers() {
					if st, ok := ref.(*ssa.Store); ok && st.Addr == ssa.Value(a) {
						n++
						only = st.Val
					}
				}
				if n == 1 {
					return sx(only, d+1)
				}
			}
			return sx(t.X, d+1)
		}
		return t.Op.String() + sx(t.X, d+1)
	case *ssa.Extract:
		return sx(t.Tuple, d+1) + "#" + fmt.Sprint(t.Index)
	case *ssa.Call:
		var as []string
		for _, a := range t.Call.Args {
			as = append(as, sx(a, d+1))
		}
		n := CalleeName(&t.Call)
		if t.Call.IsInvoke() {
			as = append([]string{sx(t.Call.Value, d+1)}, as...)
		}
		return n + "(" + strings.Join(as, ",") + ")"
	case *ssa.Phi:
		return "phi"
	case *ssa.Alloc:
		return "new"
	case *ssa.Slice:
		return sx(t.X, d+1) + "[:]"
	}
	return v.Name()
}

func bits32(t types.Type) bool {
	b, _, ok := typeBits(t)
	return ok && b >= 32
}

func checkIteratorEmission(p *Prog, r *Report) {
	// the iterator constructor: returns (*T, error) where T has a bool-returning step method
	var ctor *ssa.Function
	for _, fn := range p.SrcFuncs() {
		if fn.Pkg != p.SPkg("pkg/scan") || fn.Parent() != nil || fn.Signature.Recv() != nil || fn.Signature.Results().Len() != 2 || fn.Signature.Params().Len() != 1 {
			continue
		}
		if !isErrorType(fn.Signature.Results().At(1).Type()) {
			continue
		}
		if pt, ok := fn.Signature.Results().At(0).Type().(*types.Pointer); ok {
			if n, ok := pt.Elem().(*types.Named); ok {
				ms := p.SSA.MethodSets.MethodSet(pt)
				for i := 0; i < ms.Len(); i++ {
					if sig, ok := ms.At(i).Type().(*types.Signature); ok && sig.Params().Len() == 0 && sig.Results().Len() == 1 && types.TypeString(sig.Results().At(0).Type(), nil) == "bool" {
						ctor = fn
						_ = n
					}
				}
			}
		}
	}
	if ctor == nil {
		r.Undecided("C01.R5", "iterator constructor", "-", "a constructor of a step iterator exists in pkg/scan", "not found")
		return
	}
	sites := p.CallSites(ctor)
	for _, cs := range sites {
		call, ok := cs.(*ssa.Call)
		if !ok {
			continue
		}
		fn := call.Parent()
		name := FuncName(fn)
		pos := p.Pos(call.Pos())
		// the size may be computed by a small helper: evaluate it on a path through the call with helpers expanded
		var ps *Seg
		for _, sg := range PathsInl(fn).Segs {
			if sg.Has(call) {
				ps = sg
				break
			}
		}
		R := func(v ssa.Value) ssa.Value {
			if ps != nil {
				return ps.Resolve(v)
			}
			return v
		}
		SX := func(v ssa.Value) string {
			if ps != nil {
				return sxSeg(ps, v, 0)
			}
			return sx(v, 0)
		}
		size := SX(call.Call.Args[0])
		// size expression
		kind := ""
		switch {
		case strings.Contains(size, "EndPort") && strings.Contains(size, "StartPort"):
			kind = "ports"
			// ((X.EndPort-X.StartPort)+1) with the same X
			ok := false
			// end - start + 1 over the same range X, in any order of the additions, at >= 32 bits
			if lf, isL := linForm(R(stripConvAll(call.Call.Args[0]))); isL && lf.c == 1 && lf.minBits >= 32 && len(lf.coef) == 2 {
				var e, st string
				for k, c := range lf.coef {
					if c == 1 && strings.HasSuffix(k, ".EndPort") {
						e = strings.TrimSuffix(k, ".EndPort")
					}
					if c == -1 && strings.HasSuffix(k, ".StartPort") {
						st = strings.TrimSuffix(k, ".StartPort")
					}
				}
				ok = e != "" && e == st
			}
			r.Check(ok, "C01.R5", name+"/size", pos, "a port range is iterated over exactly end-start+1 positions, computed in arithmetic of at least 32 bits", "size expression "+size)
		case strings.Contains(size, "Size("):
			kind = "addresses"
			ok := false
			if sh, isB := stripConvAll(R(stripConvAll(call.Call.Args[0]))).(*ssa.BinOp); isB && sh.Op == token.SHL && bits32(sh.Type()) {
				if one, isC := constInt(sh.X); isC && one == 1 {
					if bt, _, okb := typeBits(sh.Type()); okb && bt >= 64 {
						if sub, isS := stripConvAll(R(stripConvAll(sh.Y))).(*ssa.BinOp); isS && sub.Op == token.SUB {
							ex1, o1 := R(sub.X).(*ssa.Extract)
							ex0, o0 := R(sub.Y).(*ssa.Extract)
							if o1 && o0 && ex1.Tuple == ex0.Tuple && ex1.Index == 1 && ex0.Index == 0 {
								if c, isC := ex1.Tuple.(*ssa.Call); isC && calleeFull(&c.Call) == "(net.IPMask).Size" && strings.HasSuffix(SX(c.Call.Args[0]), "DstSubnet.Mask") {
									ok = true
								}
							}
						}
					}
				}
			}
			r.Check(ok, "C01.R5", name+"/size", pos, "a subnet is iterated over exactly 1<<(bits-ones) positions of the target mask, in 64-bit arithmetic", "size expression "+size)
		default:
			r.Undecided("C01.R5", name+"/size", pos, "the iterator size is the port-range width or the subnet size", "size expression "+size)
			continue
		}
		// the consuming loop: the goroutine (or fn itself) that calls the step method
		var consumer *ssa.Function
		cands := append([]*ssa.Function{fn}, fn.AnonFuncs...)
		if fn.Parent() != nil {
			cands = append(cands, fn.Parent().AnonFuncs...)
		}
		for _, c := range cands {
			for _, b := range c.Blocks {
				for _, in := range b.Instrs {
					if cc, ok := in.(*ssa.Call); ok && returnsBool(&cc.Call) && cc.Call.Signature().Recv() != nil && cc.Call.Signature().Params().Len() == 0 {
						if f := StaticCallee(&cc.Call); f != nil && f.Pkg == ctor.Pkg {
							consumer = c
						}
					}
				}
			}
		}
		if consumer == nil {
			r.Undecided("C01.R5", name+"/emission", pos, "the loop stepping the iterator is found", "no step call near the constructor call")
			continue
		}
		okE, whyE := true, ""
		okV, whyV := true, ""
		nStep := 0
		for _, s := range Paths(consumer).Segs {
			var step *Event
			for _, e := range s.Events {
				if e.Kind == EvCall && returnsBool(e.Call) && e.Call.Signature().Recv() != nil {
					if f := StaticCallee(e.Call); f != nil && f.Pkg == ctor.Pkg && f.Signature.Params().Len() == 0 {
						step = e
					}
				}
			}
			if step == nil {
				continue
			}
			nStep++
			var before, after []Emit
			for _, em := range s.Emits() {
				if em.Ev.Ord < step.Ord {
					before = append(before, em)
				} else {
					after = append(after, em)
				}
			}
			if len(before) != 1 || len(after) != 0 {
				okE, whyE = false, fmt.Sprintf("%d emissions before and %d after the step on one path (a position is emitted twice or never)", len(before), len(after))
				continue
			}
			if before[0].Raw || before[0].Lossy {
				okE, whyE = false, "the emission is not a blocking ctx-guarded send"
			}
			ev := sx(before[0].Val, 0)
			switch kind {
			case "ports":
				// ((X.StartPort-1)+Int64(Int(it)))
				want := false
				// start + Int() - 1 in any order of the additions, at >= 32 bits
				if lf, isL := linForm(stripConvAll(before[0].Val)); isL && lf.c == -1 && lf.minBits >= 32 && len(lf.coef) == 2 {
					nStart, nInt := 0, 0
					for k, c := range lf.coef {
						if c == 1 && strings.HasSuffix(k, ".StartPort") {
							nStart++
						}
						if c == 1 && strings.Contains(k, ").Int(") {
							nInt++
						}
					}
					want = nStart == 1 && nInt == 1
				}
				if !want {
					okV, whyV = false, "emitted port is "+ev+", expected (start-1)+Int()"
				}
			case "addresses":
				// ordered: Int() ; Add(B,B,i) ; FillBytes(B, 4 bytes) ; Sub(B,B,i) ; emit(FillBytes result)
				var iv, add, fill, sub *ssa.Call
				for _, e := range s.Events {
					if e.Kind != EvCall || e.Ord > step.Ord {
						continue
					}
					c := e.Instr.(*ssa.Call)
					switch calleeFull(e.Call) {
					case "(*math/big.Int).Add":
						add = c
					case "(*math/big.Int).FillBytes":
						fill = c
					case "(*math/big.Int).Sub":
						sub = c
					default:
						if f := StaticCallee(e.Call); f != nil && f.Pkg == ctor.Pkg && f.Signature.Recv() != nil && !returnsBool(e.Call) && f.Signature.Params().Len() == 0 {
							iv = c
						}
					}
				}
				same := func(a, b ssa.Value) bool { return sx(a, 0) == sx(b, 0) }
				inPlace := iv != nil && add != nil && fill != nil && sub != nil &&
					add.Call.Args[2] == ssa.Value(iv) && sub.Call.Args[2] == ssa.Value(iv) &&
					s.ord[iv] < s.ord[add] && s.ord[add] < s.ord[fill] && s.ord[fill] < s.ord[sub] &&
					same(add.Call.Args[0], add.Call.Args[1]) && same(sub.Call.Args[0], sub.Call.Args[1]) &&
					same(add.Call.Args[0], fill.Call.Args[0]) && same(add.Call.Args[0], sub.Call.Args[0])
				// scratch variant: X.Add(base, Int()); X.FillBytes(..) with the base never modified in the loop
				scratch := iv != nil && add != nil && fill != nil && sub == nil &&
					((add.Call.Args[2] == ssa.Value(iv) && !same(add.Call.Args[0], add.Call.Args[1])) || (add.Call.Args[1] == ssa.Value(iv) && !same(add.Call.Args[0], add.Call.Args[2]))) &&
					s.ord[iv] < s.ord[add] && s.ord[add] < s.ord[fill] && same(add.Call.Args[0], fill.Call.Args[0])
				if scratch {
					base := add.Call.Args[1]
					if base == ssa.Value(iv) {
						base = add.Call.Args[2]
					}
					if !strings.Contains(sx(base, 0), "baseIP") && !strings.Contains(sx(base, 0), "SetBytes") {
						scratch = false
					}
				}
				good := (inPlace || scratch) && stripConvAll(before[0].Val) == ssa.Value(fill)
				if good {
					// 4-byte buffer
					if sl, isSl := fill.Call.Args[1].(*ssa.Slice); isSl {
						if a, isA := sl.X.(*ssa.Alloc); isA {
							if at, isArr := a.Type().(*types.Pointer).Elem().Underlying().(*types.Array); !isArr || at.Len() != 4 {
								good = false
							}
						}
					}
				}
				if !good {
					okV, whyV = false, "per position the running value must be advanced by Int(), rendered to 4 bytes, restored by the same Int(), and that rendering emitted; found "+ev
				}
			}
		}
		r.Check(okE && nStep > 0, "C01.R5", name+"/emission", p.Pos(consumer.Pos()), "between two steps of the iterator exactly one blocking guarded emission happens, before the step", whyE)
		r.Check(okV && nStep > 0, "C01.R5", name+"/value", p.Pos(consumer.Pos()), "the emitted value is base-1+Int() of the current position", whyV)
		if kind == "addresses" {
			// base = SetBytes(IP.Mask(Mask)) - 1 in the constructor function
			base := false
			for _, b := range fn.Blocks {
				for _, in := range b.Instrs {
					if c, ok := in.(*ssa.Call); ok && calleeFull(&c.Call) == "(*math/big.Int).Sub" {
						if one, ok := c.Call.Args[2].(*ssa.Call); ok && calleeFull(&one.Call) == "math/big.NewInt" {
							if k, ok := constInt(one.Call.Args[0]); ok && k == 1 {
								e := sx(c.Call.Args[1], 0)
								if strings.Contains(e, "SetBytes(") && strings.Contains(e, "(net.IP).Mask(") && strings.Contains(e, "DstSubnet.IP") && strings.Contains(e, "DstSubnet.Mask") {
									base = true
								}
							}
						}
					}
				}
			}
			r.Check(base, "C01.R5", name+"/base", pos, "the running value starts at (network address masked by the target mask) - 1", "base initialisation not recognised")
		}
	}
}

func stripConvAll(v ssa.Value) ssa.Value {
	for {
		switch t := v.(type) {
		case *ssa.Convert:
			v = t.X
		case *ssa.ChangeType:
			v = t.X
		case *ssa.MakeInterface:
			v = t.X
		default:
			return v
		}
	}
}

func stripAdd1(v ssa.Value) (ssa.Value, bool) {
	bo, ok := stripConvAll(v).(*ssa.BinOp)
	if !ok || bo.Op != token.ADD {
		return nil, false
	}
	if k, ok := constInt(bo.Y); ok && k == 1 {
		return stripConvAll(bo.X), true
	}
	if k, ok := constInt(bo.X); ok && k == 1 {
		return stripConvAll(bo.Y), true
	}
	return nil, false
}

// ---- R6 ----

func checkCrossProduct(p *Prog, r *Report) {
	var gen *ssa.Function
	for _, fn := range p.Implementers(modPath+"/pkg/scan", "RequestGenerator", "GenerateRequests") {
		rt := fn.Signature.Recv().Type()
		if pt, ok := rt.(*types.Pointer); ok {
			rt = pt.Elem()
		}
		st, ok := rt.Underlying().(*types.Struct)
		if !ok {
			continue
		}
		hasIP, hasPort := false, false
		for i := 0; i < st.NumFields(); i++ {
			ts := types.TypeString(st.Field(i).Type(), nil)
			if strings.HasSuffix(ts, "pkg/scan.IPGenerator") {
				hasIP = true
			}
			if strings.HasSuffix(ts, "pkg/scan.PortGenerator") {
				hasPort = true
			}
		}
		if hasIP && hasPort {
			gen = fn
		}
	}
	if gen == nil {
		r.Undecided("C01.R6", "cross product generator", "-", "a RequestGenerator combining an IPGenerator and a PortGenerator exists", "not found")
		return
	}
	gs := GoClosures(gen)
	if len(gs) != 1 {
		r.Undecided("C01.R6", FuncName(gen), p.Pos(gen.Pos()), "one producer goroutine", fmt.Sprint(len(gs)))
		return
	}
	g := gs[0]
	name := FuncName(g)
	pos := p.Pos(g.Pos())
	heads := loopHeadersSorted(g)
	if len(heads) != 2 {
		r.Undecided("C01.R6", name, pos, "the producer is two nested loops (ports x addresses)", fmt.Sprintf("%d loops", len(heads)))
		return
	}
	fp := PathsInl(g) // a small helper that resolves the address and sends the request is expanded in place
	ipT, portT := modPath+"/pkg/scan.IPGetter", modPath+"/pkg/scan.PortGetter"
	var inner, outer *ssa.BasicBlock
	for _, h := range heads {
		for _, s := range fp.From(h) {
			for _, rc := range s.Recvs() {
				if chanElemIs(rc.Chan.Type(), ipT) {
					inner = h
				}
				if chanElemIs(rc.Chan.Type(), portT) {
					outer = h
				}
			}
		}
	}
	if inner == nil || outer == nil || inner == outer {
		r.Undecided("C01.R6", name, pos, "outer loop receives ports, inner loop receives addresses", "loops not identified")
		return
	}
	// inner loop
	okEarly, whyEarly := true, ""
	okEmit, whyEmit := true, ""
	okRegen, whyRegen := true, ""
	nIn := 0
	for _, s := range fp.From(inner) {
		if s.IsSelectPanicTail() {
			continue
		}
		var rc *Recv
		for _, x := range s.Recvs() {
			if chanElemIs(x.Chan.Type(), ipT) {
				xx := x
				rc = &xx
			}
		}
		if rc == nil {
			continue
		}
		open := true
		if rc.Ok != nil {
			if k, v := s.BoolFact(rc.Ok); k {
				open = v
			}
		}
		emits := s.Emits()
		if open {
			nIn++
			if s.End != inner {
				okEarly, whyEarly = false, "the address loop is left while addresses remain (the rest of the pass is skipped for this port)"
			}
			if len(emits) != 1 || emits[0].Raw || emits[0].Lossy {
				okEmit, whyEmit = false, fmt.Sprintf("%d emissions for one (port, address) pair", len(emits))
				continue
			}
			lf := litFields(s, emits[0].Val)
			get := func(f string) string { return sx(s.Resolve(lf[f]), 0) }
			want := map[string]func(string) bool{
				"DstIP":   func(e string) bool { return strings.Contains(e, "GetIP(") && strings.HasSuffix(e, "#0") },
				"DstPort": func(e string) bool { return strings.Contains(e, "GetPort(") && strings.HasSuffix(e, "#0") },
				"Err":     func(e string) bool { return strings.Contains(e, "GetIP(") && strings.HasSuffix(e, "#1") },
				"SrcIP":   func(e string) bool { return strings.HasSuffix(e, "r.SrcIP") },
				"SrcMAC":  func(e string) bool { return strings.HasSuffix(e, "r.SrcMAC") },
			}
			for f, pred := range want {
				if _, has := lf[f]; !has || !pred(get(f)) {
					okEmit, whyEmit = false, "request field "+f+" is "+get(f)
				}
			}
			// the address comes from this iteration's receive, the port from the outer receive
			if ip, has := lf["DstIP"]; has {
				if ex, ok := s.Resolve(ip).(*ssa.Extract); ok {
					if c, ok := ex.Tuple.(*ssa.Call); ok && rc.Val != nil && c.Call.Value != rc.Val && s.Resolve(c.Call.Value) != rc.Val {
						okEmit, whyEmit = false, "DstIP is not the address received in this iteration"
					}
				}
			}
		} else {
			// channel drained: regenerate before going back to the port loop
			var regen *ssa.Call
			for _, e := range s.Events {
				if e.Kind == EvCall {
					if m := IfaceMethod(e.Call); m != nil && m.Name() == "IPs" {
						regen = e.Instr.(*ssa.Call)
					}
				}
			}
			if s.End == outer {
				if regen == nil {
					okRegen, whyRegen = false, "the drained address channel is ranged again for the next port without being regenerated (every port after the first gets no addresses)"
					continue
				}
				stored := false
				ex0 := extractOf(regen, 0)
				for _, e := range s.Events {
					if e.Kind == EvStore && ex0 != nil && e.Val == ssa.Value(ex0) {
						stored = true
					}
				}
				if !stored {
					okRegen, whyRegen = false, "the regenerated address channel is not the one ranged by the next pass"
				}
				if ex1 := extractOf(regen, 1); ex1 != nil {
					if k, isNil := s.NilFact(ex1); !k || !isNil {
						okRegen, whyRegen = false, "the next port proceeds although regenerating the addresses failed"
					}
				}
			} else if s.End == nil {
				if regen != nil {
					if len(emits) != 1 {
						okRegen, whyRegen = false, "a failed regeneration is not reported"
					}
				}
			}
		}
	}
	r.Check(okEarly && nIn > 0, "C01.R6", name+"/inner-complete", pos, "the address loop runs until the address channel is closed", whyEarly)
	r.Check(okEmit && nIn > 0, "C01.R6", name+"/pair", pos, "exactly one blocking guarded request per (port, address), carrying that address, that port, the address error and the range's source fields", whyEmit)
	r.Check(okRegen, "C01.R6", name+"/regenerate", pos, "after the address channel is drained a fresh address stream is generated, checked and installed before the next port", whyRegen)
	// outer loop: port error => one error request, continue; the inner channel is the regenerated cell
	okOuter, whyOuter := true, ""
	nOut := 0
	for _, s := range fp.From(outer) {
		var gp *ssa.Call
		for _, e := range s.Events {
			if e.Kind == EvCall {
				if m := IfaceMethod(e.Call); m != nil && m.Name() == "GetPort" {
					gp = e.Instr.(*ssa.Call)
				}
			}
		}
		if gp == nil {
			continue
		}
		nOut++
		if ex := extractOf(gp, 1); ex != nil {
			if k, isNil := s.NilFact(ex); k && !isNil {
				if len(s.Emits()) != 1 || s.End != outer {
					okOuter, whyOuter = false, "a port error is not reported once / stops the scan of the remaining ports"
				}
			} else if k && isNil {
				if s.End != inner {
					okOuter, whyOuter = false, "a valid port does not enter the address loop"
				}
			}
		}
	}
	r.Check(okOuter && nOut >= 2, "C01.R6", name+"/ports", pos, "every received port either reports its error once or enters the address loop", whyOuter)
	// first pass: the generator obtains both streams before spawning, errors returned
	okPre, whyPre := true, ""
	for _, s := range Paths(gen).Segs {
		hasGo := false
		for _, e := range s.Events {
			if e.Kind == EvGo {
				hasGo = true
			}
		}
		if !hasGo {
			continue
		}
		for _, mname := range []string{"Ports", "IPs"} {
			found := false
			for _, e := range s.Events {
				if e.Kind == EvCall {
					if m := IfaceMethod(e.Call); m != nil && m.Name() == mname {
						if ex := extractOf(e.Instr.(*ssa.Call), 1); ex != nil {
							if k, isNil := s.NilFact(ex); k && isNil {
								found = true
							}
						}
					}
				}
			}
			if !found {
				okPre, whyPre = false, mname+" is not obtained (and its error tested) before the producer starts"
			}
		}
	}
	r.Check(okPre, "C01.R6", FuncName(gen)+"/streams", p.Pos(gen.Pos()), "both streams are obtained and their errors returned before the producer goroutine starts", whyPre)
}

// ---- R9: the port list is the union of both port sources ----

func checkPortSources(p *Prog, r *Report) {
	const prT = "[]*" + modPath + "/pkg/scan.PortRange"
	srcOf := func(c *ssa.Call) string {
		f := StaticCallee(&c.Call)
		if f == nil || f.Pkg != p.SPkg("command") || f.Signature.Results().Len() != 2 || types.TypeString(f.Signature.Results().At(0).Type(), nil) != prT || f.Signature.Params().Len() != 1 {
			return ""
		}
		if types.TypeString(f.Signature.Params().At(0).Type(), nil) == "string" {
			return "flag"
		}
		return "file"
	}
	n := 0
	for _, fn := range p.methodsByName("command", "parseRawOptions") {
		// does it (with helpers expanded) store the options' port list?
		fp := PathsInl(fn)
		stores := false
		for _, s := range fp.Segs {
			for _, e := range s.Events {
				if e.Kind == EvStore {
					// directly, or through a pointer parameter of an expanded helper bound to &o.portRanges
					if fa, ok := s.Resolve(e.Addr).(*ssa.FieldAddr); ok && fieldName(fa.X.Type(), fa.Field) == "portRanges" {
						stores = true
					}
				}
			}
		}
		if !stores {
			continue
		}
		n++
		name := FuncName(fn)
		pos := p.Pos(fn.Pos())
		if len(fp.Headers) > 0 || fp.Truncated {
			r.Undecided("C01.R9", name, pos, "the port options are combined without loops", "loop / too many paths in the option parser")
			continue
		}
		ok, why := true, ""
		nPaths := 0
		for _, s := range fp.Segs {
			if !s.Returns() || retClass(s) == retFail {
				continue
			}
			cur := map[string]bool{}
			undecided := ""
			var eval func(v ssa.Value, d int) map[string]bool
			eval = func(v ssa.Value, d int) map[string]bool {
				out := map[string]bool{}
				if d > 10 || v == nil {
					undecided = "value too deep"
					return out
				}
				v = s.Resolve(v)
				if isNilConst(v) {
					return out
				}
				switch t := v.(type) {
				case *ssa.Extract:
					if c, isC := t.Tuple.(*ssa.Call); isC && t.Index == 0 {
						if k := srcOf(c); k != "" {
							out[k] = true
							return out
						}
					}
				case *ssa.Call:
					if bi, isB := t.Call.Value.(*ssa.Builtin); isB && bi.Name() == "append" {
						for k := range eval(t.Call.Args[0], d+1) {
							out[k] = true
						}
						for k := range eval(t.Call.Args[1], d+1) {
							out[k] = true
						}
						return out
					}
				case *ssa.UnOp:
					if _, f, isF := fieldLoad(t); isF && f == "portRanges" {
						for k := range cur {
							out[k] = true
						}
						return out
					}
					if t.Op == token.MUL {
						if fa, isFA := s.Resolve(t.X).(*ssa.FieldAddr); isFA && fieldName(fa.X.Type(), fa.Field) == "portRanges" {
							for k := range cur {
								out[k] = true
							}
							return out
						}
					}
				case *ssa.Slice:
					return eval(t.X, d+1)
				}
				undecided = "port list built from " + s.Term(v)
				return out
			}
			for _, e := range s.Events {
				if e.Kind != EvStore {
					continue
				}
				if fa, isFA := s.Resolve(e.Addr).(*ssa.FieldAddr); isFA && fieldName(fa.X.Type(), fa.Field) == "portRanges" {
					cur = eval(e.Val, 0)
				}
			}
			if undecided != "" {
				r.Undecided("C01.R9", name, pos, "the stored port list is built from the two port parsers and append", undecided)
				ok = true
				nPaths = -1000
				break
			}
			fk, fe := emptinessFact(s, "rawPortRanges")
			pk, pe := emptinessFact(s, "portFile")
			want := map[string]bool{}
			if fk && !fe {
				want["flag"] = true
			}
			if pk && !pe {
				want["file"] = true
			}
			nPaths++
			for _, k := range []string{"flag", "file"} {
				if want[k] && !cur[k] {
					ok, why = false, fmt.Sprintf("with both options set as on this path (ports flag given=%v, ports file given=%v) the ranges from the %s are not in the scanned list (overwritten instead of appended)", want["flag"], want["file"], map[string]string{"flag": "--ports flag", "file": "--ports-file"}[k])
				}
				if !want[k] && cur[k] {
					ok, why = false, "the port list contains a source that was not given"
				}
			}
		}
		if nPaths >= 0 {
			r.Check(ok && nPaths >= 4, "C01.R9", name, pos, "on every option combination the scanned port list is exactly the union of the --ports ranges and the --ports-file ranges", why)
		}
	}
	if n < 2 {
		r.Viol("C01.R9", "port option parsers", "-", "both option families store their port list in parseRawOptions", fmt.Sprint(n))
	}
}

func recvHasField(fn *ssa.Function, field string) bool {
	if fn.Signature.Recv() == nil {
		return false
	}
	o, _, _ := types.LookupFieldOrMethod(fn.Signature.Recv().Type(), true, fn.Pkg.Pkg, field)
	_, isVar := o.(*types.Var)
	return isVar
}

// checkPortlessModes: the address-only option family (icmp) scans the subnet argument without a
// target file and the file's addresses with one; the choice is made on the target-file option.
func checkPortlessModes(p *Prog, r *Report) int {
	const sink = modPath + "/pkg/scan.NewPacketSource"
	n := 0
	for _, fn := range p.SrcFuncs() {
		if fn.Pkg != p.SPkg("command") || fn.Parent() != nil || !recvHasField(fn, "ipFile") || recvHasField(fn, "portRanges") {
			continue
		}
		type site struct {
			s *Seg
			v ssa.Value
		}
		var sites []site
		fp := PathsInl(fn)
		if fn.Signature.Params().Len() == 0 && fn.Signature.Results().Len() == 1 && types.TypeString(fn.Signature.Results().At(0).Type(), nil) == reqGenT {
			for _, s := range fp.Segs {
				if s.Returns() {
					sites = append(sites, site{s, s.Exit.(*ssa.Return).Results[0]})
				}
			}
		} else {
			for _, c := range callInstrs(fn, sink) {
				for _, s := range fp.Segs {
					if s.Has(c) {
						sites = append(sites, site{s, c.Call.Args[0]})
					}
				}
			}
		}
		if len(sites) == 0 {
			continue
		}
		n++
		modes := map[string]string{}
		bad := ""
		for _, st := range sites {
			fk, fe := emptinessFact(st.s, "ipFile")
			if !fk {
				bad = "a path chooses the generator without consulting the target-file option"
				continue
			}
			key := "file"
			if fe {
				key = "no-file"
			}
			desc := describeGen(p, st.s, st.v)
			if old, had := modes[key]; had && old != desc {
				bad = "mode " + key + " builds both " + old + " and " + desc
			}
			modes[key] = desc
		}
		oracle := map[string]string{"no-file": "addrreq(subnet)", "file": "addrreq(addrfile)"}
		for _, k := range []string{"file", "no-file"} {
			r.Check(modes[k] == oracle[k] && bad == "", "C01.R3", FuncName(fn)+"/"+k, p.Pos(fn.Pos()), "address-only target mode ("+k+") builds "+oracle[k], fmt.Sprintf("builds %q %s", modes[k], bad))
		}
	}
	return n
}

// linForm normalises an integer expression built with +, -, conversions and constants into a linear
// combination of atoms (rendered structurally) plus a constant. minBits is the narrowest width in which any
// of the additions / subtractions is carried out.
type linear struct {
	coef    map[string]int64
	c       int64
	minBits int
}

func linForm(v ssa.Value) (linear, bool) {
	out := linear{coef: map[string]int64{}, minBits: 64}
	var walk func(v ssa.Value, sign int64, d int) bool
	walk = func(v ssa.Value, sign int64, d int) bool {
		if d > 12 {
			return false
		}
		switch t := v.(type) {
		case *ssa.Const:
			if k, ok := constInt(t); ok {
				out.c += sign * k
				return true
			}
			return false
		case *ssa.Convert:
			return walk(t.X, sign, d+1)
		case *ssa.ChangeType:
			return walk(t.X, sign, d+1)
		case *ssa.BinOp:
			if t.Op == token.ADD || t.Op == token.SUB {
				if b, _, ok := typeBits(t.Type()); ok && b < out.minBits {
					out.minBits = b
				}
				if !walk(t.X, sign, d+1) {
					return false
				}
				if t.Op == token.SUB {
					return walk(t.Y, -sign, d+1)
				}
				return walk(t.Y, sign, d+1)
			}
		}
		out.coef[sx(v, 0)] += sign
		return true
	}
	ok := walk(v, 1, 0)
	for k, c := range out.coef {
		if c == 0 {
			delete(out.coef, k)
		}
	}
	return out, ok
}

// loadsFieldNamed: v is a load of an options field called field, or a parameter (possibly captured by a
// closure) of a shared helper that every call site binds to such a load.
func loadsFieldNamed(s *Seg, v ssa.Value, field string) bool {
	v = s.Resolve(v)
	if _, fl, isF := fieldLoad(v); isF && fl == field {
		return true
	}
	for i := 0; i < 6; i++ {
		if fv, isFV := v.(*ssa.FreeVar); isFV {
			if b := BindingOf(fv); b != nil {
				v = b
				continue
			}
		}
		if u, isU := v.(*ssa.UnOp); isU && u.Op == token.MUL {
			cell := u.X
			if fv, isFV := cell.(*ssa.FreeVar); isFV {
				if b := BindingOf(fv); b != nil {
					cell = b
				}
			}
			if a, isA := cell.(*ssa.Alloc); isA && theProg != nil {
				if st := theProg.StoresToAlloc(a); len(st) == 1 {
					v = st[0]
					continue
				}
			}
		}
		break
	}
	prm, isP := v.(*ssa.Parameter)
	if !isP || theProg == nil {
		return false
	}
	args := theProg.ArgsBoundTo(prm)
	if len(args) == 0 {
		return false
	}
	for _, a := range args {
		if _, fl, isF := fieldLoad(a); !isF || fl != field {
			return false
		}
	}
	return true
}
