package main

import (
	"fmt"
	"go/constant"
	"go/token"
	"go/types"
	"strings"

	"golang.org/x/tools/go/ssa"
)

func init() {
	register(&propDef{
		ID: "C16",
		Explanation: "Static conformance of the engine caller: (R1) every invocation of the derived context's cancel that can run before the caller's wg.Wait() returns lies on a path that first receives from the engine's done channel and only then starts and awaits a timer of conf.exitDelay (timer creation ordered after the done receive); the function-level deferred cancel runs after the wait; " +
			"(R2) conf.exitDelay is written only by the withExitDelay option and the constructor default, every newEngineConfig site passes withExitDelay(opts.exitDelay), that options field is bound to the --exit-delay flag whose default is the 300ms constant also used as constructor default; the chunking starter copies the configuration without touching the delay; " +
			"(R3) engine and logger run under the derived context, so they keep listening until that cancel; (R4) done means sent: the sender closes done when its writing goroutine ends (C07.R3 re-evaluated) and every packet.Writer in the repository performs exactly one synchronous write to the layer below before returning (no queue or goroutine between WritePacketData and the wire); (R5) a late reply is reported: records go to the logger's own output through stateless writers (C08.R3 clauses) and the receive loop stops only for the terminal error class (C20.R3 re-evaluated).",
		NotDecided:  []string{"that the delay elapses in wall-clock terms", "that a reply arriving within the delay is delivered by kernel and scheduler in time"},
		Assumptions: []string{"time.After/NewTimer/Sleep wait at least the given duration", "context.WithCancel semantics"},
		Run:         runC16,
	})
}

const fnEngineStart = modPath + "/pkg/scan.Engine.Start"
const fnLogResults = modPath + "/command/log.Logger.LogResults"

func engineCallers(p *Prog) []*ssa.Function {
	direct := p.FuncsCalling(func(c *ssa.CallCommon) bool { return IsCallTo(c, fnEngineStart) })
	// a thin adapter whose Start only forwards to the wrapped engine's Start stands for the engine: its
	// callers are the engine callers
	fwd := map[*ssa.Function]bool{}
	var out []*ssa.Function
	for _, f := range direct {
		if isPlainForwarder(f, "Start") {
			fwd[f] = true
			continue
		}
		out = append(out, f)
	}
	if len(fwd) > 0 {
		for _, f := range p.FuncsCalling(func(c *ssa.CallCommon) bool { return fwd[StaticCallee(c)] }) {
			out = append(out, f)
		}
	}
	return out
}

func runC16(p *Prog, r *Report) {
	r.Min("C16.R1", 2)
	r.Min("C16.R2", 11+1+4) // 11 commands, >= 1 construction site, default, flags
	r.Min("C16.R3", 2)
	r.Min("C16.R4", 4)
	callers := engineCallers(p)
	var fs []*ssa.Function
	for _, f := range callers {
		if f.Pkg == p.SPkg("command") {
			fs = append(fs, f)
		}
	}
	if len(fs) == 0 {
		r.Undecided("C16.R1", "engine caller", "-", "a function in package command calls scan.Engine.Start", "none found")
		return
	}
	for _, f := range fs {
		checkCancelOrder(p, r, f, "C16.R1", "C16.R3")
	}
	checkExitDelayProvenance(p, r)
	checkDoneMeansSent(p, r)
	// R5: a reply arriving within the delay is reported: the record goes to the logger's own output and the
	// writers keep no sticky state (C08.R3 logger clauses re-evaluated); the receive loop ends only for a
	// closed or broken socket (C20.R3 classification re-evaluated), so it is still listening
	r.Min("C16.R5", 6)
	{
		sub := NewReport("C16", "quick")
		checkLogResults(p, sub, "C16.R5")
		r.Obs = append(r.Obs, sub.Obs...)
		sub20 := NewReport("C16", "quick")
		runC20(p, sub20)
		for _, o := range sub20.Obs {
			if o.Rule == "C20.R3" {
				o2 := *o
				o2.Rule = "C16.R5"
				r.Obs = append(r.Obs, &o2)
			}
		}
	}
}

// checkDoneMeansSent (R4): "the last probe has left" is what the engine's done channel announces.
// (a) the sender closes done when its writing goroutine ends and the engine returns that channel
// (C07.R3 re-evaluated); (b) every packet.Writer of the repository writes synchronously: when
// WritePacketData returns, the frame has been handed to the layer below - no queue, no goroutine.
func checkDoneMeansSent(p *Prog, r *Report) {
	sub := NewReport("C16", r.Tier)
	runC07(p, sub)
	for _, o := range sub.Obs {
		if o.Rule == "C07.R3" {
			o2 := *o
			o2.Rule = "C16.R4"
			r.Obs = append(r.Obs, &o2)
		}
	}
	n := 0
	for _, fn := range p.Implementers(modPath+"/pkg/packet", "Writer", "WritePacketData") {
		if fn.Blocks == nil || fn.Synthetic != "" {
			continue
		}
		n++
		name := FuncName(fn)
		pos := p.Pos(fn.Pos())
		fp := PathsInl(fn)
		if len(fp.Headers) > 0 || fp.Truncated {
			r.Undecided("C16.R4", name+"/synchronous", pos, "the writer is loop-free", "loop in a packet writer")
			continue
		}
		ok, why := true, ""
		for _, s := range fp.Segs {
			if !s.Returns() {
				continue
			}
			var wr *ssa.Call
			nw := 0
			for _, e := range s.Events {
				switch e.Kind {
				case EvSend, EvGo:
					ok, why = false, "the frame is handed to another goroutine ("+s.DescribeEvent(p, e)+"): WritePacketData returns before the frame has left"
				case EvCall:
					if e.Call != nil && calleeName(e.Call) == "WritePacketData" {
						nw++
						if c, isC := e.Instr.(*ssa.Call); isC {
							wr = c
						}
					}
				}
			}
			if nw != 1 {
				if retClass(s) == retFail {
					continue // refused before writing
				}
				ok, why = false, fmt.Sprintf("a returning path performs %d writes to the layer below (expected exactly one)", nw)
				continue
			}
			if wr != nil && s.Resolve(s.Exit.(*ssa.Return).Results[0]) != ssa.Value(wr) {
				ok, why = false, "the error of the write below is not what WritePacketData returns"
			}
		}
		r.Check(ok, "C16.R4", name+"/synchronous", pos, "WritePacketData returns only after exactly one synchronous write to the layer below, whose error it returns (so the sender's done means sent)", why)
	}
	if n < 2 {
		r.Viol("C16.R4", "packet writers", "-", "the repository's packet.Writer implementations are found (rate limiter, afpacket source)", fmt.Sprint(n))
	}
}

func calleeName(c *ssa.CallCommon) string {
	if c.IsInvoke() {
		return c.Method.Name()
	}
	if f := StaticCallee(c); f != nil {
		return f.Name()
	}
	return ""
}

// checkCancelOrder implements C16.R1/R3 (also used as C08.R5).
func checkCancelOrder(p *Prog, r *Report, fn *ssa.Function, rule, rule3 string) {
	name := FuncName(fn)
	pos := p.Pos(fn.Pos())
	// locate WithCancel, Start
	var wc, start *ssa.Call
	for _, b := range fn.Blocks {
		for _, in := range b.Instrs {
			if c, ok := in.(*ssa.Call); ok {
				switch {
				case calleeFull(&c.Call) == "context.WithCancel":
					wc = c
				case IsCallTo(&c.Call, fnEngineStart):
					start = c
				}
			}
		}
	}
	if wc == nil || start == nil {
		r.Undecided(rule, name, pos, "the engine caller derives a cancellable context and starts the engine", "context.WithCancel or Engine.Start not found in one function")
		return
	}
	var dctx, cancel ssa.Value
	for _, ref := range *wc.Referrers() {
		if ex, ok := ref.(*ssa.Extract); ok {
			if ex.Index == 0 {
				dctx = ex
			} else {
				cancel = ex
			}
		}
	}
	isCancel := func(v ssa.Value) bool {
		for _, o := range p.OriginsIP(v) {
			if o == cancel {
				return true
			}
		}
		return false
	}
	isDerivedCtx := func(v ssa.Value) bool {
		os := p.Origins(v)
		if len(os) == 0 {
			return false
		}
		// the ctx variable is re-assigned: the value reaching the use must be the derived one.
		// Origins unions all stores to the cell; require that the derived context is among them and
		// that the use is ordered after the WithCancel call in the same function (straight-line entry block).
		for _, o := range os {
			if o == dctx {
				return true
			}
		}
		return false
	}
	var doneV ssa.Value
	for _, ref := range *start.Referrers() {
		if ex, ok := ref.(*ssa.Extract); ok && ex.Index == 0 {
			doneV = ex
		}
	}
	isDone := func(v ssa.Value) bool {
		if doneV == nil {
			return false
		}
		for _, o := range p.OriginsIP(v) {
			if o == doneV {
				return true
			}
		}
		return false
	}
	// R3: engine and logger run under the derived context
	r.Check(isDerivedCtx(methodArgs(&start.Call)[0]) && startAfter(fn, wc, start), rule3, name+"/engine-ctx", pos, "the engine is started with the derived (cancellable) context", "Start does not receive the context derived by WithCancel")
	logOK := false
	for _, f := range append([]*ssa.Function{fn}, fn.AnonFuncs...) {
		for _, b := range f.Blocks {
			for _, in := range b.Instrs {
				if c, ok := in.(*ssa.Call); ok && IsCallTo(&c.Call, fnLogResults) {
					if isDerivedCtx(c.Call.Args[0]) {
						logOK = true
					}
				}
			}
		}
	}
	r.Check(logOK, rule3, name+"/logger-ctx", pos, "the result logger runs under the derived context (it listens until that cancel)", "LogResults is not called with the derived context")

	// R1a: the function-level cancel is deferred and every return after Start passes wg.Wait
	fp := Paths(fn)
	for _, s := range fp.Segs {
		for _, e := range s.Events {
			if e.Kind == EvCall && isCancel(e.Call.Value) {
				// inline cancel in the caller: must come after Wait
				waited := false
				for _, e2 := range s.Events {
					if e2.Kind == EvCall && e2.Ord < e.Ord {
						if m, _ := waitGroupCall(e2.Call); m == "Wait" {
							waited = true
						}
					}
				}
				r.Check(waited, rule, name+"/inline-cancel", pos, "an inline cancel in the caller comes after wg.Wait()", "cancel() before the wait", s.Describe(p)...)
			}
		}
		if s.Returns() && s.Has(start) {
			waited := false
			for _, e := range s.Events {
				if e.Kind == EvCall {
					if m, _ := waitGroupCall(e.Call); m == "Wait" {
						waited = true
					}
				}
			}
			r.Check(waited, rule, name+"/return-after-wait", pos, "the caller returns (running its deferred cancel) only after wg.Wait()", "a return path after Start lacks wg.Wait()", s.Describe(p)...)
		}
	}
	// R1b: goroutines that invoke cancel
	n := 0
	cancelCands := append([]*ssa.Function{}, fn.AnonFuncs...)
	// a goroutine may also be a named function started with `go f(done, delay, cancel)`
	for _, b := range fn.Blocks {
		for _, in := range b.Instrs {
			if g, isGo := in.(*ssa.Go); isGo {
				if t := StaticCallee(&g.Call); t != nil && t.Parent() == nil && t.Pkg == fn.Pkg {
					cancelCands = append(cancelCands, t)
				}
			}
		}
	}
	for _, g := range cancelCands {
		invokes := false
		for _, b := range g.Blocks {
			for _, in := range b.Instrs {
				if ci, ok := in.(ssa.CallInstruction); ok && isCancel(ci.Common().Value) {
					invokes = true
				}
			}
		}
		if !invokes {
			continue
		}
		// a literal that fn itself defers (`defer func() { cancel() }()`) is the function-level deferred
		// cancel in another spelling: it runs when fn returns, which R1a orders after wg.Wait()
		deferredByFn, startedAsGo := false, false
		for _, b := range fn.Blocks {
			for _, in := range b.Instrs {
				switch t := in.(type) {
				case *ssa.Defer:
					if StaticCallee(&t.Call) == g {
						deferredByFn = true
					}
				case *ssa.Go:
					if StaticCallee(&t.Call) == g {
						startedAsGo = true
					}
				}
			}
		}
		if deferredByFn && !startedAsGo {
			continue
		}
		n++
		gp := PathsInl(g)
		if len(gp.Headers) > 0 {
			r.Undecided(rule, FuncName(g), p.Pos(g.Pos()), "the cancelling goroutine is loop-free", "loops in the cancel goroutine are not modelled")
			continue
		}
		i := 0
		for _, s := range gp.Segs {
			if s.IsSelectPanicTail() || !s.Returns() {
				continue
			}
			i++
			key := segKey(g, "path", i)
			// position of cancel on this path: deferred => at rundefers; inline => its ordinal
			cancelOrd := -1
			for _, e := range s.Events {
				if e.Kind == EvCall && isCancel(e.Call.Value) {
					cancelOrd = e.Ord
				}
				if e.Kind == EvRunDefers && cancelOrd < 0 {
					for _, d := range Deferred(g) {
						if isCancel(d.Call.Value) && s.Has(d) {
							cancelOrd = e.Ord
						}
					}
				}
			}
			if cancelOrd < 0 {
				continue // this path does not cancel
			}
			// done receive, then timer creation with exitDelay, then timer wait — all before cancel
			doneOrd, timerOrd, waitOrd := -1, -1, -1
			var timerDur ssa.Value
			for _, rc := range s.Recvs() {
				if (isDone(rc.Chan) || isDone(s.Resolve(rc.Chan))) && doneOrd < 0 {
					doneOrd = rc.Ev.Ord
				}
			}
			parentCtxExit := false
			for _, e := range s.Events {
				if e.Kind == EvCall && e.Ord < cancelOrd {
					switch calleeFull(e.Call) {
					case "time.Sleep":
						if doneOrd >= 0 && e.Ord > doneOrd {
							timerOrd, waitOrd, timerDur = e.Ord, e.Ord, e.Call.Args[0]
						}
					}
				}
			}
			for _, rc := range s.Recvs() {
				if rc.Ev.Ord >= cancelOrd || doneOrd < 0 || rc.Ev.Ord < doneOrd {
					continue
				}
				// receive from a timer channel: time.After(d) / time.NewTimer(d).C / time.Tick...
				for _, o := range p.Origins(rc.Chan) {
					c, ok := o.(*ssa.Call)
					if !ok {
						// timer.C: field load of a *time.Timer produced by NewTimer
						continue
					}
					if cf := calleeFull(&c.Call); cf == "time.After" {
						if s.Has(c) && s.ord[c] > doneOrd {
							timerOrd, waitOrd, timerDur = s.ord[c], rc.Ev.Ord, c.Call.Args[0]
						} else {
							timerOrd = -2 // created before the done receive (or elsewhere)
						}
					}
				}
				if b, f, ok := fieldLoad(s.Resolve(rc.Chan)); ok && f == "C" {
					for _, o := range p.Origins(b) {
						if c, ok := o.(*ssa.Call); ok && calleeFull(&c.Call) == "time.NewTimer" {
							if s.Has(c) && s.ord[c] > doneOrd {
								timerOrd, waitOrd, timerDur = s.ord[c], rc.Ev.Ord, c.Call.Args[0]
							} else {
								timerOrd = -2
							}
						}
					}
				}
				if isCtxDone(rc.Chan) && !isDerivedCtx(ctxOfDone(s.Resolve(rc.Chan))) {
					parentCtxExit = true
				}
			}
			if parentCtxExit && selectDoneChosen(s) {
				// leaving early because the *parent* context was cancelled (Ctrl-C) is allowed
				r.OK(rule, key, p.Pos(g.Pos()), "cancel after done and the exit delay, or on parent cancellation")
				continue
			}
			switch {
			case doneOrd < 0:
				r.Viol(rule, key, p.Pos(g.Pos()), "cancel is preceded by a receive from the engine's done channel", "no receive from done before cancel on this path", s.Describe(p)...)
			case timerOrd == -2:
				r.Viol(rule, key, p.Pos(g.Pos()), "the exit-delay timer is started after the last probe has left (after the done receive)", "the timer awaited here was created before the done receive, so the delay is counted from the scan's start", s.Describe(p)...)
			case timerOrd < 0 || waitOrd < 0:
				r.Viol(rule, key, p.Pos(g.Pos()), "cancel is preceded by a wait of the exit delay after done", "no timer wait between the done receive and cancel", s.Describe(p)...)
			default:
				_, f, ok := fieldLoad(s.Resolve(timerDur))
				if !ok {
					// a once-assigned local copy of the configured delay (possibly captured by the goroutine)
					_, f, ok = fieldLoad(throughOnceAssigned(p, throughParam(p, throughOnceAssigned(p, s.Resolve(timerDur)))))
				}
				r.Check(ok && f == "exitDelay", rule, key, p.Pos(g.Pos()), "the awaited duration is the configuration's exitDelay", "timer duration is "+s.Term(timerDur), s.Describe(p)...)
			}
		}
	}
	if n == 0 {
		r.Viol(rule, name+"/cancel-goroutine", pos, "a goroutine cancels the derived context after done + exit delay (otherwise the scan never exits)", "no goroutine invokes cancel")
	}
}

// startAfter: both calls are in the entry block with wc first (straight-line code).
func startAfter(fn *ssa.Function, a, b *ssa.Call) bool {
	if a.Block() == b.Block() {
		for _, in := range a.Block().Instrs {
			if in == ssa.Instruction(a) {
				return true
			}
			if in == ssa.Instruction(b) {
				return false
			}
		}
	}
	return a.Block().Dominates(b.Block())
}

func checkExitDelayProvenance(p *Prog, r *Report) {
	cmd := p.SPkg("command")
	// the engine configuration type: struct in package command with a field exitDelay and a logger
	var cfgT *types.Named
	var delayField *types.Var
	for _, n := range cmd.Pkg.Scope().Names() {
		tn, ok := cmd.Pkg.Scope().Lookup(n).(*types.TypeName)
		if !ok {
			continue
		}
		st, ok := tn.Type().Underlying().(*types.Struct)
		if !ok {
			continue
		}
		var d *types.Var
		hasRange := false
		for i := 0; i < st.NumFields(); i++ {
			f := st.Field(i)
			if f.Name() == "exitDelay" && f.Type().String() == "time.Duration" {
				d = f
			}
			if types.TypeString(f.Type(), nil) == modPath+"/pkg/scan.Range" {
				hasRange = true
			}
		}
		if d != nil && hasRange {
			cfgT, _ = tn.Type().(*types.Named)
			delayField = d
		}
	}
	if cfgT == nil {
		r.Undecided("C16.R2", "engine configuration", "-", "a configuration struct with exitDelay and the scan range exists in package command", "not found")
		return
	}
	// constructor: function returning *cfgT
	var ctor *ssa.Function
	for _, fn := range p.SrcFuncs() {
		if fn.Pkg == cmd && fn.Parent() == nil && fn.Signature.Results().Len() == 1 {
			if pt, ok := fn.Signature.Results().At(0).Type().(*types.Pointer); ok && types.Identical(pt.Elem(), cfgT) {
				ctor = fn
			}
		}
	}
	if ctor == nil {
		r.Undecided("C16.R2", "engine configuration constructor", "-", "a constructor returning *engineConfig exists", "not found")
		return
	}
	// who writes exitDelay
	var defConst constant.Value
	for _, fn := range p.SrcFuncs() {
		for _, b := range fn.Blocks {
			for _, in := range b.Instrs {
				st, ok := in.(*ssa.Store)
				if !ok {
					continue
				}
				fa, ok := st.Addr.(*ssa.FieldAddr)
				if !ok || fieldObj(fa) != delayField {
					continue
				}
				key := FuncName(fn) + "/writes-exitDelay"
				switch {
				case fn == ctor:
					if c, ok := st.Val.(*ssa.Const); ok {
						defConst = c.Value
					}
					r.OK("C16.R2", key, p.Pos(st.Pos()), "exitDelay is written only by the constructor default and the withExitDelay option")
				case fn.Parent() != nil && SummOption(fn.Parent()) != nil:
					r.OK("C16.R2", key, p.Pos(st.Pos()), "exitDelay is written only by the constructor default and the withExitDelay option")
				default:
					r.Viol("C16.R2", key, p.Pos(st.Pos()), "exitDelay is written only by the constructor default and the withExitDelay option", "another function overwrites the configured exit delay (e.g. per chunk)")
				}
			}
		}
	}
	want := constant.MakeInt64(300 * 1000 * 1000)
	r.Check(defConst != nil && constant.Compare(defConst, token.EQL, want), "C16.R2", FuncName(ctor)+"/default", p.Pos(ctor.Pos()), "the configuration default is 300ms", fmt.Sprint("default constant: ", defConst))
	// every construction site passes withExitDelay(opts.exitDelay)
	sites := p.CallSites(ctor)
	for i, cs := range sites {
		c := cs.Common()
		key := fmt.Sprintf("%s/newEngineConfig-site#%d", FuncName(cs.Parent()), siteOrdinal(sites, i))
		elems, ok := VariadicElems(c.Args[len(c.Args)-1])
		if !ok {
			r.Undecided("C16.R2", key, p.Pos(cs.Pos()), "options are passed in place", "variadic argument built elsewhere")
			continue
		}
		uses, _ := OptionUses(elems)
		var arg ssa.Value
		found := false
		for _, u := range uses {
			if u.Field == "exitDelay" {
				found, arg = true, u.Arg
			}
		}
		if !found {
			r.Viol("C16.R2", key, p.Pos(cs.Pos()), "the construction site passes withExitDelay(opts.exitDelay)", "no exit-delay option: --exit-delay is ignored by this command")
			continue
		}
		fv := fieldVarOfLoad(arg)
		regs := p.FlagsOfField(fv)
		good := fv != nil && len(regs) > 0
		detail := "argument is not an options field bound to a flag: " + (*Seg)(nil).term(arg, 0)
		for _, rg := range regs {
			if rg.Name != "exit-delay" {
				good = false
				detail = "options field is bound to flag --" + rg.Name
			} else if rg.Default == nil || !constant.Compare(rg.Default, token.EQL, want) {
				good = false
				detail = fmt.Sprint("flag default is ", rg.Default)
			}
		}
		r.Check(good, "C16.R2", key, p.Pos(cs.Pos()), "withExitDelay receives the options field bound to --exit-delay (default 300ms)", detail)
	}
	r.Count("newEngineConfig_sites", len(sites))
	// every command reaches one of these (checked) construction sites: a command that built its
	// configuration some other way would silently ignore --exit-delay
	siteFns := map[*ssa.Function]bool{}
	for _, cs := range sites {
		f := cs.Parent()
		for f.Parent() != nil && !isRunE(f) {
			f = f.Parent()
		}
		siteFns[f] = true
	}
	nCmd := 0
	for _, fn := range p.SrcFuncs() {
		if fn.Pkg != p.SPkg("command") || !isRunE(fn) {
			continue
		}
		nCmd++
		reached := false
		for f := range p.staticReach(fn) {
			if siteFns[f] {
				reached = true
			}
		}
		r.Check(reached || siteFns[fn], "C16.R2", FuncName(fn)+"/reaches-config-site", p.Pos(fn.Pos()), "the command builds its engine configuration at one of the checked newEngineConfig sites", "no construction site is statically reachable from this command")
	}
	r.Count("commands", nCmd)
	// flag registrations themselves
	for _, rg := range p.FlagTable() {
		if rg.Name == "exit-delay" {
			ok := rg.Default != nil && constant.Compare(rg.Default, token.EQL, want) && strings.HasPrefix(rg.Method, "Duration")
			r.Check(ok, "C16.R2", FuncName(rg.Call.Parent())+"/flag-exit-delay", p.Pos(rg.Call.Pos()), "--exit-delay is a duration flag with default 300ms", fmt.Sprint("default ", rg.Default, " via ", rg.Method))
		}
	}
}

// siteOrdinal numbers call sites within their enclosing function (stable without line numbers).
func siteOrdinal(sites []ssa.CallInstruction, i int) int {
	n := 0
	for j := 0; j <= i; j++ {
		if sites[j].Parent() == sites[i].Parent() {
			n++
		}
	}
	return n
}

// throughOnceAssigned follows loads of local cells (also captured ones) that are stored exactly once
// to the stored value.
func throughOnceAssigned(p *Prog, v ssa.Value) ssa.Value {
	for i := 0; i < 6; i++ {
		u, ok := v.(*ssa.UnOp)
		if !ok || u.Op != token.MUL {
			return v
		}
		cell := u.X
		for j := 0; j < 6; j++ {
			fv, isFV := cell.(*ssa.FreeVar)
			if !isFV {
				break
			}
			b := BindingOf(fv)
			if b == nil {
				return v
			}
			cell = b
		}
		a, isA := cell.(*ssa.Alloc)
		if !isA {
			return v
		}
		st := p.StoresToAlloc(a)
		if len(st) != 1 {
			return v
		}
		v = st[0]
	}
	return v
}

// throughParam: a parameter bound to exactly one argument in the repository stands for that argument.
func throughParam(p *Prog, v ssa.Value) ssa.Value {
	for i := 0; i < 3; i++ {
		prm, ok := v.(*ssa.Parameter)
		if !ok {
			return v
		}
		args := p.ArgsBoundTo(prm)
		if len(args) != 1 {
			return v
		}
		v = args[0]
	}
	return v
}
