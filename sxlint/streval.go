package main

// Symbolic evaluation of string / byte-sequence expressions into pieces: literal text and symbolic
// components ("S:<expr>" for a value rendered with its String method or taken as a string, "D:<expr>" for
// the base-10 digits of an integer). fmt.Sprintf with %s/%d/%v verbs, string concatenation, append-based
// assembly, strconv.Itoa/FormatUint/FormatInt/AppendUint/AppendInt, []byte<->string conversions and
// strings.Builder-free helper functions (expanded through the segment) all evaluate to the same pieces, so a
// rule can state *what* the string is instead of *how* it is built.

import (
	"go/token"
	"go/types"
	"strings"

	"golang.org/x/tools/go/ssa"
)

func strEval(s *Seg, v ssa.Value, d int) ([]string, bool) {
	if v == nil || d > 14 {
		return nil, false
	}
	rv := v
	if s != nil {
		rv = s.Resolve(v)
	}
	sym := func(kind string, x ssa.Value) []string {
		if s != nil {
			return []string{kind + ":" + sxSeg(s, x, 0)}
		}
		return []string{kind + ":" + sx(x, 0)}
	}
	isInt := func(t types.Type) bool {
		b, ok := t.Underlying().(*types.Basic)
		return ok && b.Info()&types.IsInteger != 0
	}
	isStr := func(t types.Type) bool {
		b, ok := t.Underlying().(*types.Basic)
		return ok && b.Info()&types.IsString != 0
	}
	switch t := rv.(type) {
	case *ssa.Const:
		if t.Value == nil {
			return nil, true
		}
		if str, ok := constString(t); ok {
			if str == "" {
				return nil, true
			}
			return []string{"L:" + str}, true
		}
		if k, ok := constInt(t); ok && k >= 0 && k < 256 {
			return []string{"L:" + string(rune(k))}, true
		}
	case *ssa.BinOp:
		if t.Op == token.ADD && isStr(t.Type()) {
			a, okA := strEval(s, t.X, d+1)
			b, okB := strEval(s, t.Y, d+1)
			if okA && okB {
				return mergePieces(append(a, b...)), true
			}
			return nil, false
		}
	case *ssa.Convert:
		from, to := t.X.Type().Underlying(), t.Type().Underlying()
		_, fromSl := from.(*types.Slice)
		_, toSl := to.(*types.Slice)
		if (fromSl && isStr(to)) || (isStr(from) && toSl) || (isStr(from) && isStr(to)) {
			return strEval(s, t.X, d+1)
		}
	case *ssa.ChangeType:
		return strEval(s, t.X, d+1)
	case *ssa.MakeInterface:
		return strEval(s, t.X, d+1)
	case *ssa.MakeSlice:
		if k, ok := constInt(t.Len); ok && k == 0 {
			return nil, true
		}
	case *ssa.Slice:
		// buf[:0] of a fresh array / slice: empty
		if t.High != nil {
			if k, ok := constInt(t.High); ok && k == 0 {
				return nil, true
			}
		}
		if t.Low == nil && t.High == nil {
			return strEval(s, t.X, d+1)
		}
	case *ssa.Call:
		cf := calleeFull(&t.Call)
		switch cf {
		case "fmt.Sprintf":
			format, ok := constString(t.Call.Args[0])
			if !ok {
				return nil, false
			}
			elems, okv := VariadicElems(t.Call.Args[1])
			if !okv {
				return nil, false
			}
			var out []string
			ai := 0
			for i := 0; i < len(format); i++ {
				if format[i] != '%' {
					out = append(out, "L:"+string(format[i]))
					continue
				}
				if i+1 >= len(format) {
					return nil, false
				}
				i++
				switch format[i] {
				case '%':
					out = append(out, "L:%")
				case 's', 'v', 'd':
					if ai >= len(elems) {
						return nil, false
					}
					e := elems[ai]
					ai++
					if mi, isMI := e.(*ssa.MakeInterface); isMI {
						e = mi.X
					}
					if isInt(e.Type()) {
						out = append(out, sym("D", stripConv(e))...)
					} else if sub, okS := strEval(s, e, d+1); okS && isStr(e.Type()) {
						out = append(out, sub...)
					} else {
						out = append(out, sym("S", e)...)
					}
				default:
					return nil, false
				}
			}
			return mergePieces(out), true
		case "strconv.Itoa", "strconv.FormatUint", "strconv.FormatInt":
			if len(t.Call.Args) == 2 {
				if b, ok := constInt(t.Call.Args[1]); !ok || b != 10 {
					return nil, false
				}
			}
			return sym("D", stripConv(t.Call.Args[0])), true
		case "strconv.AppendUint", "strconv.AppendInt":
			if b, ok := constInt(t.Call.Args[2]); !ok || b != 10 {
				return nil, false
			}
			a, okA := strEval(s, t.Call.Args[0], d+1)
			if !okA {
				return nil, false
			}
			return mergePieces(append(a, sym("D", stripConv(t.Call.Args[1]))...)), true
		}
		if bi, ok := t.Call.Value.(*ssa.Builtin); ok && bi.Name() == "append" && len(t.Call.Args) == 2 {
			a, okA := strEval(s, t.Call.Args[0], d+1)
			if !okA {
				return nil, false
			}
			// append(b, x...) with x a string / byte slice, or append(b, c1, c2) with constant bytes
			if elems, okv := VariadicElems(t.Call.Args[1]); okv {
				for _, e := range elems {
					p, okP := strEval(s, e, d+1)
					if !okP {
						return nil, false
					}
					a = append(a, p...)
				}
				return mergePieces(a), true
			}
			b, okB := strEval(s, t.Call.Args[1], d+1)
			if !okB {
				return nil, false
			}
			return mergePieces(append(a, b...)), true
		}
		// x.String() and friends: a symbolic component
		if n := calleeName(&t.Call); n == "String" && len(t.Call.Args) <= 1 {
			if t.Call.IsInvoke() {
				return sym("S", t.Call.Value), true
			}
			if len(t.Call.Args) == 1 {
				return sym("S", t.Call.Args[0]), true
			}
		}
	case *ssa.UnOp, *ssa.Parameter, *ssa.Extract, *ssa.Lookup:
		if isStr(rv.Type()) {
			return sym("S", rv), true
		}
	}
	return nil, false
}

func mergePieces(in []string) []string {
	var out []string
	for _, p := range in {
		if strings.HasPrefix(p, "L:") && len(out) > 0 && strings.HasPrefix(out[len(out)-1], "L:") {
			out[len(out)-1] += p[2:]
			continue
		}
		out = append(out, p)
	}
	return out
}
