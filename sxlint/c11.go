package main

import (
	"fmt"
	"go/token"
	"go/types"
	"strings"

	"golang.org/x/tools/go/ssa"
)

func init() {
	register(&propDef{
		ID: "C11",
		Explanation: "Static conformance of the ARP cache round trip: (R1) the type the ARP processor emits is the type the cache loader decodes, its generated encoder and decoder agree with its tags key by key, and unknown keys are skipped; (R2) render/parse pairs — the address is rendered by net.IP.String and parsed by net.ParseIP, the MAC by net.HardwareAddr.String / net.ParseMAC, the loader stores exactly (parsed ip -> parsed mac) of the same line, every decode / parse / scanner error aborts the load, one Put per accepted line in file order; the printed sizes rest on the 6/4-byte guard (C06.R2 re-evaluated); " +
			"(R3) cache methods key the map by the same canonical ip.String(), every map access happens between Lock/RLock and the deferred unlock, and nothing is written (map or receiver state) under the read lock; (R4) resolver contract — per request the MAC is looked up by the request's own DstIP, the cache entry wins over the gateway MAC, neither => the request carries an error instead of a MAC, exactly one forward, no state carried between requests; " +
			"(R5) wiring — tcp/udp/icmp builders wrap the generator with the resolver over (gatewayMAC, cache) exactly when a cache was loaded, VPN mode skips cache loading, and the gateway MAC is the explicit option or the cache entry of the default gateway of the scan interface.",
		NotDecided:  []string{"net parse/print round trip itself (stdlib)", "behaviour of concurrent readers beyond lock discipline", "netlink's notion of the default gateway"},
		Assumptions: []string{"net.ParseIP(ip.String()) == ip for 4-byte addresses; net.ParseMAC(mac.String()) == mac for 6-byte addresses", "ip.String() is equal for the 4- and 16-byte spelling of an IPv4 address", "sync.RWMutex semantics"},
		Run:         runC11,
	})
}

func runC11(p *Prog, r *Report) {
	r.Min("C11.R1", 4)
	r.Min("C11.R2", 4+3+1)
	r.Min("C11.R3", 3*2)
	r.Min("C11.R4", 3+4)
	r.Min("C11.R5", 3+2)
	arpPk := p.Pkg("pkg/scan/arp")
	if arpPk == nil {
		r.Undecided("C11.R1", "pkg/scan/arp", "-", "the package exists", "not found")
		return
	}
	checkCacheSchema(p, r)
	checkCacheLoader(p, r)
	checkScannerBuffers(p, r, "C11.R2")
	// the loader's error reaches the caller: no deferred literal on the way from the option parser to
	// FillCache replaces it (a read fault or damaged line would otherwise start the scan with a partial cache)
	{
		fill := p.Func("pkg/scan/arp", "FillCache")
		n := 0
		for _, fn := range p.SrcFuncs() {
			if fill == nil || !p.staticReach(fn)[fill] {
				continue
			}
			n++
			bad := deferClobbersError(p, fn)
			r.Check(len(bad) == 0, "C11.R2", FuncName(fn)+"/error-not-clobbered", p.Pos(fn.Pos()), "the error of loading the ARP cache is what the function returns (no deferred assignment replaces it)", strings.Join(bad, "; "))
		}
		if n < 3 {
			r.Viol("C11.R2", "loader chain", "-", "FillCache and the option-parser functions that reach it are found", fmt.Sprint(n))
		}
	}
	// what `sx arp --json` prints is JSON on every option combination (live mode included): the arp
	// command's logger gets the JSON writer exactly when --json is set (C14.R6 re-evaluated for arp)
	{
		sub14 := NewReport("C11x", "quick")
		checkJSONWiring(p, sub14)
		n14 := 0
		for _, o := range sub14.Obs {
			if o.Rule == "C14.R6" && !strings.Contains(o.Construct, "genericScanCmdOpts") { // everything but the application scans' own logger
				o2 := *o
				o2.Rule = "C11.R1"
				r.Obs = append(r.Obs, &o2)
				n14++
			}
		}
		if n14 < 2 {
			r.Viol("C11.R1", "arp-json-wiring", "-", "the JSON wiring of the arp command's logger is found", fmt.Sprint(n14))
		}
	}
	checkCacheLocking(p, r)
	checkResolver(p, r)
	checkResolverWiring(p, r)
	// the MAC resolved for a request is the MAC of that request's frame: the fillers, shared by all
	// packet-building workers, keep no link-layer state between calls (C07.R5 re-evaluated)
	sub := NewReport("C11", "quick")
	runC07(p, sub)
	for _, o := range sub.Obs {
		if o.Rule == "C07.R5" && strings.HasSuffix(o.Construct, ".Fill") {
			o2 := *o
			o2.Rule = "C11.R4"
			r.Obs = append(r.Obs, &o2)
		}
	}
}

// ---- R1 ----

func arpProcessor(p *Prog) *ssa.Function {
	for _, f := range p.Implementers(modPath+"/pkg/packet", "Processor", "ProcessPacketData") {
		if f.Pkg == p.SPkg("pkg/scan/arp") {
			return f
		}
	}
	return nil
}

func cacheLoader(p *Prog) (*ssa.Function, *ssa.Call) {
	for _, fn := range p.SrcFuncs() {
		if fn.Pkg != p.SPkg("pkg/scan/arp") || fn.Parent() != nil {
			continue
		}
		if len(callInstrs(fn, "(*bufio.Scanner).Scan")) == 0 {
			continue
		}
		// the decode may sit in a small per-line helper expanded in place
		for _, s := range PathsInl(fn).Segs {
			for _, e := range s.Events {
				if e.Kind == EvCall {
					if isDecodeCall(e.Call) {
						return fn, e.Instr.(*ssa.Call)
					}
				}
			}
		}
	}
	return nil, nil
}

func checkCacheSchema(p *Prog, r *Report) {
	proc := arpProcessor(p)
	loader, um := cacheLoader(p)
	if proc == nil || loader == nil {
		r.Undecided("C11.R1", "schema", "-", "the ARP processor and the cache loader are found", fmt.Sprintf("processor=%v loader=%v", proc != nil, loader != nil))
		return
	}
	// emitted type
	var emitted types.Type
	for _, b := range proc.Blocks {
		for _, in := range b.Instrs {
			if c, ok := in.(*ssa.Call); ok {
				if m := IfaceMethod(&c.Call); m != nil && m.Name() == "Put" {
					if mi, ok := c.Call.Args[0].(*ssa.MakeInterface); ok {
						emitted = mi.X.Type()
					}
				}
			}
		}
	}
	decoded := decodeTarget(&um.Call).Type()
	r.Check(emitted != nil && types.Identical(emitted, decoded), "C11.R1", "arp/one-schema", p.Pos(loader.Pos()), "the ARP scan emits and the cache loader decodes one and the same type", fmt.Sprintf("emits %v, decodes %v", emitted, decoded))
	if pt, ok := decoded.(*types.Pointer); ok {
		if nt, ok := pt.Elem().(*types.Named); ok {
			checkCodec(p, r, "C11.R1", nt, true)
			// the loader goes through that type's own UnmarshalJSON, the writer through its MarshalJSON (generated pair)
			enc, dec := p.easyjsonCodec(nt)
			okM := false
			if enc != nil && dec != nil {
				mj := p.Func("pkg/scan/arp", "(ScanResult).MarshalJSON")
				if mj == nil {
					mj = p.Func("pkg/scan/arp", "(*ScanResult).MarshalJSON")
				}
				if mj != nil {
					for _, b := range mj.Blocks {
						for _, in := range b.Instrs {
							if c, ok := in.(*ssa.Call); ok && StaticCallee(&c.Call) == enc {
								okM = true
							}
						}
					}
				}
			}
			r.Check(okM, "C11.R1", "arp/marshal-uses-encoder", p.Pos(loader.Pos()), "MarshalJSON of the ARP result goes through the generated encoder checked above", "MarshalJSON does not call the generated encoder")
		}
	}
}

// ---- R2 ----

func checkCacheLoader(p *Prog, r *Report) {
	loader, um := cacheLoader(p)
	proc := arpProcessor(p)
	if loader == nil || proc == nil {
		return
	}
	name := FuncName(loader)
	pos := p.Pos(loader.Pos())
	// render side
	okR, whyR := false, "no record emitted"
	for _, s := range Paths(proc).Segs {
		for _, e := range s.Events {
			if e.Kind != EvCall {
				continue
			}
			if m := IfaceMethod(e.Call); m == nil || m.Name() != "Put" {
				continue
			}
			arg := s.Resolve(e.Call.Args[0])
			if mi, ok := arg.(*ssa.MakeInterface); ok {
				arg = s.Resolve(mi.X)
			}
			lf := litFields(s, arg)
			ip, mac := sxSeg(s, lf["IP"], 0), sxSeg(s, lf["MAC"], 0)
			// net.IP.String, or netip.Addr.String of a 4-byte address (the same dotted form, accepted by net.ParseIP)
			okR = (strings.HasPrefix(ip, "(net.IP).String(") || strings.HasPrefix(ip, "(net/netip.Addr).String(net/netip.AddrFrom4(")) && strings.HasPrefix(mac, "(net.HardwareAddr).String(")
			whyR = "IP rendered by " + ip + ", MAC by " + mac
		}
	}
	r.Check(okR, "C11.R2", FuncName(proc)+"/render", p.Pos(proc.Pos()), "the address is rendered by net.IP.String and the MAC by net.HardwareAddr.String (the forms net.ParseIP / net.ParseMAC accept)", whyR)
	// parse side
	okL, whyL := true, ""
	nPut := 0
	for _, s := range PathsInl(loader).Segs {
		var put *Event
		for _, e := range s.Events {
			if e.Kind == EvCall {
				if f := StaticCallee(e.Call); f != nil && f.Name() == "Put" && f.Pkg == loader.Pkg {
					if put != nil {
						okL, whyL = false, "two cache stores for one line"
					}
					put = e
				}
			}
		}
		if s.Has(um) {
			// a path that decoded a line: must end in Put (continue) or a failure return
			if put == nil && !(s.End == nil && retClass(s) == retFail) {
				okL, whyL = false, "a decoded line is neither stored nor refused"
			}
		}
		if put == nil {
			continue
		}
		nPut++
		if s.End == nil {
			okL, whyL = false, "the loader stops after the first entry"
		}
		if k, isNil := s.NilFact(um); !k || !isNil {
			okL, whyL = false, "an entry is stored although decoding the line may have failed"
		}
		entry := decodeTarget(&um.Call)
		ipArg, macArg := s.Resolve(put.Call.Args[1]), s.Resolve(put.Call.Args[2])
		ipc, isC := ipArg.(*ssa.Call)
		if !isC || calleeFull(&ipc.Call) != "net.ParseIP" {
			okL, whyL = false, "the stored key is not net.ParseIP of the line's address"
		} else {
			if b, f, isF := fieldLoad(s.Resolve(ipc.Call.Args[0])); !isF || f != "IP" || b != entry {
				okL, whyL = false, "the key is parsed from "+sxSeg(s, ipc.Call.Args[0], 0)+", not this line's ip"
			}
			if k, isNil := s.NilFact(ipc); !k || isNil {
				okL, whyL = false, "an unparsable address is stored"
			}
		}
		mex, isE := macArg.(*ssa.Extract)
		if !isE || mex.Index != 0 {
			okL, whyL = false, "the stored value is not net.ParseMAC of the line's MAC"
		} else if mc, isC := mex.Tuple.(*ssa.Call); !isC || calleeFull(&mc.Call) != "net.ParseMAC" {
			okL, whyL = false, "the stored value is not net.ParseMAC of the line's MAC"
		} else {
			if b, f, isF := fieldLoad(s.Resolve(mc.Call.Args[0])); !isF || f != "MAC" || b != entry {
				okL, whyL = false, "the MAC is parsed from "+sxSeg(s, mc.Call.Args[0], 0)+", not this line's mac"
			}
			if k, isNil := s.NilFact(extractOf(mc, 1)); !k || !isNil {
				okL, whyL = false, "a MAC is stored although parsing it may have failed"
			}
		}
		if _, isP := put.Call.Args[0].(*ssa.Parameter); !isP {
			okL, whyL = false, "the entry is stored into a different cache than the one being filled"
		}
	}
	r.Check(okL && nPut > 0, "C11.R2", name+"/store", pos, "each accepted line stores exactly (ParseIP(line.ip) -> ParseMAC(line.mac)); decode and parse errors abort the load", whyL)
	checkScannerDiscipline(p, r, loader, "C11.R2")
	subS := NewReport("C11", r.Tier)
	checkStaleDecodeTarget(p, subS, loader)
	if len(subS.Obs) == 0 {
		// decode inside a per-line helper: its local target is fresh for every call
		tgt, isA := decodeTarget(&um.Call).(*ssa.Alloc)
		fresh := isA && um.Parent() != loader && tgt.Parent() == um.Parent() && len(LoopHeaders(um.Parent())) == 0
		r.Check(fresh, "C11.R2", name+"/decode-target", pos, "a cache line never inherits fields of the previous line: the decode target is fresh per line", "no UnmarshalJSON into a per-line target found")
	}
	for _, o := range subS.Obs {
		o2 := *o
		o2.Rule = "C11.R2"
		o2.Text = "a cache line never inherits fields of the previous line: " + o.Text
		r.Obs = append(r.Obs, &o2)
	}
	// 6/4 byte guard (C06.R2)
	sub := NewReport("C11", r.Tier)
	checkARPGuard(p, sub, proc, PathsInl(proc))
	for _, o := range sub.Obs {
		o2 := *o
		o2.Rule = "C11.R2"
		o2.Text = "printed sizes are loadable: " + o.Text
		r.Obs = append(r.Obs, &o2)
	}
}

// ---- R3 ----

func checkCacheLocking(p *Prog, r *Report) {
	// the cache type: a struct in pkg/scan/arp with a map and a mutex
	var cacheT *types.Named
	if pk := p.Pkg("pkg/scan/arp"); pk != nil {
		for _, n := range pk.Types.Scope().Names() {
			if tn, ok := pk.Types.Scope().Lookup(n).(*types.TypeName); ok {
				if st, ok := tn.Type().Underlying().(*types.Struct); ok {
					hasMap, hasMu := false, false
					for i := 0; i < st.NumFields(); i++ {
						if _, ok := st.Field(i).Type().Underlying().(*types.Map); ok {
							hasMap = true
						}
						if strings.Contains(types.TypeString(st.Field(i).Type(), nil), "sync.") {
							hasMu = true
						}
					}
					if hasMap && hasMu {
						cacheT, _ = tn.Type().(*types.Named)
					}
				}
			}
		}
	}
	if cacheT == nil {
		r.Undecided("C11.R3", "cache type", "-", "a struct with a map and a mutex exists in pkg/scan/arp", "not found")
		return
	}
	for _, fn := range p.SrcFuncs() {
		if fn.Parent() != nil || fn.Signature.Recv() == nil || recvNamed(fn) != cacheT {
			continue
		}
		name := FuncName(fn)
		pos := p.Pos(fn.Pos())
		okK, whyK := true, ""
		okL, whyL := true, ""
		for _, s := range Paths(fn).Segs {
			if !s.Returns() {
				continue
			}
			// lock state along the path: "", "R" or "W"; a deferred unlock keeps the lock to the end,
			// an explicit unlock ends it at that point
			type span struct {
				from, to int
				kind     string
			}
			var spans []span
			cur := span{kind: ""}
			endOrd := int(^uint(0) >> 1)
			for _, e := range s.Events {
				if e.Kind != EvCall {
					continue
				}
				cf := calleeFull(e.Call)
				switch cf {
				case "(*sync.RWMutex).Lock", "(*sync.Mutex).Lock":
					cur = span{from: e.Ord, to: endOrd, kind: "W"}
				case "(*sync.RWMutex).RLock":
					cur = span{from: e.Ord, to: endOrd, kind: "R"}
				case "(*sync.RWMutex).Unlock", "(*sync.Mutex).Unlock", "(*sync.RWMutex).RUnlock":
					if cur.kind != "" {
						cur.to = e.Ord
						spans = append(spans, cur)
						cur = span{}
					}
				}
			}
			if cur.kind != "" {
				// still held at the end of the path: must be released by a deferred unlock of the same kind
				released := false
				for _, d := range Deferred(fn) {
					cf := calleeFull(&d.Call)
					// `defer func() { mu.Unlock() }()`: an unconditional unlock in the literal's entry block
					if cl := StaticCallee(&d.Call); cl != nil && cl.Parent() == fn && len(cl.Blocks) > 0 {
						for _, in := range cl.Blocks[0].Instrs {
							if c, isC := in.(*ssa.Call); isC && strings.Contains(calleeFull(&c.Call), "nlock") {
								cf = calleeFull(&c.Call)
							}
						}
					}
					if (cur.kind == "W" && (cf == "(*sync.RWMutex).Unlock" || cf == "(*sync.Mutex).Unlock")) || (cur.kind == "R" && cf == "(*sync.RWMutex).RUnlock") {
						released = true
					}
				}
				if !released {
					okL, whyL = false, "the lock is never released on this path"
				}
				spans = append(spans, cur)
			}
			held := func(ord int) string {
				for _, sp := range spans {
					if ord > sp.from && ord < sp.to {
						return sp.kind
					}
				}
				return ""
			}
			// map accesses and writes
			for _, b := range s.Blocks {
				for _, in := range b.Instrs {
					var key ssa.Value
					write := false
					switch t := in.(type) {
					case *ssa.Lookup:
						if _, isMap := t.X.Type().Underlying().(*types.Map); isMap {
							key = t.Index
						}
					case *ssa.MapUpdate:
						key, write = t.Key, true
					case *ssa.Call:
						if bi, ok := t.Call.Value.(*ssa.Builtin); ok && bi.Name() == "delete" {
							key, write = t.Call.Args[1], true
						}
					case *ssa.Store:
						if _, isSpill := t.Addr.(*ssa.Alloc); isSpill {
							break // a parameter or local spilled to a cell because a closure captures it
						}
						if derivesFromParam(t.Addr, fn.Params[0], 0) {
							if held(s.ord[in]) != "W" {
								okL, whyL = false, "receiver state is written without the write lock (data race between the packet workers)"
							}
						}
					}
					if key == nil {
						continue
					}
					h := held(s.ord[in])
					if h == "" {
						okL, whyL = false, "the map is accessed while no lock is held"
					}
					if write && h != "W" {
						okL, whyL = false, "the map is written without the write lock"
					}
					e := sxSeg(s, key, 0)
					if len(fn.Params) < 2 || e != "(net.IP).String("+fn.Params[1].Name()+")" {
						okK, whyK = false, "the map is keyed by "+e+", expected ip.String() of the method's address parameter"
					}
				}
			}
		}
		r.Check(okK, "C11.R3", name+"/key", pos, "the map is keyed by ip.String() of the address parameter (4- and 16-byte spellings agree)", whyK)
		r.Check(okL, "C11.R3", name+"/lock", pos, "every map access happens while the lock is held (released by defer or explicitly afterwards); writes hold the write lock", whyL)
	}
}

// ---- R4 ----

func checkResolver(p *Prog, r *Report) {
	var gen *ssa.Function
	for _, f := range p.Implementers(modPath+"/pkg/scan", "RequestGenerator", "GenerateRequests") {
		if f.Pkg == p.SPkg("pkg/scan/arp") {
			gen = f
		}
	}
	if gen == nil {
		r.Undecided("C11.R4", "resolver", "-", "pkg/scan/arp implements scan.RequestGenerator", "not found")
		return
	}
	gs := GoClosures(gen)
	if len(gs) != 1 {
		r.Undecided("C11.R4", FuncName(gen), p.Pos(gen.Pos()), "one resolver goroutine", fmt.Sprint(len(gs)))
		return
	}
	g := gs[0]
	name := FuncName(g)
	pos := p.Pos(g.Pos())
	heads := loopHeadersSorted(g)
	if len(heads) != 1 {
		r.Undecided("C11.R4", name, pos, "the resolver is one loop", fmt.Sprint(len(heads)))
		return
	}
	// no loop-carried state besides the channel
	carried := 0
	for _, in := range heads[0].Instrs {
		if _, ok := in.(*ssa.Phi); ok {
			carried++
		}
	}
	ok, why := carried == 0, "loop-carried values: another request's data can leak into the next"
	var lookupFn *ssa.Function
	nPaths := 0
	sawMac, sawNone := false, false
	// the lookup is a closure kept in the generator (one address parameter) or a named function of the
	// package that also takes the cache and the gateway MAC; a named lookup is judged as a unit, not expanded
	var namedLookup *ssa.Function
	for _, b := range g.Blocks {
		for _, in := range b.Instrs {
			if c, isC := in.(*ssa.Call); isC {
				if f := StaticCallee(&c.Call); f != nil && f.Pkg == g.Pkg && f.Signature.Recv() == nil && f.Signature.Results().Len() == 1 &&
					types.TypeString(f.Signature.Results().At(0).Type(), nil) == "net.HardwareAddr" {
					namedLookup = f
				}
			}
		}
	}
	segs := PathsInl(g).From(heads[0])
	if namedLookup != nil {
		segs = Paths(g).From(heads[0])
	}
	addrArg := 0
	var lookSite *ssa.Call
	for _, s := range segs {
		var look *Event
		for _, e := range s.Events {
			if e.Kind != EvCall || e.Call.Signature().Results().Len() != 1 || types.TypeString(e.Call.Signature().Results().At(0).Type(), nil) != "net.HardwareAddr" {
				continue
			}
			if namedLookup != nil && StaticCallee(e.Call) == namedLookup {
				look = e
			} else if namedLookup == nil && e.Call.Signature().Params().Len() == 1 {
				look = e
			}
		}
		if look == nil {
			continue
		}
		nPaths++
		var req ssa.Value
		for _, rc := range s.Recvs() {
			if rc.Val != nil {
				req = rc.Val
			}
		}
		// the address argument: the one of type net.IP
		addrArg = 0
		for i, a := range look.Call.Args {
			if types.TypeString(a.Type(), nil) == "net.IP" {
				addrArg = i
			}
		}
		lookSite, _ = look.Instr.(*ssa.Call)
		if b, f, isF := fieldLoad(s.Resolve(look.Call.Args[addrArg])); !isF || f != "DstIP" || req == nil || !sameThroughCells(s, b, req) {
			ok, why = false, "the MAC is looked up for "+sxSeg(s, look.Call.Args[addrArg], 0)+", not the request's own destination"
		}
		if namedLookup != nil {
			lookupFn = namedLookup
		}
		// which function is the lookup: a field of the generator holding a closure
		if _, f, isF := fieldLoad(s.Resolve(look.Call.Value)); isF {
			for _, v := range p.StoresToField(fieldVarOfLoad(s.Resolve(look.Call.Value))) {
				if mc, isMC := v.(*ssa.MakeClosure); isMC {
					lookupFn, _ = mc.Fn.(*ssa.Function)
				}
			}
			_ = f
		}
		k, isNil := s.NilFact(look.Val)
		if !k {
			ok, why = false, "the lookup result is not tested"
			continue
		}
		fw := 0
		for _, em := range s.Emits() {
			if req != nil && sameThroughCells(s, em.Val, req) {
				fw++
			}
		}
		if fw != 1 {
			ok, why = false, fmt.Sprintf("a request is forwarded %d times", fw)
		}
		var storedMAC, storedErr ssa.Value
		for _, e := range s.Events {
			if e.Kind == EvStore {
				if fa, isFA := e.Addr.(*ssa.FieldAddr); isFA && req != nil && sameThroughCells(s, fa.X, req) {
					switch fieldName(fa.X.Type(), fa.Field) {
					case "DstMAC":
						storedMAC = e.Val
					case "Err":
						storedErr = e.Val
					}
				}
			}
		}
		if !isNil {
			sawMac = true
			if storedMAC == nil || stripConvAll(s.Resolve(storedMAC)) != look.Val || storedErr != nil {
				ok, why = false, "with a MAC found the request must carry exactly that MAC and no error"
			}
		} else {
			sawNone = true
			if storedErr == nil || errValueKind(s, storedErr) != retFail || storedMAC != nil {
				ok, why = false, "without any MAC the request must carry an error instead of a MAC"
			}
		}
	}
	r.Check(ok && sawMac && sawNone, "C11.R4", name+"/per-request", pos, "per request: the MAC of its own destination is looked up, found => stored, none => error; exactly one forward; no state carried over", why)
	// the lookup closure: cache first, gateway second
	if lookupFn == nil {
		r.Undecided("C11.R4", name+"/lookup", pos, "the lookup function stored in the generator is a closure literal", "not found")
		return
	}
	okC, whyC := true, ""
	sawHit, sawMiss := false, false
	for _, s := range Paths(lookupFn).Segs {
		if !s.Returns() {
			continue
		}
		var get *Event
		for _, e := range s.Events {
			if e.Kind == EvCall {
				if f := StaticCallee(e.Call); f != nil && f.Name() == "Get" {
					get = e
				}
			}
		}
		if get == nil {
			okC, whyC = false, "a path answers without consulting the cache"
			continue
		}
		addrPrm := lookupFn.Params[0]
		if namedLookup != nil && addrArg < len(lookupFn.Params) {
			addrPrm = lookupFn.Params[addrArg]
		}
		if get.Call.Args[1] != ssa.Value(addrPrm) {
			okC, whyC = false, "the cache is asked about a different address"
		}
		k, isNil := s.NilFact(get.Val)
		rv := s.Resolve(s.Exit.(*ssa.Return).Results[0])
		switch {
		case k && !isNil:
			sawHit = true
			if rv != get.Val {
				okC, whyC = false, "a cache hit is not the answer"
			}
		case k && isNil:
			sawMiss = true
			if prm, isPrm := rv.(*ssa.Parameter); isPrm && namedLookup != nil && lookSite != nil {
				// named form: the fallback parameter is bound to the generator's gateway field at the call site
				idx := paramIndex(lookupFn, prm)
				if idx < 0 || idx >= len(lookSite.Call.Args) {
					okC, whyC = false, "a cache miss falls back to "+sx(rv, 0)
				} else if _, f, isF := fieldLoad(lookSite.Call.Args[idx]); !isF || !strings.Contains(strings.ToLower(f), "gateway") {
					okC, whyC = false, "a cache miss falls back to "+sx(lookSite.Call.Args[idx], 0)
				}
			} else if u, isU := rv.(*ssa.UnOp); !isU || u.Op != token.MUL {
				okC, whyC = false, "a cache miss does not fall back to the gateway MAC"
			} else if fv, isFV := u.X.(*ssa.FreeVar); !isFV || !strings.Contains(strings.ToLower(fv.Name()), "gateway") {
				okC, whyC = false, "a cache miss falls back to "+sx(rv, 0)
			}
		default:
			okC, whyC = false, "cache result not tested"
		}
	}
	r.Check(okC && sawHit && sawMiss, "C11.R4", FuncName(lookupFn), p.Pos(lookupFn.Pos()), "the destination's own cache entry wins; only a miss falls back to the gateway MAC", whyC)
	// the closure captures the constructor's own parameters
	if namedLookup != nil && lookSite != nil {
		okF, whyF := true, ""
		for i, a := range lookSite.Call.Args {
			if i == addrArg {
				continue
			}
			fv := fieldVarOfLoad(a)
			if fv == nil {
				okF, whyF = false, "a lookup argument is not a field of the generator: "+sx(a, 0)
				continue
			}
			st := p.StoresToField(fv)
			if len(st) == 0 {
				okF, whyF = false, "field "+fv.Name()+" is never set"
			}
			for _, v := range st {
				if _, isP := v.(*ssa.Parameter); !isP {
					okF, whyF = false, "field "+fv.Name()+" is set from "+sx(v, 0)+", not from a constructor parameter"
				}
			}
		}
		r.Check(okF, "C11.R4", FuncName(lookupFn)+"/captures", p.Pos(lookupFn.Pos()), "cache and gateway MAC used by the lookup are the constructor's arguments", whyF)
		return
	}
	ctor := lookupFn.Parent()
	okP := ctor != nil
	if ctor != nil {
		for _, fv := range lookupFn.FreeVars {
			b := BindingOf(fv)
			good := false
			for _, o := range p.Origins(b) {
				if _, isP := o.(*ssa.Parameter); isP {
					good = true
				}
			}
			if a, isA := b.(*ssa.Alloc); isA {
				for _, st := range p.StoresToAlloc(a) {
					if _, isP := st.(*ssa.Parameter); isP {
						good = true
					}
				}
			}
			if !good {
				okP = false
			}
		}
	}
	r.Check(okP, "C11.R4", FuncName(lookupFn)+"/captures", p.Pos(lookupFn.Pos()), "cache and gateway MAC used by the lookup are the constructor's arguments", "captured values are not the constructor's parameters")
}

// ---- R5 ----

func checkResolverWiring(p *Prog, r *Report) {
	const sink = modPath + "/pkg/scan.NewPacketSource"
	n := 0
	for _, fn := range p.SrcFuncs() {
		if fn.Pkg != p.SPkg("command") {
			continue
		}
		// only IP-level builders: their options type has a cache field
		for _, c := range callInstrs(fn, sink) {
			hasCacheOpt := false
			for _, b := range fn.Blocks {
				for _, in := range b.Instrs {
					if fa, ok := in.(*ssa.FieldAddr); ok && fieldName(fa.X.Type(), fa.Field) == "cache" {
						hasCacheOpt = true
					}
				}
			}
			recvHasCache := false
			if fn.Signature.Recv() != nil {
				if o, _, _ := types.LookupFieldOrMethod(fn.Signature.Recv().Type(), true, fn.Pkg.Pkg, "cache"); o != nil {
					recvHasCache = true
				}
			}
			if !recvHasCache {
				continue
			}
			k := 0
			for _, s := range PathsInl(fn).Segs {
				if !s.Has(c) {
					continue
				}
				k++
				n++
				key := fmt.Sprintf("%s/resolver-path#%d", FuncName(fn), k)
				known, isNil := false, false
				for _, f := range s.Facts {
					bo, ok := f.Cond.(*ssa.BinOp)
					if !ok || !isNilConst(bo.Y) {
						continue
					}
					if _, fl, isF := fieldLoad(s.Resolve(bo.X)); isF && fl == "cache" {
						known, isNil = true, (bo.Op == token.EQL) == f.Truth
					}
				}
				chain := ctorChain(s, c.Call.Args[0])
				var res *chainLink
				for i := range chain {
					if chain[i].Ctor.Pkg == p.SPkg("pkg/scan/arp") {
						res = &chain[i]
					}
				}
				_ = hasCacheOpt
				if !known {
					r.Viol("C11.R5", key, p.Pos(c.Pos()), "whether the resolver is installed depends on a loaded cache", "the path never consults the cache option", s.Describe(p)...)
					continue
				}
				if isNil {
					r.Check(res == nil, "C11.R5", key, p.Pos(c.Pos()), "without a cache (VPN mode) no resolver is installed", "resolver over a nil cache")
					continue
				}
				ok, why := res != nil, "a cache was loaded but requests are not resolved through it (frames leave with an empty destination MAC)"
				if res != nil {
					a := res.Call.Call.Args
					if _, f, isF := fieldLoad(s.Resolve(a[1])); !isF || f != "gatewayMAC" {
						ok, why = false, "gateway MAC argument is "+sxSeg(s, a[1], 0)
					}
					if _, f, isF := fieldLoad(s.Resolve(a[2])); !isF || f != "cache" {
						ok, why = false, "cache argument is "+sxSeg(s, a[2], 0)
					}
				}
				r.Check(ok, "C11.R5", key, p.Pos(c.Pos()), "with a loaded cache the generator is wrapped by the resolver over (gatewayMAC, cache) of the options", why, s.Describe(p)...)
			}
		}
	}
	// VPN mode skips cache loading; the gateway MAC source
	for _, fn := range p.SrcFuncs() {
		if fn.Pkg != p.SPkg("command") || fn.Parent() != nil {
			continue
		}
		var loads []*ssa.Call
		for _, b := range fn.Blocks {
			for _, in := range b.Instrs {
				if c, ok := in.(*ssa.Call); ok {
					if f := StaticCallee(&c.Call); f != nil && f.Pkg == fn.Pkg && f.Signature.Results().Len() == 2 &&
						strings.HasSuffix(types.TypeString(f.Signature.Results().At(0).Type(), nil), "arp.Cache") {
						loads = append(loads, c)
					}
				}
			}
		}
		if len(loads) == 0 {
			continue
		}
		ok, why := true, ""
		for _, c := range loads {
			if !vpnOffAt(p, fn, c, 3) {
				ok, why = false, "the ARP cache is loaded (stdin consumed) on a path where VPN mode is not known to be off"
			}
		}
		r.Check(ok, "C11.R5", FuncName(fn)+"/vpn-skips-cache", p.Pos(fn.Pos()), "the ARP cache is loaded only when not in VPN mode", why)
	}
	for _, fn := range p.SrcFuncs() {
		if fn.Pkg != p.SPkg("command") || fn.Parent() != nil || fn.Signature.Results().Len() != 2 ||
			types.TypeString(fn.Signature.Results().At(0).Type(), nil) != "net.HardwareAddr" || fn.Signature.Params().Len() != 2 {
			continue
		}
		ok, why := true, ""
		sawOpt, sawCache := false, false
		for _, s := range Paths(fn).Segs {
			if !s.Returns() || retClass(s) == retFail {
				continue
			}
			ok0, isNil := fieldNilFact(s, fn.Params[0], "gatewayMAC")
			rv := sxSeg(s, s.Exit.(*ssa.Return).Results[0], 0)
			if ok0 && !isNil {
				sawOpt = true
				if !strings.HasSuffix(rv, "o.gatewayMAC") {
					ok, why = false, "an explicit --gwmac is not used"
				}
				continue
			}
			sawCache = true
			if !strings.Contains(rv, "(*github.com/v-byte-cpu/sx/pkg/scan/arp.Cache).Get(") && !strings.Contains(rv, "arp.Cache).Get(") {
				ok, why = false, "gateway MAC is "+rv
				continue
			}
			if !strings.Contains(rv, "GetDefaultGatewayIP(iface)") {
				ok, why = false, "the cache is not asked about the default gateway of the scan interface: "+rv
			}
		}
		r.Check(ok && sawOpt && sawCache, "C11.R5", FuncName(fn), p.Pos(fn.Pos()), "the gateway MAC is the explicit option, else the cache entry of the scan interface's default gateway", why)
	}
	if n < 3 {
		r.Viol("C11.R5", "resolver wiring", "-", "tcp, udp and icmp builders are found", fmt.Sprint(n))
	}
}

// vpnOffAt: on every path of fn through instruction at, VPN mode is known to be off - established in fn
// itself or, when fn never tests it, at every call site of fn (helpers extracted from the option parser).
func vpnOffAt(p *Prog, fn *ssa.Function, at ssa.Instruction, depth int) bool {
	decidedHere, allOff, through := false, true, 0
	for _, s := range Paths(fn).Segs {
		if !s.Has(at) {
			continue
		}
		through++
		vk, vv := false, false
		for _, f := range s.Facts {
			if _, fl, isF := fieldLoad(s.Resolve(f.Cond)); isF && fl == "vpnMode" {
				vk, vv = true, f.Truth
			}
		}
		if vk {
			decidedHere = true
			if vv {
				allOff = false
			}
		} else {
			allOff = false
		}
	}
	if through > 0 && allOff {
		return true
	}
	if decidedHere || depth == 0 {
		return false // tested here, but some path through the load does not have it off
	}
	sites := p.CallSites(fn)
	if len(sites) == 0 {
		return false
	}
	for _, cs := range sites {
		if cs.Parent() == fn || !vpnOffAt(p, cs.Parent(), cs, depth-1) {
			return false
		}
	}
	return true
}
