#!/usr/bin/env python3
"""Regenerates /verif/MANIFEST.json from the properties registered in sxlint (`sxlint describe`)."""
import json, subprocess, os
V = os.path.dirname(os.path.abspath(__file__))
subprocess.run([os.path.join(V, "check"), "C00", "quick"], stdout=subprocess.DEVNULL, stderr=subprocess.DEVNULL)  # builds bin/sxlint
desc = json.loads(subprocess.check_output([os.path.join(V, "bin/sxlint"), "describe"]))
have = {d["id"]: d for d in desc}
allids = [json.loads(l)["id"] for l in open(os.path.join(V, "properties.jsonl"))]
BASE = "for m in .; do (cd /repo/$m && GOFLAGS=-mod=mod GOPROXY=off go test -vet=off -count=1 -timeout 25m ./...); done"
checks, na = [], []
for pid in allids:
    d = have.get(pid)
    if not d:
        na.append({"property_id": pid, "reason": "check under construction in this session (static rules designed in DESIGN.md section 3, not yet implemented)"})
        continue
    nd = "; ".join(d.get("not_decided") or []) or "none beyond the trusted base"
    checks.append({
        "property_id": pid,
        "quick_cmd": "./check %s quick" % pid,
        "thorough_cmd": "./check %s thorough" % pid,
        "evidence_file": "/verif/evidence/%s.json" % pid,
        "replay_cmd_template": "./check replay {path}",
        "engine": "sxlint",
        "level_claimed": {
            "category": "other",
            "text": "Repository-specific static conformance: decides the structural necessary conditions named in DESIGN.md for this property on every path / table row / construction site of the current source, not the runtime behaviour itself. " + d["explanation"],
            "design_ref": "DESIGN.md section 3, " + pid,
        },
        "level_note": "Trusted base: Go type checker, x/tools go/ssa, Go channel/select/defer semantics; " + "; ".join(d.get("assumptions") or []) + ". Clauses NOT decided (runtime quantities): " + nd,
        "technique": "static analysis: custom SSA path-effect / provenance / table-agreement rules (go/packages + go/ssa), quantifying over all paths and sibling sites of /repo's current source",
    })
m = {
    "version": 1,
    "setup_cmd": "cd /verif/sxlint && GOFLAGS=-mod=mod GOPROXY=off GOSUMDB=off GOTOOLCHAIN=local go build -o ../bin/sxlint .",
    "hooks": {"guard": "verif", "enable": "none needed: the checks analyse /repo's source statically and add no hooks", "baseline_off_cmd": BASE, "source_commits": [], "add_only": True},
    "engines": [{"name": "sxlint", "path": "/verif/sxlint", "serves_properties": [c["property_id"] for c in checks],
                 "kind_free_text": "custom static analyser over go/packages + go/ssa: path-effect segments, value origins, table extraction, predicate folding, sibling cross-checks"}],
    "checks": checks,
    "notes": "All checks are static (no repo code is executed). `./check <id> thorough` additionally runs the self-validation corpus (single-edit variants applied via packages.Overlay, plus the seeded changes under /verif/seeded) and fails if the checker misses one.",
    "not_applicable": na,
}
json.dump(m, open(os.path.join(V, "MANIFEST.json"), "w"), indent=1)
print("claimed:", [c["property_id"] for c in checks], "not claimed:", [n["property_id"] for n in na])
