#!/bin/bash
# benign_matrix.sh <dir-with-*.out/b*/patch.diff>: applies each behaviour-preserving change to
# /repo's working tree (one at a time, undone straight afterwards), runs all twenty quick checks
# without writing evidence, and lists every alarm. An alarm on a change that really preserves the
# behaviour is a false alarm of the checker.
set -u
export GOFLAGS=-mod=mod GOPROXY=off GOSUMDB=off GOTOOLCHAIN=local; unset GOWORK
V=/verif; SRC=${1:-/tmp/benign}
cd $V && ./check C04 quick >/dev/null 2>&1
if [ -n "$(git -C /repo status --porcelain)" ]; then echo "/repo working tree not clean"; exit 2; fi
PROPS=$(bin/sxlint list)
for pd in $(ls -d $SRC/*/b*/ $SRC/*.out/b*/ 2>/dev/null | sort -u); do
  [ -f $pd/patch.diff ] || continue
  name=$(echo $pd | sed "s#$SRC/##; s#/\$##")
  if ! git -C /repo apply --check $pd/patch.diff 2>/dev/null; then echo "$name: patch does not apply"; continue; fi
  git -C /repo apply $pd/patch.diff
  if ! (cd /repo && go build ./... 2>/dev/null); then echo "$name: does not build"; git -C /repo checkout -- .; git -C /repo clean -fdq; continue; fi
  alarms=""
  for p in $PROPS; do
    o=$(bin/sxlint check -prop $p -tier quick -no-evidence -fail-keys 2>/dev/null | grep '^FAIL-KEY' | sed 's/^FAIL-KEY //' | paste -sd';')
    [ -n "$o" ] && alarms="$alarms [$o]"
  done
  git -C /repo checkout -- . ; git -C /repo clean -fdq
  echo "$name: ${alarms:-silent}"
done
