#!/bin/bash
# verify_benign.sh <ID> <k>: confirms a behaviour-preserving refactoring produced by an independent agent in its
# scratch worktree /tmp/benign/<ID> (patch applies, go build and the full suite pass), then stores it under /verif/benign/<ID>-b<k>/
set -u
ID=$1; K=$2; WT=/tmp/benign/$ID; OUT=/tmp/benign/$ID.out/b$K
export GOFLAGS=-mod=mod GOPROXY=off GOSUMDB=off GOTOOLCHAIN=local; unset GOWORK
cd $WT || exit 2
git checkout -q -- . && git clean -fdq
[ -f $OUT/patch.diff ] || { echo "no patch"; exit 2; }
git apply $OUT/patch.diff || { echo "patch does not apply"; exit 2; }
if git diff --name-only | grep -q '_test.go$'; then echo "touches tests"; git checkout -q -- .; exit 2; fi
go build ./... && go test -vet=off -count=1 ./... > /tmp/benign/$ID.b$K.suite.log 2>&1; RC=$?
git checkout -q -- . && git clean -fdq
if [ $RC -eq 0 ]; then
  D=/verif/benign/$ID-b$K; mkdir -p $D; cp $OUT/patch.diff $D/patch.diff
  python3 - "$OUT/meta.json" "$D/meta.json" "$ID" <<'PY'
import json,sys
m=json.load(open(sys.argv[1])); m["written_for_property"]=sys.argv[3]
m["verified"]="verify_benign.sh: patch applies to a clean worktree, go build ./... and the full suite (go test -vet=off -count=1 ./...) pass with it; behaviour preservation argued by the authoring agent (why_equivalent) and re-read before keeping"
json.dump(m,open(sys.argv[2],"w"),indent=1)
PY
  echo "KEPT $D"
else
  echo "REJECTED (suite rc=$RC)"; grep -v "^ok\|no test files" /tmp/benign/$ID.b$K.suite.log | tail -5
fi
